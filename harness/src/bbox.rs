//! layout21raw::bbox replay (specs/geom/BBox.tla, MC_BBox.tla).
use crate::util::*;
use crate::CmdFn;
use layout21raw::{BoundBox, BoundBoxTrait, Point};
use serde_json::{json, Value};

pub fn commands() -> Vec<(&'static str, CmdFn)> { vec![("bbox_ops", bbox_ops)] }

fn pt(v: &Value) -> Point { Point::new(v[0].as_i64().unwrap() as isize, v[1].as_i64().unwrap() as isize) }
fn box_of(v: &Value) -> BoundBox {
    match v.as_array() { Some(a) if a.len() == 2 => BoundBox::from_points(&pt(&a[0]), &pt(&a[1])), _ => BoundBox::empty() }
}
fn box_json(b: &BoundBox) -> Value { if b.is_empty() { json!([]) } else { json!([[b.p0.x, b.p0.y], [b.p1.x, b.p1.y]]) } }

/// {a, b, g}: every operation of the specification on the pair
fn bbox_ops(case: &Value) -> Value {
    let (a, b) = (box_of(&case["a"]), box_of(&case["b"]));
    let g = geti(case, "g") as isize;
    let mut inside = Vec::new();
    for x in 0..=g { for y in 0..=g { if a.contains(&Point::new(x, y)) { inside.push(json!([x, y])); } } }
    let mut e = a.clone();
    if !e.is_empty() { e.expand(1); }
    let corners: Option<Vec<Point>> = if a.is_empty() || b.is_empty() { None } else { Some(vec![a.p0, b.p1, a.p1, b.p0]) };
    json!({"id": id(case), "outcome": "ok",
           "inter": box_json(&a.intersection(&b)), "hull": box_json(&a.union(&b)),
           "inter_ba": box_json(&b.intersection(&a)), "hull_ba": box_json(&b.union(&a)),
           "a_contains": inside, "expand1": box_json(&e),
           "size": if a.is_empty() { json!([]) } else { let s = a.size(); json!([s.0, s.1]) },
           "of_corners": corners.map(|c| box_json(&c.bbox())).unwrap_or(json!([])),
           "point_hull": if a.is_empty() { json!([]) } else { box_json(&a.p0.union(&b)) }})
}
