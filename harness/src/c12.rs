//! C12 — instance transforms.
//!  transform_chain  S->I: a chain of right-angle placements with the composed integer affine map
//!                   computed by D4.tla; compared on the grid -3..3 x -3..3 with
//!                   (a) cascaded Transform::from_instance, (b) cascaded translate∘rotate∘reflect_vert,
//!                   (c) Layout::flatten of a real nested library.
//!  transform_pyth   S->I: one placement with a Pythagorean angle; half-unit tolerance on rational images.
//!  transform_pyth2  S->I: Pythagorean angles at two levels of a hierarchy whose middle cell is instantiated three times;
//!                   Layout::flatten against the exact rational images of MC_D4Pyth2.tla, every copy.
use crate::util::*;
use crate::CmdFn;
use layout21raw as raw;
use layout21utils::Ptr;
use raw::{Point, Transform, TransformTrait};
use serde_json::{json, Value};

pub fn commands() -> Vec<(&'static str, CmdFn)> {
    vec![("transform_chain", transform_chain), ("transform_pyth", transform_pyth), ("transform_pyth2", transform_pyth2)]
}

struct Pl { loc: Point, r: bool, a: i64 }
fn chain_of(case: &Value) -> Vec<Pl> {
    geta(case, "chain").iter().map(|p| Pl {
        loc: Point::new(p["loc"][0].as_i64().unwrap() as isize, p["loc"][1].as_i64().unwrap() as isize),
        r: p["r"].as_bool().unwrap(), a: p["a"].as_i64().unwrap() }).collect()
}
fn angle_opt(a: i64, explicit_zero: bool) -> Option<f64> {
    if a == 0 && !explicit_zero { None } else { Some(a as f64) }
}

fn transform_chain(case: &Value) -> Value {
    let chain = chain_of(case);
    let m: Vec<Vec<i64>> = geta(case, "m").iter().map(ivec).collect();
    let t = ivec(&case["t"]);
    let expect = |p: (i64, i64)| (m[0][0] * p.0 + m[0][1] * p.1 + t[0], m[1][0] * p.0 + m[1][1] * p.1 + t[1]);
    let mut mism: Vec<Value> = Vec::new();
    // (a) from_instance cascade, (b) elementary cascade
    // the same orientation written three ways: the angle as it is (0 optionally left out), one full turn less (a negative angle)
    // and one full turn more - an angle means a rotation, whatever multiple of 360 degrees it carries
    for (explicit_zero, turn) in [(false, 0i64), (true, 0), (true, -360), (true, 360)] {
        let mut ta = Transform::identity();
        let mut tb = Transform::identity();
        for pl in &chain {
            ta = Transform::cascade(&ta, &Transform::from_instance(&pl.loc, pl.r, angle_opt(pl.a + turn, explicit_zero || turn != 0)));
            let refl = if pl.r { Transform::reflect_vert() } else { Transform::identity() };
            let e = Transform::cascade(&Transform::translate(pl.loc.x as f64, pl.loc.y as f64),
                                       &Transform::cascade(&Transform::rotate((pl.a + turn) as f64), &refl));
            tb = Transform::cascade(&tb, &e);
        }
        for x in -3..=3i64 { for y in -3..=3i64 {
            let p = Point::new(x as isize, y as isize);
            let want = expect((x, y));
            let ga = p.transform(&ta);
            let gb = p.transform(&tb);
            if (ga.x as i64, ga.y as i64) != want && mism.len() < 6 {
                mism.push(json!({"via":"from_instance","p":[x,y],"got":[ga.x,ga.y],"want":[want.0,want.1]}));
            }
            if (gb.x as i64, gb.y as i64) != want && mism.len() < 6 {
                mism.push(json!({"via":"elementary","p":[x,y],"got":[gb.x,gb.y],"want":[want.0,want.1]}));
            }
        }}
    }
    // (c) flatten of a nested library; leaf holds an asymmetric rectangle, polygon and path
    let mut layers = raw::Layers::default();
    let lk = layers.add(raw::Layer::from_num(1));
    let leaf_pts_rect = [(1i64, 2i64), (3, 3)];
    let leaf_poly = [(0i64, 0i64), (3, 0), (0, 1)];
    let leaf_path = [(0i64, 0i64), (2, 0), (2, 3)];
    let mk = |s: raw::Shape| raw::Element { net: None, layer: lk, purpose: raw::LayerPurpose::Drawing, inner: s };
    let p2 = |v: &[(i64, i64)]| v.iter().map(|p| Point::new(p.0 as isize, p.1 as isize)).collect::<Vec<_>>();
    let mut leaf = raw::Layout::default();
    leaf.name = "leaf".into();
    leaf.elems.push(mk(raw::Shape::Rect(raw::Rect { p0: p2(&leaf_pts_rect)[0], p1: p2(&leaf_pts_rect)[1] })));
    leaf.elems.push(mk(raw::Shape::Polygon(raw::Polygon { points: p2(&leaf_poly) })));
    leaf.elems.push(mk(raw::Shape::Path(raw::Path { points: p2(&leaf_path), width: 2 })));
    // siblings: at every level a decoy instance of a marker cell before and after the chain instance (specs/geom/MC_D4.tla)
    let lk2 = layers.add(raw::Layer::from_num(2));
    let marker_pts = [(0i64, 0i64), (2, 0), (0, 1)];
    let mut marker = raw::Layout::default();
    marker.name = "marker".into();
    marker.elems.push(raw::Element { net: None, layer: lk2, purpose: raw::LayerPurpose::Drawing, inner: raw::Shape::Polygon(raw::Polygon { points: p2(&marker_pts) }) });
    let marker = Ptr::new(raw::Cell::from(marker));
    let decoy = |key: &str, nm: &str| -> raw::Instance {
        let d = &case[key];
        raw::Instance { inst_name: nm.into(), cell: marker.clone(), loc: Point::new(d["loc"][0].as_i64().unwrap() as isize, d["loc"][1].as_i64().unwrap() as isize),
                        reflect_vert: d["r"].as_bool().unwrap(), angle: Some(d["a"].as_i64().unwrap() as f64) }
    };
    let with_decoys = case.get("dec1").is_some();
    let mut cur: Ptr<raw::Cell> = Ptr::new(raw::Cell::from(leaf));
    for (i, pl) in chain.iter().enumerate().rev() {
        let mut lay = raw::Layout::default();
        lay.name = format!("lvl{}", i);
        if with_decoys { lay.insts.push(decoy("d1", "before")); }
        lay.insts.push(raw::Instance { inst_name: "i".into(), cell: cur.clone(), loc: pl.loc, reflect_vert: pl.r, angle: angle_opt(pl.a, false) });
        if with_decoys { lay.insts.push(decoy("d2", "after")); }
        cur = Ptr::new(raw::Cell::from(lay));
    }
    let top = cur.read().unwrap();
    match top.layout.as_ref().unwrap().flatten() {
        Ok(all) => {
            let (markers, elems): (Vec<_>, Vec<_>) = all.iter().partition(|e| e.layer == lk2);
            if with_decoys {
                let mut want: Vec<Vec<(i64, i64)>> = Vec::new();
                for key in ["dec1", "dec2"] { for mp in geta(case, key) {
                    let mm: Vec<Vec<i64>> = geta(mp, "m").iter().map(ivec).collect();
                    let tt = ivec(&mp["t"]);
                    want.push(marker_pts.iter().map(|p| (mm[0][0] * p.0 + mm[0][1] * p.1 + tt[0], mm[1][0] * p.0 + mm[1][1] * p.1 + tt[1])).collect());
                }}
                let mut got: Vec<Vec<(i64, i64)>> = markers.iter().map(|e| match &e.inner {
                    raw::Shape::Polygon(p) => p.points.iter().map(|q| (q.x as i64, q.y as i64)).collect(), _ => vec![] }).collect();
                want.sort(); got.sort();
                if got != want {
                    mism.push(json!({"via":"flatten-siblings","got":format!("{:?}", got),"want":format!("{:?}", want)}));
                }
            }
            if elems.len() != 3 { mism.push(json!({"via":"flatten","count":elems.len()})); }
            for e in elems.iter() {
                let (got, src): (Vec<(i64, i64)>, &[(i64, i64)]) = match &e.inner {
                    raw::Shape::Rect(r) => (vec![(r.p0.x as i64, r.p0.y as i64), (r.p1.x as i64, r.p1.y as i64)], &leaf_pts_rect),
                    raw::Shape::Polygon(p) => (p.points.iter().map(|q| (q.x as i64, q.y as i64)).collect(), &leaf_poly),
                    raw::Shape::Path(p) => { if p.width != 2 { mism.push(json!({"via":"flatten","width":p.width})); }
                        (p.points.iter().map(|q| (q.x as i64, q.y as i64)).collect(), &leaf_path) }
                };
                let want: Vec<(i64, i64)> = src.iter().map(|p| expect(*p)).collect();
                if got != want && mism.len() < 8 {
                    mism.push(json!({"via":"flatten","got":got.iter().map(|p| vec![p.0,p.1]).collect::<Vec<_>>(),
                                     "want":want.iter().map(|p| vec![p.0,p.1]).collect::<Vec<_>>()}));
                }
            }
        }
        Err(e) => mism.push(json!({"via":"flatten","err":err_str(e)})),
    }
    json!({"id": id(case), "outcome":"ok", "evals": 49*8 + 3, "nmismatch": mism.len(), "mismatch": mism})
}

fn transform_pyth(case: &Value) -> Value {
    // {c, s, d, r, loc:[x,y], pts:[[x,y,numx,numy],...]}: image = loc + (numx/d, numy/d)
    let (c, s, d) = (geti(case, "c"), geti(case, "s"), geti(case, "d"));
    let r = getb(case, "r");
    let loc = Point::new(case["loc"][0].as_i64().unwrap() as isize, case["loc"][1].as_i64().unwrap() as isize);
    let angle = (s as f64).atan2(c as f64).to_degrees();
    let tr = Transform::from_instance(&loc, r, Some(angle));
    let refl = if r { Transform::reflect_vert() } else { Transform::identity() };
    let te = Transform::cascade(&Transform::translate(loc.x as f64, loc.y as f64), &Transform::cascade(&Transform::rotate(angle), &refl));
    let mut mism = Vec::new();
    let mut n = 0;
    for q in geta(case, "pts") {
        let v = ivec(q);
        let p = Point::new(v[0] as isize, v[1] as isize);
        for (via, t) in [("from_instance", &tr), ("elementary", &te)] {
            let g = p.transform(t);
            let gx = (g.x - loc.x) as i64; let gy = (g.y - loc.y) as i64;
            n += 1;
            // half-unit tolerance: 2*|d*impl - num| <= d
            if 2 * (d * gx - v[2]).abs() > d || 2 * (d * gy - v[3]).abs() > d {
                if mism.len() < 6 { mism.push(json!({"via":via,"p":[v[0],v[1]],"got":[gx,gy],"num":[v[2],v[3]],"den":d})); }
            }
        }
    }
    json!({"id": id(case), "outcome":"ok", "evals": n, "nmismatch": mism.len(), "mismatch": mism})
}

fn transform_pyth2(case: &Value) -> Value {
    // {c1,s1,d1,r1,loc1, c2,s2,d2,r2,loc2, den, pts:[[x,y,numx,numy],...]}: image = loc2 + (numx/den, numy/den)
    let pt = |k: &str| Point::new(case[k][0].as_i64().unwrap() as isize, case[k][1].as_i64().unwrap() as isize);
    let (loc1, loc2) = (pt("loc1"), pt("loc2"));
    let a1 = (geti(case, "s1") as f64).atan2(geti(case, "c1") as f64).to_degrees();
    let a2 = (geti(case, "s2") as f64).atan2(geti(case, "c2") as f64).to_degrees();
    let den = geti(case, "den");
    let rows: Vec<Vec<i64>> = geta(case, "pts").iter().map(ivec).collect();
    let mut layers = raw::Layers::default();
    let lk = layers.add(raw::Layer::from_num(1));
    // leaf: one polygon holding the kept grid points (the point list is what is transformed; its shape does not matter)
    let mut leaf = raw::Layout::default();
    leaf.name = "leaf".into();
    leaf.elems.push(raw::Element { net: None, layer: lk, purpose: raw::LayerPurpose::Drawing,
        inner: raw::Shape::Polygon(raw::Polygon { points: rows.iter().map(|v| Point::new(v[0] as isize, v[1] as isize)).collect() }) });
    let leaf = Ptr::new(raw::Cell::from(leaf));
    let mut mid = raw::Layout::default();
    mid.name = "mid".into();
    mid.insts.push(raw::Instance { inst_name: "c0".into(), cell: leaf.clone(), loc: loc1, reflect_vert: getb(case, "r1"), angle: Some(a1) });
    let mid = Ptr::new(raw::Cell::from(mid));
    // the middle cell three times: the same placement twice, and once shifted by a whole number of units
    let shifts = [(0isize, 0isize), (0, 0), (-17, 31)];
    let mut top = raw::Layout::default();
    top.name = "top".into();
    for (k, sh) in shifts.iter().enumerate() {
        top.insts.push(raw::Instance { inst_name: format!("b{}", k), cell: mid.clone(), loc: Point::new(loc2.x + sh.0, loc2.y + sh.1),
                                       reflect_vert: getb(case, "r2"), angle: Some(a2) });
    }
    let mut mism = Vec::new();
    let mut n = 0;
    match top.flatten() {
        Ok(all) => {
            if all.len() != shifts.len() { mism.push(json!({"via":"flatten","count":all.len()})); }
            for (k, e) in all.iter().enumerate().take(shifts.len()) {
                let got: Vec<Point> = match &e.inner { raw::Shape::Polygon(p) => p.points.clone(), _ => Vec::new() };
                if got.len() != rows.len() { mism.push(json!({"via":"flatten","copy":k,"points":got.len()})); continue; }
                for (v, g) in rows.iter().zip(got.iter()) {
                    let gx = (g.x - loc2.x - shifts[k].0) as i64; let gy = (g.y - loc2.y - shifts[k].1) as i64;
                    n += 1;
                    if 2 * (den * gx - v[2]).abs() > den || 2 * (den * gy - v[3]).abs() > den {
                        if mism.len() < 6 { mism.push(json!({"via":"flatten","copy":k,"p":[v[0],v[1]],"got":[gx,gy],"num":[v[2],v[3]],"den":den})); }
                    }
                }
            }
        }
        Err(e) => mism.push(json!({"via":"flatten","err":err_str(e)})),
    }
    json!({"id": id(case), "outcome":"ok", "evals": n, "nmismatch": mism.len(), "mismatch": mism})
}
