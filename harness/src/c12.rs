use crate::CmdFn;
pub fn commands() -> Vec<(&'static str, CmdFn)> { vec![] }
