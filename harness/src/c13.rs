//! C13 — point-in-shape queries.
//!  contains_poly   S->I: a lattice polygon with the specification's inside-bitmap; the polygon, its
//!                  translates and every variant with one vertex inserted on an edge are queried at
//!                  every window point through `ShapeTrait::contains`.
//!  contains_rect / contains_path   S->I for rectangles and Manhattan paths.
//!  contains_at     S->I: a polygon at chip-scale coordinates with explicit query points and the expected
//!                  answers of MC_WideCases; the polygon is also queried reversed and from every starting vertex.
//!  contains_random I->S: random larger simple polygons / paths; (shape, point, answer) events.
use crate::util::*;
use crate::CmdFn;
use layout21raw::{Path, Point, Polygon, Rect, Shape, ShapeTrait};
use serde_json::{json, Value};

pub fn commands() -> Vec<(&'static str, CmdFn)> {
    vec![("contains_poly", contains_poly), ("contains_rect", contains_rect), ("contains_path", contains_path),
         ("contains_random", contains_random), ("contains_at", contains_at)]
}

pub fn pts_of(v: &Value) -> Vec<Point> {
    v.as_array().unwrap().iter().map(|p| Point::new(p[0].as_i64().unwrap() as isize, p[1].as_i64().unwrap() as isize)).collect()
}

fn on_seg(q: (i64, i64), a: (i64, i64), b: (i64, i64)) -> bool {
    (b.0 - a.0) * (q.1 - a.1) - (b.1 - a.1) * (q.0 - a.0) == 0
        && a.0.min(b.0) <= q.0 && q.0 <= a.0.max(b.0) && a.1.min(b.1) <= q.1 && q.1 <= a.1.max(b.1)
}

fn contains_poly(case: &Value) -> Value {
    let base = pts_of(&case["poly"]);
    let g = geti(case, "g") as isize;
    let expect: Vec<i64> = ivec(&case["inside"]);
    let w = g + 3;
    let mut mism = Vec::new();
    let mut evals = 0u64;
    // variants: (name, points, offset)
    let mut variants: Vec<(String, Vec<Point>, (isize, isize))> = vec![("base".into(), base.clone(), (0, 0))];
    for d in [(-2isize, -2isize), (5, 7)] {
        variants.push((format!("shift{:?}", d), base.iter().map(|p| Point::new(p.x + d.0, p.y + d.1)).collect(), d));
    }
    let n = base.len();
    for i in 0..n {
        let a = (base[i].x as i64, base[i].y as i64);
        let b = (base[(i + 1) % n].x as i64, base[(i + 1) % n].y as i64);
        for qx in 0..=g { for qy in 0..=g {
            if on_seg((qx as i64, qy as i64), a, b) {
                let mut v = base.clone();
                v.insert(i + 1, Point::new(qx, qy));
                variants.push((format!("insert{}@({},{})", i + 1, qx, qy), v, (0, 0)));
            }
        }}
    }
    for (name, pts, d) in variants {
        let poly = Shape::Polygon(Polygon { points: pts.clone() });
        for k in 0..(w * w) {
            let x = (k % w) - 1;
            let y = (k / w) - 1;
            let got = poly.contains(&Point::new(x + d.0, y + d.1));
            evals += 1;
            if got != (expect[k as usize] == 1) {
                if mism.len() < 8 {
                    mism.push(json!({"variant": name, "points": pts.iter().map(|p| vec![p.x, p.y]).collect::<Vec<_>>(),
                                     "query": [x + d.0, y + d.1], "got": got, "expected": expect[k as usize] == 1}));
                } else { mism.push(json!(null)); }
            }
        }
    }
    let nm = mism.len();
    mism.retain(|m| !m.is_null());
    json!({"id": id(case), "outcome": "ok", "evals": evals, "nmismatch": nm, "mismatch": mism})
}

fn contains_at(case: &Value) -> Value {
    // {poly:[[x,y]..], qs:[[x,y]..], expect:[0/1..]}
    let base = pts_of(&case["poly"]);
    let qs = pts_of(&case["qs"]);
    let expect = ivec(&case["expect"]);
    let n = base.len();
    let mut variants: Vec<(String, Vec<Point>)> = Vec::new();
    for r in 0..n {
        let mut v = base.clone();
        v.rotate_left(r);
        variants.push((format!("start{}", r), v.clone()));
        v.reverse();
        variants.push((format!("start{}-reversed", r), v));
    }
    let mut mism = Vec::new();
    let mut nm = 0u64;
    let mut evals = 0u64;
    for (name, pts) in variants {
        let poly = Shape::Polygon(Polygon { points: pts.clone() });
        for (q, e) in qs.iter().zip(expect.iter()) {
            let got = poly.contains(q);
            evals += 1;
            if got != (*e == 1) {
                nm += 1;
                if mism.len() < 6 {
                    mism.push(json!({"variant": name, "points": pts.iter().map(|p| vec![p.x, p.y]).collect::<Vec<_>>(),
                                     "query": [q.x, q.y], "got": got, "expected": *e == 1}));
                }
            }
        }
    }
    json!({"id": id(case), "outcome": "ok", "evals": evals, "nmismatch": nm, "mismatch": mism})
}

fn contains_rect(case: &Value) -> Value {
    // {c0:[x,y], c1:[x,y], lo, hi, inside:[...]} window lo..hi squared, row-major
    let c = pts_of(&json!([case["c0"], case["c1"]]));
    let (lo, hi) = (geti(case, "lo") as isize, geti(case, "hi") as isize);
    let expect = ivec(&case["inside"]);
    let w = hi - lo + 1;
    let r = Shape::Rect(Rect { p0: c[0], p1: c[1] });
    let mut mism = Vec::new();
    for k in 0..(w * w) {
        let (x, y) = (lo + k % w, lo + k / w);
        let got = r.contains(&Point::new(x, y));
        if got != (expect[k as usize] == 1) { mism.push(json!({"query":[x,y],"got":got})); }
    }
    json!({"id": id(case), "outcome": "ok", "evals": w*w, "nmismatch": mism.len(), "mismatch": mism})
}

fn contains_path(case: &Value) -> Value {
    // {pts, w, lo, hi, must:[0/1], mustnot:[0/1]}
    let pts = pts_of(&case["pts"]);
    let width = geti(case, "w") as usize;
    let (lo, hi) = (geti(case, "lo") as isize, geti(case, "hi") as isize);
    let must = ivec(&case["must"]);
    let mustnot = ivec(&case["mustnot"]);
    let w = hi - lo + 1;
    let p = Shape::Path(Path { points: pts, width });
    let mut mism = Vec::new();
    for k in 0..(w * w) {
        let (x, y) = (lo + k % w, lo + k / w);
        let got = p.contains(&Point::new(x, y));
        if (must[k as usize] == 1 && !got) || (mustnot[k as usize] == 1 && got) {
            mism.push(json!({"query":[x,y],"got":got,"must":must[k as usize],"mustnot":mustnot[k as usize]}));
        }
    }
    json!({"id": id(case), "outcome": "ok", "evals": w*w, "nmismatch": mism.len(), "mismatch": mism})
}

/// Random simple polygons, simple by construction.
pub fn random_polygon(rng: &mut Rng) -> (String, Vec<(i64, i64)>) {
    match rng.below(4) {
        0 | 1 => {
            // double histogram: columns with bottom < top; a rectilinear polygon with U-, L- and comb shapes
            // one polygon in six is LONG (40..320 vertices): anything that works on blocks or windows of vertices meets its seams
            let cols = if rng.chance(1, 6) { rng.range(20, 80) } else { rng.range(2, 14) };
            let mut xs = vec![rng.range(-50, 50)];
            for _ in 0..cols { let l = *xs.last().unwrap(); xs.push(l + rng.range(1, 9)); }
            let base = rng.range(-40, 40);
            let mut top = Vec::new(); let mut bot = Vec::new();
            for _ in 0..cols { bot.push(base - rng.range(0, 12)); top.push(base + rng.range(1, 14)); }
            let mut pts: Vec<(i64, i64)> = Vec::new();
            // bottom skyline left -> right
            for c in 0..cols as usize { pts.push((xs[c], bot[c])); pts.push((xs[c + 1], bot[c])); }
            // top skyline right -> left
            for c in (0..cols as usize).rev() { pts.push((xs[c + 1], top[c])); pts.push((xs[c], top[c])); }
            // drop consecutive duplicates (equal neighbouring heights leave collinear vertices: kept on purpose)
            pts.dedup();
            if pts.first() == pts.last() { pts.pop(); }
            let mut kind = "rectilinear";
            if rng.chance(1, 3) {
                // shear by 45 degrees: (x, y) -> (x + y, y); simple polygons stay simple
                for p in pts.iter_mut() { p.0 += p.1; }
                kind = "45deg";
            } else if rng.chance(1, 3) {
                for p in pts.iter_mut() { std::mem::swap(&mut p.0, &mut p.1); }   // transpose
            }
            let r = rng.below(pts.len() as u64) as usize;
            pts.rotate_left(r);
            if rng.chance(1, 2) { pts.reverse(); }
            (kind.into(), pts)
        }
        _ => {
            // star-shaped around the origin: distinct directions sorted by angle, random radii
            let n = rng.range(3, 24) as usize;
            let mut dirs: Vec<(i64, i64)> = Vec::new();
            while dirs.len() < n {
                let d = (rng.range(-30, 30), rng.range(-30, 30));
                if d == (0, 0) { continue; }
                // distinct directions only
                if dirs.iter().any(|e| e.0 * d.1 - e.1 * d.0 == 0 && e.0 * d.0 + e.1 * d.1 > 0) { continue; }
                dirs.push(d);
            }
            dirs.sort_by(|a, b| (a.1 as f64).atan2(a.0 as f64).partial_cmp(&(b.1 as f64).atan2(b.0 as f64)).unwrap());
            // the origin must be strictly inside: consecutive directions must turn by less than 180 degrees
            let ok = (0..n).all(|i| { let a = dirs[i]; let b = dirs[(i + 1) % n]; a.0 * b.1 - a.1 * b.0 > 0 });
            if !ok { return random_polygon(rng); }
            let c = (rng.range(-100, 100), rng.range(-100, 100));
            let pts = dirs.iter().map(|d| { let k = rng.range(1, 30); (c.0 + d.0 * k, c.1 + d.1 * k) }).collect();
            ("star".into(), pts)
        }
    }
}

fn contains_random(case: &Value) -> Value {
    let mut rng = Rng::new(geti(case, "seed") as u64);
    let nshapes = geti(case, "shapes");
    let nq = geti(case, "queries");
    let mut events = Vec::new();
    for _ in 0..nshapes {
        let (kind, pts) = random_polygon(&mut rng);
        let poly = Shape::Polygon(Polygon { points: pts.iter().map(|p| Point::new(p.0 as isize, p.1 as isize)).collect() });
        let (x0, x1) = (pts.iter().map(|p| p.0).min().unwrap(), pts.iter().map(|p| p.0).max().unwrap());
        let (y0, y1) = (pts.iter().map(|p| p.1).min().unwrap(), pts.iter().map(|p| p.1).max().unwrap());
        let mut qs: Vec<(i64, i64)> = Vec::new();
        let n = pts.len();
        for i in 0..n {
            let (a, b) = (pts[i], pts[(i + 1) % n]);
            qs.push(a);
            qs.push(((a.0 + b.0) / 2, (a.1 + b.1) / 2));
            for d in [(-1, 0), (1, 0), (0, -1), (0, 1)] { qs.push((a.0 + d.0, a.1 + d.1)); }
            // points on the horizontal line through the vertex: rays through vertices
            qs.push((x0 + rng.below((x1 - x0 + 1) as u64) as i64, a.1));
        }
        while (qs.len() as i64) < nq { qs.push((rng.range(x0 - 2, x1 + 2), rng.range(y0 - 2, y1 + 2))); }
        qs.truncate((nq as usize).max(7 * n));      // every vertex keeps its own queries, however long the polygon
        let answers: Vec<i64> = qs.iter().map(|q| poly.contains(&Point::new(q.0 as isize, q.1 as isize)) as i64).collect();
        events.push(json!({"kind": kind, "poly": pts.iter().map(|p| vec![p.0, p.1]).collect::<Vec<_>>(),
                           "qs": qs.iter().map(|p| vec![p.0, p.1]).collect::<Vec<_>>(), "ans": answers}));
    }
    json!({"id": id(case), "outcome": "ok", "events": events})
}
