//! C15 — the GDSII real codec.  Values cross the boundary as 16 hexadecimal digits (JSON arrays of
//! ints), never as decimal text, so that nothing but `GdsFloat64::{encode,decode}` touches them.
use crate::util::*;
use crate::CmdFn;
use gds21::GdsFloat64;
use serde_json::{json, Value};

pub fn commands() -> Vec<(&'static str, CmdFn)> {
    vec![("gdsreal", gdsreal)]
}

pub fn digits(v: u64) -> Vec<u8> {
    (0..16).map(|i| ((v >> (60 - 4 * i)) & 0xF) as u8).collect()
}
pub fn undigits(v: &Value) -> u64 {
    let mut r = 0u64;
    for d in v.as_array().expect("digits") {
        r = (r << 4) | (d.as_u64().unwrap() & 0xF);
    }
    r
}

fn one_d(x: u64) -> Value {
    let g = GdsFloat64::encode(f64::from_bits(x));
    let back = GdsFloat64::decode(g).to_bits();
    json!({"kind":"d","x":digits(x),"g":digits(g),"back":digits(back)})
}
fn one_g(g: u64) -> Value {
    let x = GdsFloat64::decode(g);
    // Re-encoding is only claimed for reals with <= 53 significant bits; for the few largest reals the
    // correctly rounded double is 16^63 itself, which is outside the encoder's domain: not a verdict.
    let re = std::panic::catch_unwind(|| GdsFloat64::encode(x)).ok();
    json!({"kind":"g","g":digits(g),"x":digits(x.to_bits()),"re":re.map(digits).unwrap_or_else(|| digits(0))})
}

fn gdsreal(case: &Value) -> Value {
    let kind = gets(case, "kind");
    let mut r = match kind {
        "d" => one_d(undigits(&case["x"])),
        "g" => one_g(undigits(&case["g"])),
        "rand" => {
            let mut rng = Rng::new(geti(case, "seed") as u64);
            let n = geti(case, "n");
            let mut ev = Vec::new();
            for i in 0..n {
                if i % 2 == 0 {
                    // uniform over sign, binade in range, fraction bits
                    let s = rng.below(2);
                    let e = (rng.range(-256, 251) + 1023) as u64;
                    let f = rng.next() & ((1u64 << 52) - 1);
                    ev.push(one_d((s << 63) | (e << 52) | f));
                } else {
                    let s = rng.below(2);
                    let x = rng.below(127) + 1;
                    let mut m = rng.next() & ((1u64 << 56) - 1);
                    if (m >> 52) == 0 { m |= (rng.below(15) + 1) << 52; }
                    // a third of the reals carry at most 53 significant bits (re-encoding must be exact)
                    if i % 3 == 0 { let lz = (m >> 52).leading_zeros() - 60; m &= !((1u64 << (3 - lz)) - 1); }
                    ev.push(one_g((s << 63) | (x << 56) | m));
                }
            }
            json!({"kind":"rand","events":ev})
        }
        _ => panic!("harness: bad kind"),
    };
    r["id"] = id(case);
    r["outcome"] = json!("ok");
    r
}
