//! C17 — dependency orderings.
//!
//!  deporder_generic   layout21utils::DepOrderer on an integer graph; logs one event per branch of
//!                     `push` (Enter / Skip / Cycle / Exit) so that the run is a trace of DepOrderDFS.
//!  deporder_embedded  the orderers embedded in the converters, observed through public results:
//!                     raw (raw::DepOrder::order), gds (cell order of Library::from_gds),
//!                     tetris (tetris Library::dep_order), tproto (cell order of the tetris ProtoExporter).
use crate::util::*;
use crate::CmdFn;
use serde_json::{json, Value};
use std::cell::RefCell;

use layout21utils::{DepOrder, DepOrderer, Ptr};

pub fn commands() -> Vec<(&'static str, CmdFn)> {
    vec![("deporder_generic", deporder_generic), ("deporder_embedded", deporder_embedded)]
}

thread_local! {
    static GRAPH: RefCell<Vec<Vec<usize>>> = RefCell::new(Vec::new());
    static EVENTS: RefCell<Vec<Value>> = RefCell::new(Vec::new());
    static DEPTH: RefCell<usize> = RefCell::new(0);
}
const MAX_DEPTH: usize = 20_000;

struct IntOrder;
impl DepOrder for IntOrder {
    type Item = usize;
    type Error = String;
    fn process(item: &usize, orderer: &mut DepOrderer<Self>) -> Result<(), String> {
        EVENTS.with(|e| e.borrow_mut().push(json!({"e":"Enter","n":*item})));
        let d = DEPTH.with(|d| { *d.borrow_mut() += 1; *d.borrow() });
        if d > MAX_DEPTH {
            // depth guard: unbounded recursion becomes an observation, not a crashed harness
            return Err("runaway".into());
        }
        let deps: Vec<usize> = GRAPH.with(|g| g.borrow()[*item - 1].clone());
        for dep in deps {
            let before = EVENTS.with(|e| e.borrow().len());
            let r = orderer.push(&dep);
            let after = EVENTS.with(|e| e.borrow().len());
            match r {
                Ok(()) => {
                    if after == before {
                        EVENTS.with(|e| e.borrow_mut().push(json!({"e":"Skip","n":dep})));
                    }
                }
                Err(m) => {
                    if after == before {
                        EVENTS.with(|e| e.borrow_mut().push(json!({"e":"Cycle","n":dep})));
                    }
                    return Err(m);
                }
            }
        }
        DEPTH.with(|d| *d.borrow_mut() -= 1);
        EVENTS.with(|e| e.borrow_mut().push(json!({"e":"Exit","n":*item})));
        Ok(())
    }
    fn fail() -> Result<(), String> {
        Err("cycle".into())
    }
}

fn graph_of(case: &Value) -> (Vec<Vec<usize>>, Vec<usize>) {
    let deps: Vec<Vec<usize>> = geta(case, "deps").iter().map(|d| ivec(d).into_iter().map(|x| x as usize).collect()).collect();
    let items: Vec<usize> = ivec(&case["items"]).into_iter().map(|x| x as usize).collect();
    (deps, items)
}

fn deporder_generic(case: &Value) -> Value {
    let (deps, items) = graph_of(case);
    GRAPH.with(|g| *g.borrow_mut() = deps);
    EVENTS.with(|e| e.borrow_mut().clear());
    DEPTH.with(|d| *d.borrow_mut() = 0);
    let r = IntOrder::order(&items);
    let events = EVENTS.with(|e| e.borrow().clone());
    let with_events = getb(case, "events");
    match r {
        Ok(order) => json!({"id": id(case), "outcome":"ok", "order": order, "events": if with_events {json!(events)} else {json!([])}}),
        Err(m) => json!({"id": id(case), "outcome": if m=="runaway" {"abort"} else {"err"}, "msg": m, "events": if with_events {json!(events)} else {json!([])}}),
    }
}

fn name(i: usize) -> String { format!("c{}", i) }
fn unname(s: &str) -> i64 { s[1..].parse().unwrap_or(-1) }

fn deporder_embedded(case: &Value) -> Value {
    let (deps, items) = graph_of(case);
    let which = gets(case, "which");
    let n = deps.len();
    // `form` varies HOW a dependency is expressed and what a leaf looks like (the orderers must not care):
    //   gds:    0 struct references, 1 array references, 2 both kinds mixed, each target also referenced twice
    //   raw / tetris: 0 layouts everywhere, 1 cells without dependencies have only an abstract view (no layout),
    //                 2 every dependency instantiated twice, leaves carry both views
    //   tetris only:  3 cells without dependencies are wrappers of a raw layout (no tetris layout, no abstract)
    //                 4 as 0, but the same Library object was ordered once BEFORE its instances were added
    //   raw only:     3 likewise (ordered and exported once before the instances were added)
    let form = case.get("form").and_then(|f| f.as_i64()).unwrap_or(0);
    match which {
        "raw" => {
            use layout21raw as raw;
            let cells: Vec<Ptr<raw::Cell>> = (1..=n).map(|i| Ptr::new(raw::Cell::new(name(i)))).collect();
            for i in 1..=n {
                let mut layout = raw::Layout::default();
                layout.name = name(i);
                for (k, d) in deps[i - 1].iter().enumerate() {
                    for rep in 0..(if form == 2 { 2 } else { 1 }) {
                        layout.insts.push(raw::Instance {
                            inst_name: format!("i{}_{}", k, rep), cell: cells[*d - 1].clone(),
                            loc: raw::Point::new(0, 0), reflect_vert: false, angle: None,
                        });
                    }
                }
                let leaf = deps[i - 1].is_empty();
                let outline = raw::Polygon { points: vec![raw::Point::new(0, 0), raw::Point::new(5, 0), raw::Point::new(5, 5), raw::Point::new(0, 5)] };
                let mut c = cells[i - 1].write().unwrap();
                if leaf && form >= 1 { c.abs = Some(raw::Abstract::new(name(i), outline)); }
                if !(leaf && form == 1) { c.layout = Some(layout); }
            }
            let mut lib = raw::Library::new("lib", raw::Units::Nano);
            for it in &items { lib.cells.push(cells[*it - 1].clone()); }
            if form == 3 {
                let full: Vec<Option<raw::Layout>> = cells.iter().map(|c| c.write().unwrap().layout.take()).collect();
                for i in 1..=n { let mut l = raw::Layout::default(); l.name = name(i); cells[i - 1].write().unwrap().layout = Some(l); }
                let _ = raw::DepOrder::order(&lib); let _ = lib.to_proto();
                for (c, l) in cells.iter().zip(full.into_iter()) { c.write().unwrap().layout = l; }
            }
            match raw::DepOrder::order(&lib) {
                Ok(order) => {
                    let names: Vec<i64> = order.iter().map(|p| unname(&p.read().unwrap().name)).collect();
                    json!({"id": id(case), "outcome":"ok", "order": names})
                }
                Err(e) => json!({"id": id(case), "outcome":"err", "msg": err_str(e)}),
            }
        }
        "rawproto" => {
            use layout21raw as raw;
            let cells: Vec<Ptr<raw::Cell>> = (1..=n).map(|i| Ptr::new(raw::Cell::new(name(i)))).collect();
            for i in 1..=n {
                let mut layout = raw::Layout::default();
                layout.name = name(i);
                for (k, d) in deps[i - 1].iter().enumerate() {
                    for rep in 0..(if form == 2 { 2 } else { 1 }) {
                        layout.insts.push(raw::Instance {
                            inst_name: format!("i{}_{}", k, rep), cell: cells[*d - 1].clone(),
                            loc: raw::Point::new(0, 0), reflect_vert: false, angle: None,
                        });
                    }
                }
                let leaf = deps[i - 1].is_empty();
                let outline = raw::Polygon { points: vec![raw::Point::new(0, 0), raw::Point::new(5, 0), raw::Point::new(5, 5), raw::Point::new(0, 5)] };
                let mut c = cells[i - 1].write().unwrap();
                if leaf && form >= 1 { c.abs = Some(raw::Abstract::new(name(i), outline)); }
                if !(leaf && form == 1) { c.layout = Some(layout); }
            }
            let mut lib = raw::Library::new("lib", raw::Units::Nano);
            for it in &items { lib.cells.push(cells[*it - 1].clone()); }
            if form == 3 {
                let full: Vec<Option<raw::Layout>> = cells.iter().map(|c| c.write().unwrap().layout.take()).collect();
                for i in 1..=n { let mut l = raw::Layout::default(); l.name = name(i); cells[i - 1].write().unwrap().layout = Some(l); }
                let _ = raw::DepOrder::order(&lib); let _ = lib.to_proto();
                for (c, l) in cells.iter().zip(full.into_iter()) { c.write().unwrap().layout = l; }
            }
            match lib.to_proto() {
                Ok(p) => {
                    let names: Vec<i64> = p.cells.iter().map(|c| unname(&c.name)).collect();
                    // and the import must resolve every reference
                    let back = raw::Library::from_proto(p, None);
                    json!({"id": id(case), "outcome":"ok", "order": names, "reimport_ok": back.is_ok(),
                           "reimport_err": back.err().map(err_str)})
                }
                Err(e) => json!({"id": id(case), "outcome":"err", "msg": err_str(e)}),
            }
        }
        "gds" => {
            use gds21::*;
            let mut lib = GdsLibrary::new("lib");
            for it in &items {
                let mut s = GdsStruct::new(name(*it));
                for (k, d) in deps[*it - 1].iter().enumerate() {
                    let sref = GdsElement::GdsStructRef(GdsStructRef { name: name(*d), xy: GdsPoint::new(0, 0), ..Default::default() });
                    let aref = GdsElement::GdsArrayRef(GdsArrayRef { name: name(*d), xy: [GdsPoint::new(0, 0), GdsPoint::new(20, 0), GdsPoint::new(0, 10)],
                        cols: 2, rows: 1, ..Default::default() });
                    match form {
                        0 => s.elems.push(sref),
                        1 => s.elems.push(aref),
                        _ => { if k % 2 == 0 { s.elems.push(aref); s.elems.push(sref); } else { s.elems.push(sref.clone()); s.elems.push(sref); } }
                    }
                }
                lib.structs.push(s);
            }
            match layout21raw::Library::from_gds(&lib, None) {
                Ok(r) => {
                    let names: Vec<i64> = r.cells.iter().map(|p| unname(&p.read().unwrap().name)).collect();
                    json!({"id": id(case), "outcome":"ok", "order": names})
                }
                Err(e) => json!({"id": id(case), "outcome":"err", "msg": err_str(e)}),
            }
        }
        "tetris" | "tproto" => {
            use layout21tetris as t;
            let cells: Vec<Ptr<t::cell::Cell>> = (1..=n).map(|i| Ptr::new(t::cell::Cell::new(name(i)))).collect();
            for i in 1..=n {
                let mut layout = t::layout::Layout::new(name(i), 0, t::outline::Outline::rect(10, 10).unwrap());
                for (k, d) in deps[i - 1].iter().enumerate() {
                    for rep in 0..(if form == 2 { 2 } else { 1 }) {
                        layout.instances.add(t::instance::Instance {
                            inst_name: format!("i{}_{}", k, rep), cell: cells[*d - 1].clone(),
                            loc: (k as isize, rep as isize).into(), reflect_horiz: false, reflect_vert: false,
                        });
                    }
                }
                let leaf = deps[i - 1].is_empty();
                let mut c = cells[i - 1].write().unwrap();
                if leaf && (form == 1 || form == 2) { c.abs = Some(t::abs::Abstract::new(name(i), 0, t::outline::Outline::rect(10, 10).unwrap())); }
                if leaf && form == 3 {
                    // a leaf defined by a raw layout only (RawLayoutPtr): still a node of the graph
                    let rawcell = Ptr::new(layout21raw::Cell::new(name(i)));
                    let mut rl = layout21raw::Library::new("rawlib", layout21raw::Units::Nano);
                    rl.cells.push(rawcell.clone());
                    c.raw = Some(t::cell::RawLayoutPtr { outline: t::outline::Outline::rect(10, 10).unwrap(), metals: 0, lib: Ptr::new(rl), cell: rawcell });
                }
                if !(leaf && (form == 1 || form == 3)) { c.layout = Some(layout); }
            }
            let mut lib = t::library::Library::new("lib");
            for it in &items { lib.cells.push(cells[*it - 1].clone()); }
            if form == 4 {
                // the library HAS A HISTORY: it was ordered (and exported) once while no cell instantiated any other, and the
                // instances were added afterwards; the second answer is about the library as it is at the second call
                let full: Vec<Option<t::layout::Layout>> = cells.iter().map(|c| c.write().unwrap().layout.take()).collect();
                for i in 1..=n { cells[i - 1].write().unwrap().layout = Some(t::layout::Layout::new(name(i), 0, t::outline::Outline::rect(10, 10).unwrap())); }
                let _ = lib.dep_order();
                let _ = t::conv::proto::ProtoExporter::export(&lib);
                for (c, l) in cells.iter().zip(full.into_iter()) { c.write().unwrap().layout = l; }
            }
            if which == "tetris" {
                match lib.dep_order() {
                    Ok(order) => {
                        let names: Vec<i64> = order.iter().map(|p| unname(&p.read().unwrap().name)).collect();
                        json!({"id": id(case), "outcome":"ok", "order": names})
                    }
                    Err(e) => json!({"id": id(case), "outcome":"err", "msg": err_str(e)}),
                }
            } else {
                match t::conv::proto::ProtoExporter::export(&lib) {
                    Ok(p) => {
                        let names: Vec<i64> = p.cells.iter().map(|c| unname(&c.name)).collect();
                        let back = t::conv::proto::ProtoLibImporter::import(&p);
                        json!({"id": id(case), "outcome":"ok", "order": names, "reimport_ok": back.is_ok(),
                               "reimport_err": back.err().map(err_str)})
                    }
                    Err(e) => json!({"id": id(case), "outcome":"err", "msg": err_str(e)}),
                }
            }
        }
        _ => panic!("harness: unknown orderer {which}"),
    }
}
