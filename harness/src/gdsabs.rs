//! Abstract-JSON <-> gds21 values.  Written field by field by hand; deliberately does not go through the
//! crate's serde derives (C18 tests those).  Shapes follow specs/gds/GdsGrammar.tla:
//!   optional field = array of length 0 or 1; string = array of byte values; double = 16 hex digits.
use crate::c15::{digits, undigits};
use crate::util::*;
use gds21::*;
use serde_json::{json, Value};

pub fn bytes_of(v: &Value) -> Vec<u8> {
    v.as_array().map(|a| a.iter().map(|x| x.as_u64().unwrap() as u8).collect()).unwrap_or_default()
}
pub fn string_of(v: &Value) -> String {
    // Strings are built from raw bytes; invalid UTF-8 cannot be held by a Rust String and is outside the domain.
    String::from_utf8(bytes_of(v)).expect("harness: string class must be valid UTF-8")
}
fn str_json(s: &str) -> Value { json!(s.as_bytes()) }
fn f64_of(v: &Value) -> f64 { f64::from_bits(undigits(v)) }
fn f64_json(x: f64) -> Value { json!(digits(x.to_bits())) }
fn opt<'a>(v: &'a Value, k: &str) -> Option<&'a Value> {
    v.get(k).and_then(|a| a.as_array()).and_then(|a| a.first())
}
fn pt_of(v: &Value) -> GdsPoint { GdsPoint::new(v[0].as_i64().unwrap() as i32, v[1].as_i64().unwrap() as i32) }
fn pts_of(v: &Value) -> Vec<GdsPoint> { v.as_array().map(|a| a.iter().map(pt_of).collect()).unwrap_or_default() }
fn pt_json(p: &GdsPoint) -> Value { json!([p.x, p.y]) }
fn pts_json(p: &[GdsPoint]) -> Value { Value::Array(p.iter().map(pt_json).collect()) }

fn dates_of(v: &Value) -> GdsDateTimes {
    let d = ivec(v);
    let g = |i: usize| d.get(i).copied().unwrap_or(0) as i16;
    GdsDateTimes {
        modified: GdsDateTime { year: g(0), month: g(1), day: g(2), hour: g(3), minute: g(4), second: g(5) },
        accessed: GdsDateTime { year: g(6), month: g(7), day: g(8), hour: g(9), minute: g(10), second: g(11) },
    }
}
fn dates_json(d: &GdsDateTimes) -> Value {
    let f = |t: &GdsDateTime| vec![t.year, t.month, t.day, t.hour, t.minute, t.second];
    let mut v = f(&d.modified);
    v.extend(f(&d.accessed));
    json!(v)
}
fn strans_of(v: &Value) -> Option<GdsStrans> {
    opt(v, "strans").map(|s| GdsStrans {
        reflected: getb(s, "refl"), abs_mag: getb(s, "absmag"), abs_angle: getb(s, "absangle"),
        mag: opt(s, "mag").map(f64_of), angle: opt(s, "angle").map(f64_of),
    })
}
fn strans_json(s: &Option<GdsStrans>) -> Value {
    match s {
        None => json!([]),
        Some(s) => json!([{"refl": s.reflected, "absmag": s.abs_mag, "absangle": s.abs_angle,
                           "mag": s.mag.map(|m| vec![f64_json(m)]).unwrap_or_default(),
                           "angle": s.angle.map(|m| vec![f64_json(m)]).unwrap_or_default()}]),
    }
}
fn flags_of(v: &Value) -> Option<GdsElemFlags> { opt(v, "elflags").map(|b| GdsElemFlags(b[0].as_u64().unwrap() as u8, b[1].as_u64().unwrap() as u8)) }
fn plex_of(v: &Value) -> Option<GdsPlex> { opt(v, "plex").map(|b| GdsPlex(b.as_i64().unwrap() as i32)) }
fn oi16(v: &Value, k: &str) -> Option<i16> { opt(v, k).map(|b| b.as_i64().unwrap() as i16) }
fn oi32(v: &Value, k: &str) -> Option<i32> { opt(v, k).map(|b| b.as_i64().unwrap() as i32) }
fn props_of(v: &Value) -> Vec<GdsProperty> {
    geta(v, "props").iter().map(|p| GdsProperty { attr: geti(p, "attr") as i16, value: string_of(&p["value"]) }).collect()
}
fn props_json(p: &[GdsProperty]) -> Value {
    Value::Array(p.iter().map(|q| json!({"attr": q.attr, "value": str_json(&q.value)})).collect())
}
fn flags_json(f: &Option<GdsElemFlags>) -> Value { f.as_ref().map(|f| json!([[f.0, f.1]])).unwrap_or(json!([])) }
fn plex_json(f: &Option<GdsPlex>) -> Value { f.as_ref().map(|f| json!([f.0])).unwrap_or(json!([])) }
fn o_json<T: serde::Serialize>(f: &Option<T>) -> Value { f.as_ref().map(|f| json!([f])).unwrap_or(json!([])) }

pub fn elem_of(e: &Value) -> GdsElement {
    let i16f = |k: &str| geti(e, k) as i16;
    match gets(e, "kind") {
        "boundary" => GdsBoundary { layer: i16f("layer"), datatype: i16f("datatype"), xy: pts_of(&e["xy"]),
            elflags: flags_of(e), plex: plex_of(e), properties: props_of(e) }.into(),
        "path" => GdsPath { layer: i16f("layer"), datatype: i16f("datatype"), xy: pts_of(&e["xy"]),
            width: oi32(e, "width"), path_type: oi16(e, "pathtype"), begin_extn: oi32(e, "bgnextn"), end_extn: oi32(e, "endextn"),
            elflags: flags_of(e), plex: plex_of(e), properties: props_of(e) }.into(),
        "sref" => GdsStructRef { name: string_of(&e["name"]), xy: pt_of(&e["xy"][0]), strans: strans_of(e),
            elflags: flags_of(e), plex: plex_of(e), properties: props_of(e) }.into(),
        "aref" => { let p = pts_of(&e["xy"]);
            GdsArrayRef { name: string_of(&e["name"]), xy: [p[0].clone(), p[1].clone(), p[2].clone()], cols: i16f("cols"), rows: i16f("rows"),
            strans: strans_of(e), elflags: flags_of(e), plex: plex_of(e), properties: props_of(e) }.into() }
        "text" => GdsTextElem { string: string_of(&e["string"]), layer: i16f("layer"), texttype: i16f("texttype"), xy: pt_of(&e["xy"][0]),
            presentation: opt(e, "presentation").map(|b| GdsPresentation(b[0].as_u64().unwrap() as u8, b[1].as_u64().unwrap() as u8)),
            path_type: oi16(e, "pathtype"), width: oi32(e, "width"), strans: strans_of(e),
            elflags: flags_of(e), plex: plex_of(e), properties: props_of(e) }.into(),
        "node" => GdsNode { layer: i16f("layer"), nodetype: i16f("nodetype"), xy: pts_of(&e["xy"]),
            elflags: flags_of(e), plex: plex_of(e), properties: props_of(e) }.into(),
        "box" => { let p = pts_of(&e["xy"]);
            GdsBox { layer: i16f("layer"), boxtype: i16f("boxtype"), xy: [p[0].clone(), p[1].clone(), p[2].clone(), p[3].clone(), p[4].clone()],
            elflags: flags_of(e), plex: plex_of(e), properties: props_of(e) }.into() }
        k => panic!("harness: bad element kind {k}"),
    }
}
pub fn elem_json(e: &GdsElement) -> Value {
    match e {
        GdsElement::GdsBoundary(b) => json!({"kind":"boundary","elflags":flags_json(&b.elflags),"plex":plex_json(&b.plex),"layer":b.layer,
            "datatype":b.datatype,"xy":pts_json(&b.xy),"props":props_json(&b.properties)}),
        GdsElement::GdsPath(b) => json!({"kind":"path","elflags":flags_json(&b.elflags),"plex":plex_json(&b.plex),"layer":b.layer,
            "datatype":b.datatype,"pathtype":o_json(&b.path_type),"width":o_json(&b.width),"bgnextn":o_json(&b.begin_extn),
            "endextn":o_json(&b.end_extn),"xy":pts_json(&b.xy),"props":props_json(&b.properties)}),
        GdsElement::GdsStructRef(b) => json!({"kind":"sref","elflags":flags_json(&b.elflags),"plex":plex_json(&b.plex),
            "name":str_json(&b.name),"strans":strans_json(&b.strans),"xy":[pt_json(&b.xy)],"props":props_json(&b.properties)}),
        GdsElement::GdsArrayRef(b) => json!({"kind":"aref","elflags":flags_json(&b.elflags),"plex":plex_json(&b.plex),
            "name":str_json(&b.name),"strans":strans_json(&b.strans),"cols":b.cols,"rows":b.rows,"xy":pts_json(&b.xy),
            "props":props_json(&b.properties)}),
        GdsElement::GdsTextElem(b) => json!({"kind":"text","elflags":flags_json(&b.elflags),"plex":plex_json(&b.plex),"layer":b.layer,
            "texttype":b.texttype,"presentation":b.presentation.as_ref().map(|p| json!([[p.0,p.1]])).unwrap_or(json!([])),
            "pathtype":o_json(&b.path_type),"width":o_json(&b.width),"strans":strans_json(&b.strans),"xy":[pt_json(&b.xy)],
            "string":str_json(&b.string),"props":props_json(&b.properties)}),
        GdsElement::GdsNode(b) => json!({"kind":"node","elflags":flags_json(&b.elflags),"plex":plex_json(&b.plex),"layer":b.layer,
            "nodetype":b.nodetype,"xy":pts_json(&b.xy),"props":props_json(&b.properties)}),
        GdsElement::GdsBox(b) => json!({"kind":"box","elflags":flags_json(&b.elflags),"plex":plex_json(&b.plex),"layer":b.layer,
            "boxtype":b.boxtype,"xy":pts_json(&b.xy),"props":props_json(&b.properties)}),
    }
}

pub fn lib_of(v: &Value) -> GdsLibrary {
    let mut lib = GdsLibrary::new(string_of(&v["name"]));
    lib.version = geti(v, "version") as i16;
    lib.dates = dates_of(&v["dates"]);
    lib.units = GdsUnits(f64_of(&v["units"][0]), f64_of(&v["units"][1]));
    for s in geta(v, "structs") {
        let mut st = GdsStruct::new(string_of(&s["name"]));
        st.dates = dates_of(&s["dates"]);
        st.elems = geta(s, "elems").iter().map(elem_of).collect();
        lib.structs.push(st);
    }
    lib
}
pub fn lib_json(lib: &GdsLibrary) -> Value {
    json!({"name": str_json(&lib.name), "version": lib.version, "dates": dates_json(&lib.dates),
           "units": [f64_json(lib.units.0), f64_json(lib.units.1)], "unsupported": [],
           "structs": lib.structs.iter().map(|s| json!({"name": str_json(&s.name), "dates": dates_json(&s.dates),
                "elems": s.elems.iter().map(elem_json).collect::<Vec<_>>()})).collect::<Vec<_>>()})
}
