// abstract-JSON constructors and projections
