//! GDS stream commands (C01, C02, C03, C10).
use crate::gdsabs::*;
use crate::util::*;
use crate::CmdFn;
use gds21::*;
use serde_json::{json, Value};

pub fn commands() -> Vec<(&'static str, CmdFn)> {
    vec![("gds_s2i", gds_s2i), ("gds_record", gds_record), ("gds_fault", gds_fault), ("gds_readlog", gds_readlog)]
}

pub fn write_bytes(lib: &GdsLibrary) -> Result<Vec<u8>, String> {
    let mut buf: Vec<u8> = Vec::new();
    lib.write(&mut buf).map_err(err_str)?;
    Ok(buf)
}

fn strip_unsupported(v: &Value) -> Value {
    let mut v = v.clone();
    if let Some(o) = v.as_object_mut() { o.insert("unsupported".into(), json!([])); }
    v
}

/// S->I for C01 (write + re-read of the constructed library), the byte-level comparison with the independent
/// encoder, and C03 (reading the independent encoder's bytes).
fn gds_s2i(case: &Value) -> Value {
    let want = strip_unsupported(&case["lib"]);
    let spec_bytes = bytes_of(&case["bytes"]);
    let unsupported = !geta(&case["lib"], "unsupported").is_empty();
    let mut out = json!({"id": id(case), "outcome": "ok"});
    // ---- C01: construct, write, read back
    if !unsupported {
        let lib = lib_of(&case["lib"]);
        // constructor/projection self-test (machinery)
        let selfproj = lib_json(&lib);
        if let Some(d) = json_diff(&want, &selfproj, "") { out["glue_error"] = json!(format!("{:?}", d)); }
        let st = lib.stats();
        out["stats"] = json!({"libraries": st.libraries, "structs": st.structs, "boundaries": st.boundaries, "paths": st.paths, "struct_refs": st.struct_refs,
                              "array_refs": st.array_refs, "text_elems": st.text_elems, "nodes": st.nodes, "boxes": st.boxes});
        match guarded(|| write_bytes(&lib)) {
            Err(p) => out["write"] = json!({"outcome":"panic","msg":p}),
            Ok(Err(e)) => out["write"] = json!({"outcome":"err","msg":e}),
            Ok(Ok(w)) => {
                let first_diff = (0..w.len().max(spec_bytes.len())).find(|i| w.get(*i) != spec_bytes.get(*i));
                out["write"] = json!({"outcome":"ok","len":w.len(),"bytes_equal": first_diff.is_none(), "first_diff": first_diff,
                                      "got": first_diff.map(|i| w.get(i).copied()), "want": first_diff.map(|i| spec_bytes.get(i).copied())});
                match guarded(|| GdsLibrary::from_bytes(&w)) {
                    Err(p) => out["reread"] = json!({"outcome":"panic","msg":p}),
                    Ok(Err(e)) => out["reread"] = json!({"outcome":"err","msg":err_str(e)}),
                    Ok(Ok(l2)) => {
                        let d = json_diff(&want, &lib_json(&l2), "");
                        out["reread"] = json!({"outcome":"ok","eq": l2 == lib, "proj_eq": d.is_none(), "diff": d.map(|d| json!([d.0, d.1, d.2]))});
                    }
                }
            }
        }
    }
    // ---- C03: read the independent encoder's stream (+ padding after ENDLIB)
    let mut stream = spec_bytes.clone();
    stream.extend(std::iter::repeat(0u8).take(geti(case, "pad") as usize));
    match guarded(|| GdsLibrary::from_bytes(&stream)) {
        Err(p) => out["read"] = json!({"outcome":"panic","msg":p}),
        Ok(Err(e)) => out["read"] = json!({"outcome":"err","msg":err_str(e)}),
        Ok(Ok(l)) => {
            let d = json_diff(&want, &lib_json(&l), "");
            out["read"] = json!({"outcome":"ok","proj_eq": d.is_none(), "diff": d.map(|d| json!([d.0, d.1, d.2]))});
        }
    }
    out["unsupported"] = json!(unsupported);
    out
}

/// Frame a byte stream into records using only the four-byte header arithmetic.
pub fn frame(bytes: &[u8]) -> (Vec<Value>, usize) {
    let mut recs = Vec::new();
    let mut p = 0usize;
    while p + 4 <= bytes.len() {
        let len = ((bytes[p] as usize) << 8) | bytes[p + 1] as usize;
        if len < 4 {
            // cannot advance: report the record and stop
            recs.push(json!({"e":"rec","len": len, "rt": bytes[p + 2], "dt": bytes[p + 3], "bytes": []}));
            break;
        }
        let end = (p + len).min(bytes.len());
        recs.push(json!({"e":"rec","len": len, "rt": bytes[p + 2], "dt": bytes[p + 3], "bytes": &bytes[p + 4..end]}));
        p = end;
    }
    (recs, p)
}

fn rand_string(rng: &mut Rng) -> String {
    let n = rng.below(9) as usize;
    let mut s = String::new();
    for _ in 0..n {
        s.push(match rng.below(12) { 0 => 'é', 1 => '中', _ => (b'a' + rng.below(26) as u8) as char });
    }
    s
}
fn rand_f64(rng: &mut Rng) -> f64 {
    // in-range doubles incl. values next to powers of sixteen
    match rng.below(5) {
        0 => [1.0, 90.0, 0.001, 1e-9, 180.0, 270.0, 0.5][rng.below(7) as usize],
        1 => { let k = rng.range(-60, 60) as i32; let x = 16f64.powi(k); f64::from_bits(x.to_bits() - rng.below(3)) }
        _ => { let e = (rng.range(-250, 250) + 1023) as u64; f64::from_bits((rng.below(2) << 63) | (e << 52) | (rng.next() & ((1u64 << 52) - 1))) }
    }
}
fn rand_pt(rng: &mut Rng) -> GdsPoint {
    if rng.chance(1, 10) { GdsPoint::new(i32::MIN, i32::MAX) } else { GdsPoint::new(rng.range(-100000, 100000) as i32, rng.range(-100000, 100000) as i32) }
}
fn rand_strans(rng: &mut Rng) -> Option<GdsStrans> {
    if rng.chance(1, 3) { return None; }
    Some(GdsStrans { reflected: rng.chance(1, 2), abs_mag: rng.chance(1, 4), abs_angle: rng.chance(1, 4),
        mag: if rng.chance(1, 2) { Some(rand_f64(rng)) } else { None }, angle: if rng.chance(1, 2) { Some(rand_f64(rng)) } else { None } })
}
fn rand_props(rng: &mut Rng) -> Vec<GdsProperty> {
    (0..rng.below(3)).map(|_| GdsProperty { attr: rng.range(-32768, 32767) as i16, value: rand_string(rng) }).collect()
}
pub fn rand_lib(rng: &mut Rng, nstructs: usize, nelems: usize) -> GdsLibrary {
    let mut lib = GdsLibrary::new(rand_string(rng));
    lib.version = rng.range(-5, 700) as i16;
    lib.units = GdsUnits(rand_f64(rng), rand_f64(rng));
    let d = |rng: &mut Rng| GdsDateTime { year: rng.range(-1, 200) as i16, month: rng.range(0, 13) as i16, day: rng.range(0, 32) as i16,
        hour: rng.range(0, 25) as i16, minute: rng.range(0, 61) as i16, second: rng.range(0, 61) as i16 };
    lib.dates = GdsDateTimes { modified: d(rng), accessed: d(rng) };
    for _ in 0..nstructs {
        let mut s = GdsStruct::new(rand_string(rng));
        s.dates = GdsDateTimes { modified: d(rng), accessed: d(rng) };
        for _ in 0..rng.below(nelems as u64 + 1) {
            let fl = if rng.chance(1, 4) { Some(GdsElemFlags(rng.below(256) as u8, rng.below(256) as u8)) } else { None };
            let px = if rng.chance(1, 4) { Some(GdsPlex(rng.next() as i32)) } else { None };
            let npts = rng.below(12) as usize;
            let oi16 = |rng: &mut Rng| if rng.chance(1, 2) { Some(rng.range(-32768, 32767) as i16) } else { None };
            let oi32 = |rng: &mut Rng| if rng.chance(1, 2) { Some(rng.next() as i32) } else { None };
            let e: GdsElement = match rng.below(7) {
                0 => GdsBoundary { layer: rng.range(-3, 300) as i16, datatype: rng.range(-3, 300) as i16, xy: (0..npts).map(|_| rand_pt(rng)).collect(),
                                   elflags: fl, plex: px, properties: rand_props(rng) }.into(),
                1 => GdsPath { layer: rng.range(0, 300) as i16, datatype: rng.range(0, 300) as i16, xy: (0..npts).map(|_| rand_pt(rng)).collect(),
                               width: oi32(rng), path_type: oi16(rng), begin_extn: oi32(rng), end_extn: oi32(rng),
                               elflags: fl, plex: px, properties: rand_props(rng) }.into(),
                2 => GdsStructRef { name: rand_string(rng), xy: rand_pt(rng), strans: rand_strans(rng), elflags: fl, plex: px, properties: rand_props(rng) }.into(),
                3 => GdsArrayRef { name: rand_string(rng), xy: [rand_pt(rng), rand_pt(rng), rand_pt(rng)], cols: rng.range(-2, 400) as i16,
                                   rows: rng.range(-2, 400) as i16, strans: rand_strans(rng), elflags: fl, plex: px, properties: rand_props(rng) }.into(),
                4 => GdsTextElem { string: rand_string(rng), layer: rng.range(0, 300) as i16, texttype: rng.range(0, 300) as i16, xy: rand_pt(rng),
                                   presentation: if rng.chance(1, 2) { Some(GdsPresentation(rng.below(256) as u8, rng.below(256) as u8)) } else { None },
                                   path_type: oi16(rng), width: oi32(rng), strans: rand_strans(rng), elflags: fl, plex: px, properties: rand_props(rng) }.into(),
                5 => GdsNode { layer: rng.range(0, 300) as i16, nodetype: rng.range(0, 300) as i16, xy: (0..npts).map(|_| rand_pt(rng)).collect(),
                               elflags: fl, plex: px, properties: rand_props(rng) }.into(),
                _ => GdsBox { layer: rng.range(0, 300) as i16, boxtype: rng.range(0, 300) as i16,
                              xy: [rand_pt(rng), rand_pt(rng), rand_pt(rng), rand_pt(rng), rand_pt(rng)], elflags: fl, plex: px, properties: rand_props(rng) }.into(),
            };
            s.elems.push(e);
        }
        lib.structs.push(s);
    }
    lib
}

/// I->S for C02 (and the I->S part of C01): write a library, frame the bytes into records.
///   {lib: <abstract>} or {seed, structs, elems}
fn gds_record(case: &Value) -> Value {
    let lib = if case.get("lib").is_some() { lib_of(&case["lib"]) } else {
        let mut rng = Rng::new(geti(case, "seed") as u64);
        rand_lib(&mut rng, geti(case, "structs") as usize, geti(case, "elems") as usize)
    };
    let proj = lib_json(&lib);
    // "file": {"path", "pre"}: the bytes are produced through GdsLibrary::save into a file that did not exist (pre < 0) or
    // already held `pre` bytes of something else; what is judged is the content of the file afterwards
    let via_file = case.get("file").cloned();
    let produce = || -> Result<Vec<u8>, String> {
        match &via_file {
            None => write_bytes(&lib),
            Some(f) => {
                let path = gets(f, "path").to_string();
                let pre = geti(f, "pre");
                let _ = std::fs::remove_file(&path);
                if pre >= 0 { std::fs::write(&path, vec![0x5Au8; pre as usize]).map_err(err_str)?; }
                lib.save(&path).map_err(err_str)?;
                let b = std::fs::read(&path).map_err(err_str)?;
                let _ = std::fs::remove_file(&path);
                Ok(b)
            }
        }
    };
    match guarded(produce) {
        Err(p) => json!({"id": id(case), "outcome":"panic", "msg": p, "lib": proj}),
        Ok(Err(e)) => json!({"id": id(case), "outcome":"werr", "msg": e, "lib": proj}),
        Ok(Ok(w)) => {
            let (recs, consumed) = frame(&w);
            // the I->S part of C01: read back
            let rr = match guarded(|| GdsLibrary::from_bytes(&w)) {
                Err(p) => json!({"outcome":"panic","msg":p}),
                Ok(Err(e)) => json!({"outcome":"err","msg":err_str(e)}),
                Ok(Ok(l2)) => { let d = json_diff(&proj, &lib_json(&l2), "");
                    json!({"outcome":"ok","eq": l2 == lib, "proj_eq": d.is_none(), "diff": d.map(|d| json!([d.0, d.1, d.2]))}) }
            };
            let file_eq_mem = if via_file.is_some() { write_bytes(&lib).ok().map(|m| m == w) } else { None };
            json!({"id": id(case), "outcome":"ok", "lib": proj, "records": recs, "total": w.len(), "consumed": consumed, "reread": rr, "file_eq_mem": file_eq_mem})
        }
    }
}

/// A `Read + Seek` source that logs every call the reader makes (the reader's step-by-step trace).
pub struct LoggingSource {
    data: Vec<u8>,
    pos: u64,
    pub log: std::rc::Rc<std::cell::RefCell<Vec<Value>>>,
}
impl std::io::Read for LoggingSource {
    fn read(&mut self, buf: &mut [u8]) -> std::io::Result<usize> {
        let at = self.pos as usize;
        let avail = self.data.len().saturating_sub(at);
        let n = buf.len().min(avail);
        buf[..n].copy_from_slice(&self.data[at.min(self.data.len())..at.min(self.data.len()) + n]);
        self.pos += n as u64;
        let mut l = self.log.borrow_mut();
        if l.len() < 2_000_000 { l.push(json!({"e":"read","at":at,"n":buf.len(),"got":n})); }
        Ok(n)
    }
}
impl std::io::Seek for LoggingSource {
    fn seek(&mut self, to: std::io::SeekFrom) -> std::io::Result<u64> {
        let new = match to {
            std::io::SeekFrom::Start(p) => p as i64,
            std::io::SeekFrom::Current(d) => self.pos as i64 + d,
            std::io::SeekFrom::End(d) => self.data.len() as i64 + d,
        };
        if new < 0 { return Err(std::io::Error::new(std::io::ErrorKind::InvalidInput, "negative seek")); }
        if new as u64 != self.pos {
            self.log.borrow_mut().push(json!({"e":"seek","from":self.pos,"to":new}));
        }
        self.pos = new as u64;
        Ok(self.pos)
    }
}

/// Parse `bytes` through the instrumented source.  Returns (outcome, log).
pub fn read_logged(bytes: Vec<u8>) -> (Value, Vec<Value>) {
    use gds21::verif::{GdsParser, GdsReader};
    let log = std::rc::Rc::new(std::cell::RefCell::new(Vec::new()));
    let src = LoggingSource { data: bytes, pos: 0, log: log.clone() };
    let r = guarded(move || {
        let rdr = GdsReader::new(src);
        match GdsParser::new(rdr) {
            Err(e) => Err(err_str(e)),
            Ok(mut p) => p.parse_lib().map_err(err_str),
        }
    });
    let l = log.borrow().clone();
    let out = match r {
        Err(p) => json!({"outcome":"panic","msg":p}),
        Ok(Err(e)) => json!({"outcome":"err","msg":e}),
        Ok(Ok(lib)) => json!({"outcome":"ok","lib":lib_json(&lib)}),
    };
    (out, l)
}

fn gds_readlog(case: &Value) -> Value {
    let mut stream = bytes_of(&case["bytes"]);
    stream.extend(std::iter::repeat(0u8).take(case.get("pad").and_then(|p| p.as_u64()).unwrap_or(0) as usize));
    let (mut out, log) = read_logged(stream);
    out["id"] = id(case);
    out["log"] = json!(log);
    if let Some(o) = out.as_object_mut() { o.remove("lib"); }
    out
}

/// C10: read a (faulted / arbitrary) byte string through the instrumented source.
///   {bytes, pad?, want_log?}  or  {noise_seed, len}
fn gds_fault(case: &Value) -> Value {
    let mut stream = if case.get("noise_seed").is_some() {
        let mut rng = Rng::new(geti(case, "noise_seed") as u64);
        let n = geti(case, "len") as usize;
        // noise that looks a little like GDS: plausible length fields and record numbers now and then
        let mut v = Vec::with_capacity(n);
        while v.len() < n {
            if rng.chance(1, 2) { v.push(0); v.push([4u8, 6, 8, 12, 28, 5, 3, 0][rng.below(8) as usize]); v.push(rng.below(62) as u8); v.push(rng.below(8) as u8); }
            else { v.push(rng.below(256) as u8); }
        }
        v.truncate(n);
        v
    } else { bytes_of(&case["bytes"]) };
    stream.extend(std::iter::repeat(0u8).take(case.get("pad").and_then(|p| p.as_u64()).unwrap_or(0) as usize));
    let size = stream.len();
    let keep = stream.clone();
    let (res, log) = read_logged(stream);
    let mut calls = 0u64; let mut delivered = 0u64; let mut monotone = true; let mut last = 0u64; let mut empty_req = false;
    let mut seeks = 0u64;
    for e in &log {
        if e["e"] == "read" {
            calls += 1; delivered += e["got"].as_u64().unwrap();
            let at = e["at"].as_u64().unwrap();
            if at < last { monotone = false; }
            last = at;
            if e["n"].as_u64().unwrap() == 0 { empty_req = true; }
        } else { seeks += 1; }
    }
    let mut out = json!({"id": id(case), "outcome": res["outcome"], "msg": res.get("msg").cloned().unwrap_or(Value::Null),
                         "size": size, "calls": calls, "delivered": delivered, "monotone": monotone, "empty_req": empty_req, "seeks": seeks});
    if res["outcome"] == "ok" {
        // every library the reader returns can be written again and read back to the same value
        let lib_j = res["lib"].clone();
        let lib = guarded(|| GdsLibrary::from_bytes(&keep));
        let rt = match lib {
            Ok(Ok(lib)) => match guarded(|| write_bytes(&lib)) {
                Err(p) => json!({"stage":"write","outcome":"panic","msg":p}),
                Ok(Err(e)) => json!({"stage":"write","outcome":"err","msg":e}),
                Ok(Ok(w)) => match guarded(|| GdsLibrary::from_bytes(&w)) {
                    Err(p) => json!({"stage":"reread","outcome":"panic","msg":p}),
                    Ok(Err(e)) => json!({"stage":"reread","outcome":"err","msg":err_str(e)}),
                    Ok(Ok(l2)) => json!({"stage":"reread","outcome":"ok","eq": l2 == lib && json_diff(&lib_j, &lib_json(&l2), "").is_none()}),
                },
            },
            _ => json!({"stage":"second-read","outcome":"differs-from-first-read"}),
        };
        out["rt"] = rt;
    }
    if getb(case, "want_log") { out["log"] = json!(log); out["bytes"] = json!(keep); }
    out
}
