//! Child-process execution with panic / abort / timeout capture.
//!
//! Protocol: the parent feeds the child every case at once on stdin (one JSON per line, starting at
//! the first not-yet-answered case); the child answers each case with exactly one line on stdout and
//! flushes. If the child dies, the case after the last answer is recorded with outcome "abort" and a
//! fresh child is started at the following case. If the child stays silent for longer than the
//! watchdog allows it is killed and the case is recorded with outcome "timeout".

use serde_json::{json, Value};
use std::io::{BufRead, BufReader, Write};
use std::process::{Command, Stdio};
use std::sync::mpsc;
use std::time::Duration;

use crate::CmdFn;

pub fn child(f: CmdFn) {
    // Silence the default panic message; keep it for the result line.
    std::panic::set_hook(Box::new(|info| {
        let loc = info
            .location()
            .map(|l| format!("{}:{}", l.file(), l.line()))
            .unwrap_or_default();
        let msg = if let Some(s) = info.payload().downcast_ref::<&str>() {
            s.to_string()
        } else if let Some(s) = info.payload().downcast_ref::<String>() {
            s.clone()
        } else {
            "?".to_string()
        };
        LAST_PANIC.with(|p| *p.borrow_mut() = Some((msg, loc)));
    }));
    // Run on a thread with a fixed, generous but finite stack, so that unbounded recursion is
    // observed as an abort of this child (Rust's guard page turns it into SIGABRT).
    let t = std::thread::Builder::new()
        .stack_size(16 << 20)
        .spawn(move || {
            let stdin = std::io::stdin();
            let stdout = std::io::stdout();
            for line in stdin.lock().lines() {
                let line = line.unwrap();
                if line.trim().is_empty() {
                    continue;
                }
                let case: Value = match serde_json::from_str(&line) {
                    Ok(v) => v,
                    Err(e) => {
                        let mut o = stdout.lock();
                        writeln!(o, "\n{}{}", MARK, json!({"outcome":"badcase","msg":e.to_string()})).unwrap();
                        o.flush().unwrap();
                        continue;
                    }
                };
                let r = std::panic::catch_unwind(std::panic::AssertUnwindSafe(|| f(&case)));
                let out = match r {
                    Ok(v) => v,
                    Err(_) => {
                        let (msg, loc) = LAST_PANIC
                            .with(|p| p.borrow_mut().take())
                            .unwrap_or(("?".into(), "?".into()));
                        json!({"outcome":"panic","msg":msg,"loc":loc,"id":case.get("id").cloned().unwrap_or(Value::Null)})
                    }
                };
                let mut o = stdout.lock();
                // the code under test may print to stdout: result lines start on a fresh line with a marker
                writeln!(o, "\n{}{}", MARK, out).unwrap();
                o.flush().unwrap();
            }
        })
        .unwrap();
    let _ = t.join();
}

const MARK: &str = "@@VERIF-RESULT@@";
const MAX_TIMEOUTS: usize = 12;
thread_local! {
    static LAST_PANIC: std::cell::RefCell<Option<(String,String)>> = std::cell::RefCell::new(None);
}

pub fn parent(cmd: &str, infile: &str, outfile: &str, timeout_ms: u64) {
    let cases: Vec<String> = std::fs::read_to_string(infile)
        .expect("read input")
        .lines()
        .filter(|l| !l.trim().is_empty())
        .map(|s| s.to_string())
        .collect();
    let mut out = std::io::BufWriter::new(std::fs::File::create(outfile).expect("create output"));
    let exe = std::env::current_exe().unwrap();
    let mut next = 0usize;
    let mut restarts = 0usize;
    let mut timeouts = 0usize;
    while next < cases.len() {
        // A hang that affects thousands of cases would cost `timeout_ms` each: after MAX_TIMEOUTS the remaining
        // cases are not run and say so ("not-run" is not a verdict about the code; the timeouts already are).
        if timeouts >= MAX_TIMEOUTS {
            for c in &cases[next..] {
                let id = serde_json::from_str::<Value>(c).ok().and_then(|v| v.get("id").cloned()).unwrap_or(Value::Null);
                writeln!(out, "{}", json!({"outcome":"not-run","id":id,"msg":format!("not run: {timeouts} earlier cases of this batch timed out")})).unwrap();
            }
            break;
        }
        let mut ch = Command::new(&exe)
            .arg("child")
            .arg(cmd)
            .stdin(Stdio::piped())
            .stdout(Stdio::piped())
            .stderr(Stdio::null())
            .spawn()
            .expect("spawn child");
        let mut stdin = ch.stdin.take().unwrap();
        let stdout = ch.stdout.take().unwrap();
        let feed: Vec<String> = cases[next..].to_vec();
        let feeder = std::thread::spawn(move || {
            for c in feed {
                if stdin.write_all(c.as_bytes()).is_err() || stdin.write_all(b"\n").is_err() {
                    break;
                }
            }
        });
        let (tx, rx) = mpsc::channel::<Option<String>>();
        let reader = std::thread::spawn(move || {
            let br = BufReader::new(stdout);
            for l in br.lines() {
                match l {
                    Ok(l) => {
                        if tx.send(Some(l)).is_err() {
                            return;
                        }
                    }
                    Err(_) => break,
                }
            }
            let _ = tx.send(None);
        });
        let mut failure: Option<&'static str> = None;
        loop {
            match rx.recv_timeout(Duration::from_millis(timeout_ms)) {
                Ok(Some(l)) => {
                    let Some(l) = l.strip_prefix(MARK) else { continue };   // chatter of the code under test
                    writeln!(out, "{}", l).unwrap();
                    next += 1;
                    if next >= cases.len() {
                        break;
                    }
                }
                Ok(None) => {
                    failure = Some("abort");
                    break;
                }
                Err(_) => {
                    failure = Some("timeout");
                    break;
                }
            }
        }
        let _ = ch.kill();
        let status = ch.wait().ok();
        let _ = feeder.join();
        let _ = reader.join();
        if let Some(kind) = failure {
            if next < cases.len() {
                let id = serde_json::from_str::<Value>(&cases[next])
                    .ok()
                    .and_then(|v| v.get("id").cloned())
                    .unwrap_or(Value::Null);
                #[cfg(unix)]
                let sig = {
                    use std::os::unix::process::ExitStatusExt;
                    status.and_then(|s| s.signal())
                };
                #[cfg(not(unix))]
                let sig: Option<i32> = None;
                writeln!(
                    out,
                    "{}",
                    json!({"outcome":kind,"id":id,"signal":sig,"msg":format!("child {kind} (signal {:?})", sig)})
                )
                .unwrap();
                next += 1;
                restarts += 1;
                if kind == "timeout" {
                    timeouts += 1;
                }
            }
        }
    }
    out.flush().unwrap();
    eprintln!("harness: {} cases, {} child restarts", cases.len(), restarts);
}
