//! raw::Layers registry replay (specs/raw/Layers.tla, MC_Layers.tla).
use crate::util::*;
use crate::CmdFn;
use layout21raw as raw;
use raw::{LayerKey, LayerPurpose, Layers};
use serde_json::{json, Value};

pub fn commands() -> Vec<(&'static str, CmdFn)> { vec![("layers_ops", layers_ops)] }

fn purpose_of(v: &Value) -> LayerPurpose {
    let k = v[1].as_i64().unwrap() as i16;
    match v[0].as_str().unwrap() {
        "Drawing" => LayerPurpose::Drawing, "Pin" => LayerPurpose::Pin, "Label" => LayerPurpose::Label,
        "Other" => LayerPurpose::Other(k), "Named" => LayerPurpose::Named("nm".into(), k),
        t => panic!("harness: purpose tag {t}"),
    }
}
fn purpose_json(p: &LayerPurpose) -> Value {
    match p {
        LayerPurpose::Drawing => json!(["Drawing", 0]), LayerPurpose::Pin => json!(["Pin", 0]), LayerPurpose::Label => json!(["Label", 0]),
        LayerPurpose::Obstruction => json!(["Obstruction", 0]), LayerPurpose::Outline => json!(["Outline", 0]),
        LayerPurpose::Other(k) => json!(["Other", k]), LayerPurpose::Named(_, k) => json!(["Named", k]),
    }
}
/// {hist: [{op, ...}]} -> per step: the operation's own result and the answers to every query of the model
fn layers_ops(case: &Value) -> Value {
    let mut layers = Layers::default();
    let mut keys: Vec<LayerKey> = Vec::new();     // insertion order: the model's key is the index (1-based)
    let idx = |keys: &Vec<LayerKey>, k: LayerKey| -> i64 { keys.iter().position(|x| *x == k).map(|i| i as i64 + 1).unwrap_or(-1) };
    let mut steps = Vec::new();
    for h in geta(case, "hist") {
        let res = match gets(h, "op") {
            "add" => {
                let name = h["name"].as_array().and_then(|a| a.first()).and_then(|s| s.as_str());
                let num = geti(h, "num") as i16;
                let pairs: Vec<(i16, LayerPurpose)> = geta(h, "pairs").iter().map(|p| (p[0].as_i64().unwrap() as i16, purpose_of(&p[1]))).collect();
                let layer = match name { Some(n) => raw::Layer::new(num, n), None => raw::Layer::from_num(num) };
                match layer.add_pairs(&pairs) {
                    Ok(l) => { let k = layers.add(l); keys.push(k); json!({"ok": true, "key": idx(&keys, k)}) }
                    Err(_) => json!({"ok": false}),
                }
            }
            "get_or_insert" => {
                let before = layers.slots().len();
                match layers.get_or_insert(geti(h, "num") as i16, geti(h, "pn") as i16) {
                    Ok((k, p)) => { if layers.slots().len() > before { keys.push(k); } json!({"key": idx(&keys, k), "p": purpose_json(&p)}) }
                    Err(e) => json!({"err": err_str(e)}),
                }
            }
            o => panic!("harness: layers op {o}"),
        };
        let kj = |k: Option<LayerKey>| k.map(|k| json!([idx(&keys, k)])).unwrap_or(json!([]));
        let keynum: Vec<Value> = [1i16, 2, 3].iter().map(|n| kj(layers.keynum(*n))).collect();
        let purposes: Vec<Value> = keys.iter().map(|k| purposes_of(layers.get(*k).unwrap())).collect();
        let ans = json!({"keynum": keynum, "keyname": {"a": kj(layers.keyname("a")), "b": kj(layers.keyname("b"))},
                         "nextnum": layers.nextnum().ok(), "nslots": layers.slots().len(), "purposes": purposes});
        steps.push(json!({"res": res, "ans": ans}));
    }
    json!({"id": id(case), "outcome": "ok", "steps": steps})
}
fn purposes_of(l: &raw::Layer) -> Value {
    let mut v: Vec<(i16, Value)> = Vec::new();
    for pn in [0i16, 5] { if let Some(p) = l.purpose(pn) { v.push((pn, purpose_json(p))); } }
    Value::Array(v.into_iter().map(|(n, p)| json!([n, p])).collect())
}
