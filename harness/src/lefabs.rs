//! lef21 values -> abstract JSON (shapes of specs/lef/LefSyntax.tla), and token list -> LEF text under a
//! lexical variant.  Field by field, by hand; the crate's serde derives are not used (C18 tests those).
use lef21::*;
use rust_decimal::Decimal;
use serde_json::{json, Value};

pub fn dec(d: &Decimal) -> Value {
    let n = d.normalize();
    let m = n.mantissa();
    json!({"n": m < 0, "m": m.abs() as i64, "s": n.scale()})
}
fn o<T, F: Fn(&T) -> Value>(x: &Option<T>, f: F) -> Value { match x { Some(v) => json!([f(v)]), None => json!([]) } }
fn es<T: std::fmt::Display>(x: &T) -> Value { json!(x.to_string()) }
fn pt(p: &LefPoint) -> Value { json!([dec(&p.x), dec(&p.y)]) }
fn pts(p: &[LefPoint]) -> Value { Value::Array(p.iter().map(pt).collect()) }
fn props(p: &[LefProperty]) -> Value { Value::Array(p.iter().map(|q| json!({"name": q.name, "value": q.value})).collect()) }

fn shape(s: &LefShape, it: Option<&LefStepPattern>) -> Value {
    let (k, m, p) = match s {
        LefShape::Rect(m, a, b) => ("RECT", m, vec![a.clone(), b.clone()]),
        LefShape::Polygon(m, p) => ("POLYGON", m, p.clone()),
        LefShape::Path(m, p) => ("PATH", m, p.clone()),
    };
    json!({"k": k, "mask": o(m, |m| dec(&m.mask)), "pts": pts(&p),
           "iterate": it.map(|i| json!([[dec(&i.numx), dec(&i.numy), dec(&i.spacex), dec(&i.spacey)]])).unwrap_or(json!([]))})
}
fn layer_geom(l: &LefLayerGeometries) -> Value {
    json!({"layer_name": l.layer_name, "except_pg_net": o(&l.except_pg_net, |b| json!(b)),
           "spacing": o(&l.spacing, |s| match s { LefLayerSpacing::Spacing(v) => json!({"k":"SPACING","v":dec(v)}),
                                                   LefLayerSpacing::DesignRuleWidth(v) => json!({"k":"DESIGNRULEWIDTH","v":dec(v)}) }),
           "width": o(&l.width, dec),
           "geoms": l.geometries.iter().map(|g| match g { LefGeometry::Shape(s) => shape(s, None),
                                                          LefGeometry::Iterate { shape: s, pattern } => shape(s, Some(pattern)) }).collect::<Vec<_>>(),
           "vias": l.vias.iter().map(|v| json!({"name": v.via_name, "pt": pt(&v.pt)})).collect::<Vec<_>>()})
}
fn pin(p: &LefPin) -> Value {
    json!({"name": p.name, "direction": o(&p.direction, es), "use": o(&p.use_, es), "shape": o(&p.shape, es),
           "antenna_model": o(&p.antenna_model, es),
           "antenna_attrs": p.antenna_attrs.iter().map(|a| json!({"key": a.key, "val": dec(&a.val), "layer": o(&a.layer, |l| json!(l))})).collect::<Vec<_>>(),
           "taper_rule": o(&p.taper_rule, |s| json!(s)), "supply_sensitivity": o(&p.supply_sensitivity, |s| json!(s)),
           "ground_sensitivity": o(&p.ground_sensitivity, |s| json!(s)), "must_join": o(&p.must_join, |s| json!(s)),
           "net_expr": o(&p.net_expr, |s| json!(s)), "properties": props(&p.properties),
           "ports": p.ports.iter().map(|q| json!({"class": o(&q.class, es), "layers": q.layers.iter().map(layer_geom).collect::<Vec<_>>()})).collect::<Vec<_>>()})
}
fn class(c: &LefMacroClass) -> Value {
    match c {
        LefMacroClass::Cover { bump } => json!({"k":"COVER","tp": if *bump { vec!["BUMP"] } else { vec![] }}),
        LefMacroClass::Ring => json!({"k":"RING","tp":[]}),
        LefMacroClass::Block { tp } => json!({"k":"BLOCK","tp": o(tp, es)}),
        LefMacroClass::Pad { tp } => json!({"k":"PAD","tp": o(tp, es)}),
        LefMacroClass::Core { tp } => json!({"k":"CORE","tp": o(tp, es)}),
        LefMacroClass::EndCap { tp } => json!({"k":"ENDCAP","tp":[tp.to_string()]}),
    }
}
fn mac(m: &LefMacro) -> Value {
    json!({"name": m.name, "class": o(&m.class, class), "fixed_mask": m.fixed_mask,
           "foreign": o(&m.foreign, |f| json!({"cell": f.cell_name, "pt": o(&f.pt, pt), "orient": o(&f.orient, es)})),
           "origin": o(&m.origin, pt), "size": o(&m.size, |s| json!([dec(&s.0), dec(&s.1)])),
           "symmetry": o(&m.symmetry, |v| json!(v.iter().map(|s| s.to_string()).collect::<Vec<_>>())),
           "site": o(&m.site, |s| json!(s)), "source": o(&m.source, es), "eeq": o(&m.eeq, |s| json!(s)),
           "properties": props(&m.properties),
           "density": o(&m.density, |d| json!(d.iter().map(|l| json!({"layer_name": l.layer_name,
                "rects": l.geometries.iter().map(|r| json!({"p1": pt(&r.pt1), "p2": pt(&r.pt2), "val": dec(&r.density_value)})).collect::<Vec<_>>()})).collect::<Vec<_>>())),
           "obs": m.obs.iter().map(layer_geom).collect::<Vec<_>>(), "pins": m.pins.iter().map(pin).collect::<Vec<_>>()})
}
fn via_shape(s: &LefViaShape) -> Value {
    match s {
        LefViaShape::Rect(m, a, b) => json!({"k":"RECT","mask": o(m, |m| dec(&m.mask)), "pts": pts(&[a.clone(), b.clone()])}),
        LefViaShape::Polygon(m, p) => json!({"k":"POLYGON","mask": o(m, |m| dec(&m.mask)), "pts": pts(p)}),
    }
}
fn via(v: &LefViaDef) -> Value {
    let (fixed, gen) = match &v.data {
        LefViaDefData::Fixed(f) => (json!([{"resistance": o(&f.resistance_ohms, dec),
            "layers": f.layers.iter().map(|l| json!({"layer_name": l.layer_name, "shapes": l.shapes.iter().map(via_shape).collect::<Vec<_>>()})).collect::<Vec<_>>()}]), json!([])),
        LefViaDefData::Generated(g) => (json!([]), json!([{"rule": g.via_rule_name, "cutsize": [dec(&g.cut_size_x), dec(&g.cut_size_y)],
            "layers": [g.bot_metal_layer, g.cut_layer, g.top_metal_layer], "cutspacing": [dec(&g.cut_spacing_x), dec(&g.cut_spacing_y)],
            "enclosure": [dec(&g.bot_enc_x), dec(&g.bot_enc_y), dec(&g.top_enc_x), dec(&g.top_enc_y)],
            "rowcol": o(&g.rowcol, |r| json!([dec(&r.rows), dec(&r.cols)])), "origin": o(&g.origin, pt),
            "offset": o(&g.offset, |r| json!([dec(&r.bot_x), dec(&r.bot_y), dec(&r.top_x), dec(&r.top_y)]))}])),
    };
    json!({"name": v.name, "default": v.default, "fixed": fixed, "gen": gen})
}
fn propdef(p: &LefPropertyDefinition) -> Value {
    let rng = |r: &Option<LefPropertyRange>| o(r, |r| json!([dec(&r.begin), dec(&r.end)]));
    match p {
        LefPropertyDefinition::LefString(ob, n, v) => json!({"obj": ob.to_string(), "name": n, "kind":"STRING", "sval": o(v, |s| json!(s)), "val": [], "range": []}),
        LefPropertyDefinition::LefReal(ob, n, v, r) => json!({"obj": ob.to_string(), "name": n, "kind":"REAL", "sval": [], "val": o(v, dec), "range": rng(r)}),
        LefPropertyDefinition::LefInteger(ob, n, v, r) => json!({"obj": ob.to_string(), "name": n, "kind":"INTEGER", "sval": [], "val": o(v, dec), "range": rng(r)}),
    }
}
pub fn lib_json(l: &LefLibrary) -> Value {
    json!({"version": o(&l.version, dec), "names_case_sensitive": o(&l.names_case_sensitive, es),
           "no_wire_extension_at_pin": o(&l.no_wire_extension_at_pin, es),
           "bus_bit_chars": o(&l.bus_bit_chars, |c| json!(format!("\"{}{}\"", c.0, c.1))),
           "divider_char": o(&l.divider_char, |c| json!(format!("\"{}\"", c))),
           "units": o(&l.units, |u| json!({"database_microns": o(&u.database_microns, |d| json!(d.0)), "time_ns": o(&u.time_ns, dec),
                "capacitance_pf": o(&u.capacitance_pf, dec), "resistance_ohms": o(&u.resistance_ohms, dec), "power_mw": o(&u.power_mw, dec),
                "current_ma": o(&u.current_ma, dec), "voltage_volts": o(&u.voltage_volts, dec), "frequency_mhz": o(&u.frequency_mhz, dec)})),
           "manufacturing_grid": o(&l.manufacturing_grid, dec), "use_min_spacing": o(&l.use_min_spacing, es),
           "clearance_measure": o(&l.clearance_measure, es), "fixed_mask": l.fixed_mask,
           "property_definitions": l.property_definitions.iter().map(propdef).collect::<Vec<_>>(),
           "extensions": l.extensions.iter().map(|e| json!({"name": e.name, "data": e.data.split_whitespace().collect::<Vec<_>>().join(" ")})).collect::<Vec<_>>(),
           "sites": l.sites.iter().map(|s| json!({"name": s.name, "class": s.class.to_string(),
                "symmetry": o(&s.symmetry, |v| json!(v.iter().map(|s| s.to_string()).collect::<Vec<_>>())), "size": [dec(&s.size.0), dec(&s.size.1)]})).collect::<Vec<_>>(),
           "vias": l.vias.iter().map(via).collect::<Vec<_>>(), "macros": l.macros.iter().map(mac).collect::<Vec<_>>()})
}

/// decimal {n,m,s} -> text under spelling `sp`
pub fn dec_text(d: &Value, sp: u32) -> String {
    let m = d["m"].as_i64().unwrap();
    let s = d["s"].as_u64().unwrap() as usize;
    let neg = d["n"].as_bool().unwrap();
    let mut digits = m.to_string();
    while digits.len() < s + 1 { digits.insert(0, '0'); }
    let (ip, fp) = digits.split_at(digits.len() - s);
    let mut ip = ip.to_string();
    let mut fp = fp.to_string();
    match sp {
        1 => fp.push('0'),
        2 => if ip == "0" && !fp.is_empty() { ip.clear(); },
        3 => fp.push_str("000"),
        _ => {}
    }
    let mut t = String::new();
    if neg { t.push('-'); }
    t.push_str(&ip);
    if !fp.is_empty() { t.push('.'); t.push_str(&fp); }
    t
}
pub const N_KW: u32 = 3;
pub const N_SEP: u32 = 6;
pub const N_SP: u32 = 4;
pub fn kw_text(w: &str, kwcase: u32) -> String {
    match kwcase {
        1 => w.to_ascii_lowercase(),
        2 => w.chars().enumerate().map(|(i, c)| if i % 2 == 0 { c.to_ascii_lowercase() } else { c.to_ascii_uppercase() }).collect(),
        _ => w.to_string(),
    }
}
/// tokens -> text
pub fn render(toks: &[Value], kwcase: u32, sep: u32, sp: u32) -> String { render_opts(toks, kwcase, sep, sp, None) }
/// `idpad = Some(k)`: every identifier gets a tail of k ASCII letters followed by 2-, 3- and 4-byte characters, so that long
/// names with a multi-byte character at every byte offset from k on appear wherever a name (or, after a fault, a keyword) stands
pub fn render_opts(toks: &[Value], kwcase: u32, sep: u32, sp: u32, idpad: Option<usize>) -> String {
    let mut out = String::new();
    if sep == 4 { out.push_str("# en-tête: bibliothèque 単位 ✓\n"); }
    for (i, t) in toks.iter().enumerate() {
        let mut k = t["k"].as_str().unwrap();
        let mut marked: Option<(String, bool)> = None;   // (text, needs trailing comment)
        if k == "mark" {
            // a token with a non-ASCII character inserted: into the word / literal itself, or into a comment behind it
            let ch = ["é", "中", "😀"][(t["ch"].as_u64().unwrap() as usize - 1) % 3];
            let inner = &t["v"];
            let ik = inner["k"].as_str().unwrap();
            let base = render(std::slice::from_ref(inner), kwcase, 0, sp);
            let base = base.trim_end().to_string();
            marked = Some(match ik {
                "id" | "raw" => { let mid = base.chars().count() / 2; let (a, b): (String, String) = (base.chars().take(mid.max(1)).collect(), base.chars().skip(mid.max(1)).collect()); (format!("{a}{ch}{b}"), false) }
                "str" => { let n = base.chars().count(); (format!("{}{}\"", base.chars().take(n - 1).collect::<String>(), ch), false) }
                _ => (format!("{base} # {ch} note"), true),
            });
            k = "marked";
        }
        let txt = match k {
            "marked" => { let (t2, cm) = marked.clone().unwrap(); if cm { format!("{t2}\n") } else { t2 } }
            "kw" => kw_text(t["v"].as_str().unwrap(), kwcase),
            "id" if idpad.is_some() => format!("{}{}é中😀é中", t["v"].as_str().unwrap(), "a".repeat(idpad.unwrap())),
            "kwu" | "id" | "str" | "raw" => t["v"].as_str().unwrap().to_string(),
            "num" => dec_text(&t["d"], (sp + if sp == 0 { 0 } else { (i % 2) as u32 * 0 }) % N_SP),
            "semi" => ";".to_string(),
            _ => panic!("harness: bad token kind"),
        };
        out.push_str(&txt);
        let stmt_end = k == "semi";
        match sep {
            0 => out.push(' '),
            1 => out.push('\n'),
            2 => { out.push_str(if stmt_end { " \t\n\n" } else { "  \t " }); }
            3 => { if stmt_end { out.push_str(" # end of statement ; MACRO x\n"); } else { out.push(' '); } }
            4 => { if stmt_end || i % 7 == 3 { out.push_str(" # café 中文 ünïcödé ;\n"); } else { out.push(' '); } }
            // 5: the other white-space characters of C's isspace(): carriage return (CRLF line ends), vertical tab, form feed
            5 => { out.push_str(if stmt_end { " \r\n" } else { ["\x0b", "\x0c", "\r\n", " \x0b ", "\t\x0c"][i % 5] }); }
            // 6..: lines longer than any excerpt limit, made of 2-, 3- and 4-byte characters, shifted byte by byte
            _ => { if stmt_end || i % 5 == 2 { out.push_str(" # "); for _ in 0..(sep - 6) { out.push('a'); } for _ in 0..30 { out.push_str("é中😀"); } out.push('\n'); } else { out.push(' '); } }
        }
    }
    out
}
