//! LEF commands (C04, C05, C11, C16).
use crate::lefabs::*;
use crate::util::*;
use crate::CmdFn;
use lef21::verif::parse_str;
use lef21::LefLibrary;
use serde_json::{json, Value};

pub fn commands() -> Vec<(&'static str, CmdFn)> {
    vec![("lef_s2i", lef_s2i), ("lef_parse", lef_parse)]
}

fn strip_vk(v: &Value) -> Value {
    match v {
        // BEGINEXT bodies compare as whitespace-normalised text
        Value::Object(o) if o.contains_key("data") && o.contains_key("name") && o.len() == 2 => {
            let words: Vec<String> = o["data"].as_array().map(|a| a.iter().map(|w| w.as_str().unwrap().split_whitespace().collect::<Vec<_>>().join(" ")).collect()).unwrap_or_default();
            json!({"name": o["name"], "data": words.join(" ")})
        }
        Value::Object(o) => Value::Object(o.iter().filter(|(k, _)| k.as_str() != "vk").map(|(k, x)| (k.clone(), strip_vk(x))).collect()),
        Value::Array(a) => Value::Array(a.iter().map(strip_vk).collect()),
        x => x.clone(),
    }
}

/// S->I for C04 (read) and C05 (write + re-read of what the reader produced), under every lexical variant.
fn lef_s2i(case: &Value) -> Value {
    let want = strip_vk(&case["lib"]);
    let toks = geta(case, "toks");
    let expect_err = getb(case, "expect_err");
    let mut probs: Vec<Value> = Vec::new();
    let mut nvar = 0;
    let mut wrote: std::collections::HashSet<String> = std::collections::HashSet::new();
    for kw in 0..N_KW { for sep in 0..N_SEP { for sp in 0..N_SP {
        nvar += 1;
        let text = render(toks, kw, sep, sp);
        let var = json!({"kwcase": kw, "sep": sep, "sp": sp});
        let r = guarded(|| parse_str(&text));
        let lib: LefLibrary = match r {
            Err(p) => { probs.push(json!({"stage":"read","outcome":"panic","msg":p,"var":var,"text":trunc(&json!(text))})); continue; }
            Ok(Err(e)) => {
                if !expect_err { probs.push(json!({"stage":"read","outcome":"err","msg":err_str(e),"var":var,"text":trunc(&json!(text))})); }
                continue;
            }
            Ok(Ok(l)) => l,
        };
        if expect_err { probs.push(json!({"stage":"read","outcome":"accepted-but-error-required","var":var})); continue; }
        if let Some(d) = json_diff(&want, &lib_json(&lib), "") {
            probs.push(json!({"stage":"read","outcome":"misread","path":d.0,"want":d.1,"got":d.2,"var":var}));
            // C05 quantifies over the image of the reader: continue with what was read
        }
        // ---- C05: write what the reader produced, read it back
        let key = format!("{:?}", lib);
        if !wrote.insert(key) { continue; }
        match guarded(|| lib.to_string()) {
            Err(p) => probs.push(json!({"stage":"write","outcome":"panic","msg":p,"var":var})),
            Ok(Err(e)) => probs.push(json!({"stage":"write","outcome":"err","msg":err_str(e),"var":var})),
            Ok(Ok(w)) => match guarded(|| parse_str(&w)) {
                Err(p) => probs.push(json!({"stage":"reread","outcome":"panic","msg":p,"var":var,"written":trunc(&json!(w))})),
                Ok(Err(e)) => probs.push(json!({"stage":"reread","outcome":"err","msg":err_str(e),"var":var,"written":trunc(&json!(w))})),
                Ok(Ok(l2)) => {
                    if l2 != lib || json_diff(&lib_json(&lib), &lib_json(&l2), "").is_some() {
                        let d = json_diff(&lib_json(&lib), &lib_json(&l2), "");
                        probs.push(json!({"stage":"reread","outcome":"differs","path":d.as_ref().map(|d| d.0.clone()),
                                          "want":d.as_ref().map(|d| d.1.clone()),"got":d.as_ref().map(|d| d.2.clone()),"var":var,"written":trunc(&json!(w))}));
                    }
                }
            },
        }
    }}}
    let n = probs.len();
    // keep one example per (stage, outcome, path, non-ASCII variant?) class
    let mut seen: std::collections::HashSet<String> = std::collections::HashSet::new();
    probs.retain(|p| seen.insert(format!("{}|{}|{}|{}", p["stage"], p["outcome"], p.get("path").cloned().unwrap_or(Value::Null), p["var"]["sep"] == 4)));
    probs.truncate(24);
    json!({"id": id(case), "outcome":"ok", "variants": nvar, "nproblems": n, "problems": probs})
}

/// parse a text: {text} -> outcome (+ projection)
fn lef_parse(case: &Value) -> Value {
    let text = gets(case, "text");
    match guarded(|| parse_str(text)) {
        Err(p) => json!({"id": id(case), "outcome":"panic", "msg": p}),
        Ok(Err(e)) => json!({"id": id(case), "outcome":"err", "msg": err_str(e)}),
        Ok(Ok(l)) => json!({"id": id(case), "outcome":"ok", "lib": lib_json(&l)}),
    }
}
