//! LEF commands (C04, C05, C11, C16).
use crate::lefabs::*;
use crate::util::*;
use crate::CmdFn;
use lef21::verif::parse_str;
use lef21::LefLibrary;
use serde_json::{json, Value};

pub fn commands() -> Vec<(&'static str, CmdFn)> {
    vec![("lef_s2i", lef_s2i), ("lef_parse", lef_parse), ("lef_lex", lef_lex), ("lef_fault", lef_fault), ("lef_prefixes", lef_prefixes), ("lef_scaling", lef_scaling), ("lef_to_raw", lef_to_raw), ("lef_tokens", lef_tokens)]
}

fn strip_vk(v: &Value) -> Value {
    match v {
        // BEGINEXT bodies compare as whitespace-normalised text
        Value::Object(o) if o.contains_key("data") && o.contains_key("name") && o.len() == 2 => {
            let words: Vec<String> = o["data"].as_array().map(|a| a.iter().map(|w| w.as_str().unwrap().split_whitespace().collect::<Vec<_>>().join(" ")).collect()).unwrap_or_default();
            json!({"name": o["name"], "data": words.join(" ")})
        }
        Value::Object(o) => Value::Object(o.iter().filter(|(k, _)| k.as_str() != "vk").map(|(k, x)| (k.clone(), strip_vk(x))).collect()),
        // property records with vk = "split" only direct the renderer (statement boundary), they are not content
        Value::Array(a) => Value::Array(a.iter().filter(|e| e.get("vk").and_then(|k| k.as_str()) != Some("split")).map(strip_vk).collect()),
        x => x.clone(),
    }
}

/// S->I for C04 (read) and C05 (write + re-read of what the reader produced), under every lexical variant.
fn lef_s2i(case: &Value) -> Value {
    let want = strip_vk(&case["lib"]);
    let toks = geta(case, "toks");
    let expect_err = getb(case, "expect_err");
    let mut probs: Vec<Value> = Vec::new();
    let mut nvar = 0;
    let mut wrote: std::collections::HashSet<String> = std::collections::HashSet::new();
    for kw in 0..N_KW { for sep in 0..N_SEP { for sp in 0..N_SP {
        nvar += 1;
        let text = render(toks, kw, sep, sp);
        let var = json!({"kwcase": kw, "sep": sep, "sp": sp});
        let r = guarded(|| parse_str(&text));
        let lib: LefLibrary = match r {
            Err(p) => { probs.push(json!({"stage":"read","outcome":"panic","msg":p,"var":var,"text":trunc(&json!(text))})); continue; }
            Ok(Err(e)) => {
                if !expect_err { probs.push(json!({"stage":"read","outcome":"err","msg":err_str(e),"var":var,"text":trunc(&json!(text))})); }
                continue;
            }
            Ok(Ok(l)) => l,
        };
        // (a text that should have been refused but was read is still in the image of the reader: C05 goes on with it)
        if expect_err { probs.push(json!({"stage":"read","outcome":"accepted-but-error-required","var":var})); }
        else if let Some(d) = json_diff(&want, &lib_json(&lib), "") {
            probs.push(json!({"stage":"read","outcome":"misread","path":d.0,"want":d.1,"got":d.2,"var":var}));
            // C05 quantifies over the image of the reader: continue with what was read
        }
        // ---- C05: write what the reader produced, read it back
        let key = format!("{:?}", lib);
        if !wrote.insert(key) { continue; }
        match guarded(|| lib.to_string()) {
            Err(p) => probs.push(json!({"stage":"write","outcome":"panic","msg":p,"var":var})),
            Ok(Err(e)) => probs.push(json!({"stage":"write","outcome":"err","msg":err_str(e),"var":var})),
            Ok(Ok(w)) => match guarded(|| parse_str(&w)) {
                Err(p) => probs.push(json!({"stage":"reread","outcome":"panic","msg":p,"var":var,"written":trunc(&json!(w))})),
                Ok(Err(e)) => probs.push(json!({"stage":"reread","outcome":"err","msg":err_str(e),"var":var,"written":trunc(&json!(w))})),
                Ok(Ok(l2)) => {
                    if l2 != lib || json_diff(&lib_json(&lib), &lib_json(&l2), "").is_some() {
                        let d = json_diff(&lib_json(&lib), &lib_json(&l2), "");
                        probs.push(json!({"stage":"reread","outcome":"differs","path":d.as_ref().map(|d| d.0.clone()),
                                          "want":d.as_ref().map(|d| d.1.clone()),"got":d.as_ref().map(|d| d.2.clone()),"var":var,"written":trunc(&json!(w))}));
                    }
                }
            },
        }
    }}}
    let n = probs.len();
    // keep one example per (stage, outcome, path, non-ASCII variant?) class
    let mut seen: std::collections::HashSet<String> = std::collections::HashSet::new();
    probs.retain(|p| seen.insert(format!("{}|{}|{}|{}", p["stage"], p["outcome"], p.get("path").cloned().unwrap_or(Value::Null), p["var"]["sep"] == 4)));
    probs.truncate(24);
    json!({"id": id(case), "outcome":"ok", "variants": nvar, "nproblems": n, "problems": probs})
}

/// parse a text: {text} -> outcome (+ projection)
fn lef_parse(case: &Value) -> Value {
    let text = gets(case, "text");
    match guarded(|| parse_str(text)) {
        Err(p) => json!({"id": id(case), "outcome":"panic", "msg": p}),
        Ok(Err(e)) => json!({"id": id(case), "outcome":"err", "msg": err_str(e)}),
        Ok(Ok(l)) => json!({"id": id(case), "outcome":"ok", "lib": lib_json(&l)}),
    }
}

fn class_char(c: &str, n: u64, i: usize) -> &'static str {
    match (c, n) {
        ("NL", _) => "\n", ("UWS", 2) => "\u{a0}", ("UWS", _) => "\u{3000}", ("WS", _) => if i % 2 == 0 { " " } else { "\t" }, ("SEMI", _) => ";", ("QUOTE", _) => "\"", ("HASH", _) => "#",
        ("DIGIT", _) => "1", ("DOT", _) => ".", ("MINUS", _) => "-",
        ("ALPHA", 1) => "a", ("ALPHA", 2) => "é", ("ALPHA", _) => "中",
        ("OTHER", 1) => "(", _ => "😀",
    }
}
fn tok_json(t: &lef21::verif::Token) -> Value {
    let v = serde_json::to_value(t).unwrap();
    json!({"t": v["ttype"], "start": v["loc"]["start"], "stop": v["loc"]["stop"], "line": v["loc"]["line"]})
}
/// scalar span facts of a token list over `text` (property level): on char boundaries, non-empty, increasing, inside
fn span_facts(text: &str, toks: &[Value]) -> Value {
    let mut ok = true;
    let mut last = 0u64;
    for t in toks {
        let (a, b) = (t["start"].as_u64().unwrap(), t["stop"].as_u64().unwrap());
        if !(a < b && b as usize <= text.len() && text.is_char_boundary(a as usize) && text.is_char_boundary(b as usize) && a >= last) { ok = false; }
        last = b;
    }
    json!({"spans_ok": ok, "ntoks": toks.len(), "nchars": text.chars().count()})
}

/// S->I for the lexer model: {chars:[{c,n}], status, toks}
fn lef_lex(case: &Value) -> Value {
    let text: String = geta(case, "chars").iter().enumerate().map(|(i, c)| class_char(c["c"].as_str().unwrap(), c["n"].as_u64().unwrap(), i)).collect();
    let lexed = guarded(|| lef21::verif::verif_tokens(&text));
    let parsed = guarded(|| parse_str(&text).is_ok());
    let mut out = json!({"id": id(case), "outcome":"ok", "text": text, "parse": match parsed { Ok(b) => json!(if b {"ok"} else {"err"}), Err(p) => json!({"panic": p}) }});
    match lexed {
        Err(p) => { out["lex"] = json!({"outcome":"panic","msg":p}); }
        Ok(Err(e)) => { out["lex"] = json!({"outcome":"err","msg":err_str(e)}); }
        Ok(Ok(t)) => { let tj: Vec<Value> = t.iter().map(tok_json).collect(); out["facts"] = span_facts(&text, &tj); out["lex"] = json!({"outcome":"ok","toks":tj}); }
    }
    out
}

fn roundtrip_no_crash(lib: &LefLibrary) -> Value {
    match guarded(|| lib.to_string()) {
        Err(p) => json!({"stage":"write","outcome":"panic","msg":p}),
        Ok(Err(_)) => json!({"stage":"write","outcome":"err"}),
        Ok(Ok(w)) => match guarded(|| parse_str(&w).is_ok()) {
            Err(p) => json!({"stage":"reread","outcome":"panic","msg":p}),
            Ok(b) => json!({"stage":"reread","outcome": if b {"ok"} else {"err"}}),
        },
    }
}
fn parse_outcome(text: &str) -> Value {
    let facts = match guarded(|| lef21::verif::verif_tokens(text)) {
        Err(p) => json!({"lex_panic": p}),
        Ok(Err(_)) => json!({"lex":"err"}),
        Ok(Ok(t)) => span_facts(text, &t.iter().map(tok_json).collect::<Vec<_>>()),
    };
    match guarded(|| parse_str(text)) {
        Err(p) => json!({"outcome":"panic","msg":p,"facts":facts}),
        Ok(Err(e)) => { let _ = format!("{}", e); json!({"outcome":"err","facts":facts}) }   // formatting the error must not crash either
        Ok(Ok(l)) => json!({"outcome":"ok","rt": roundtrip_no_crash(&l),"facts":facts}),
    }
}
/// one faulted token list: {toks}
fn lef_fault(case: &Value) -> Value {
    let v = geti(case, "v");
    // separators 0..5, long multi-byte comment lines 6..14; every third group of 15 with long multi-byte names: tails of 0, 3, 6, ..
    // 135 letters followed by 2-, 3- and 4-byte characters, so that every byte offset up to about 140 falls inside a character
    let idpad = if (v / 15) % 3 == 2 { Some(3 * ((v / 45) % 46) as usize) } else { None };
    let text = crate::lefabs::render_opts(geta(case, "toks"), (v % 3) as u32, (v % 15) as u32, 0, idpad);
    let mut o = parse_outcome(&text);
    o["id"] = id(case);
    if o["outcome"] == "panic" { o["text"] = trunc(&json!(text)); }
    o
}
/// every character-boundary prefix of a valid text: {toks, sep}
fn lef_prefixes(case: &Value) -> Value {
    let text = render(geta(case, "toks"), 0, geti(case, "sep") as u32, 0);
    let mut counts = std::collections::BTreeMap::new();
    let mut bad: Vec<Value> = Vec::new();
    let idx: Vec<usize> = text.char_indices().map(|(i, _)| i).chain(std::iter::once(text.len())).collect();
    for &i in &idx {
        let o = parse_outcome(&text[..i]);
        *counts.entry(o["outcome"].as_str().unwrap().to_string()).or_insert(0u64) += 1;
        let spans_bad = o["facts"].get("spans_ok").map(|b| b == false).unwrap_or(false) || o["facts"].get("lex_panic").is_some();
        let rt_bad = o.get("rt").map(|r| r["outcome"] == "panic").unwrap_or(false);
        if (o["outcome"] == "panic" || spans_bad || rt_bad) && bad.len() < 3 { bad.push(json!({"prefix_bytes": i, "o": o})); }
    }
    json!({"id": id(case), "outcome":"ok", "prefixes": idx.len(), "counts": counts, "bad": bad})
}
/// wall-clock scaling of the three unbounded loops: point lists, PROPERTY pairs, BEGINEXT bodies
fn lef_scaling(case: &Value) -> Value {
    let n0 = geti(case, "n") as usize;
    let mut rows = Vec::new();
    for kind in ["points", "property", "beginext"] {
        let mut ts = Vec::new();
        for mult in [1usize, 2, 4, 8] {
            let n = n0 * mult;
            let body: String = match kind {
                "points" => format!("MACRO m OBS LAYER l ; POLYGON {} ; END END m", (0..n).map(|i| format!("{} {}", i, i + 1)).collect::<Vec<_>>().join(" ")),
                "property" => format!("MACRO m PROPERTY {} ; END m", (0..n).map(|i| format!("p{} v{}", i, i)).collect::<Vec<_>>().join(" ")),
                _ => format!("BEGINEXT \"t\" {} ENDEXT", (0..n).map(|i| format!("w{}", i)).collect::<Vec<_>>().join(" ")),
            };
            let mut best = f64::MAX;
            for _ in 0..3 {
                let t0 = std::time::Instant::now();
                let r = parse_str(&body);
                let dt = t0.elapsed().as_secs_f64();
                if r.is_err() { return json!({"id": id(case), "outcome":"ok", "error": format!("scaling input {kind} rejected: {}", err_str(r.err().unwrap()))}); }
                if dt < best { best = dt; }
            }
            ts.push(best);
        }
        rows.push(json!({"kind": kind, "n": n0, "times": ts}));
    }
    json!({"id": id(case), "outcome":"ok", "rows": rows})
}

/// C16: LEF text -> LefLibrary -> raw abstract; {toks, must_err, expect}
fn lef_to_raw(case: &Value) -> Value {
    use crate::rawabs::*;
    let want = norm_maps(&case["expect"]);
    let must_err = getb(case, "must_err");
    let mut probs = Vec::new();
    for sp in 0..N_SP {
        let text = render(geta(case, "toks"), 0, 0, sp);
        let lib = match guarded(|| parse_str(&text)) {
            Ok(Ok(l)) => l,
            other => { probs.push(json!({"stage":"parse","outcome": if other.is_err() {"panic"} else {"err"}, "sp": sp, "text": trunc(&json!(text))})); continue; }
        };
        match guarded(|| layout21raw::lef::LefImporter::import(&lib, None)) {
            Err(p) => probs.push(json!({"stage":"import","outcome":"panic","msg":p,"sp":sp})),
            Ok(Err(e)) => { if !must_err { probs.push(json!({"stage":"import","outcome":"err","msg":err_str(e),"sp":sp})); } }
            Ok(Ok(rl)) => {
                if must_err { probs.push(json!({"stage":"import","outcome":"rounded-instead-of-error","sp":sp,"text":trunc(&json!(text))})); continue; }
                let layers = rl.layers.read().unwrap();
                let cells: Vec<Value> = rl.cells.iter().map(|c| { let c = c.read().unwrap();
                    match &c.abs { Some(a) => abstract_json(a, &layers), None => json!({"name": c.name, "no_abstract": true}) } }).collect();
                let got = json!({"cells": cells});
                if let Some(d) = json_diff(&want, &got, "") {
                    probs.push(json!({"stage":"import","outcome":"differs","path":d.0,"want":d.1,"got":d.2,"sp":sp}));
                }
                if rl.units != layout21raw::Units::Angstrom { probs.push(json!({"stage":"import","outcome":"units-not-1e-4-micron","sp":sp})); }
            }
        }
    }
    let n = probs.len();
    probs.truncate(4);
    json!({"id": id(case), "outcome":"ok", "nproblems": n, "problems": probs})
}

/// An independent LEF tokenizer (white space, `#` comments, quoted strings, `;`) for the grammar acceptor
/// specs/lef/LefGrammar.tla: words are upper-cased (keywords are case-insensitive; names are only compared with each other).
pub fn indep_tokens(text: &str) -> Vec<Value> {
    let mut out = Vec::new();
    let cs: Vec<char> = text.chars().collect();
    let mut i = 0;
    let is_num = |w: &str| -> bool {
        let b = w.strip_prefix('-').or_else(|| w.strip_prefix('+')).unwrap_or(w);
        let (mant, exp) = match b.find(|c| c == 'e' || c == 'E') { Some(k) => (&b[..k], Some(&b[k + 1..])), None => (b, None) };
        let digits = mant.chars().filter(|c| c.is_ascii_digit()).count();
        let ok_m = digits > 0 && mant.chars().all(|c| c.is_ascii_digit() || c == '.') && mant.matches('.').count() <= 1;
        let ok_e = exp.map(|e| { let e = e.strip_prefix('-').or_else(|| e.strip_prefix('+')).unwrap_or(e); !e.is_empty() && e.chars().all(|c| c.is_ascii_digit()) }).unwrap_or(true);
        ok_m && ok_e
    };
    while i < cs.len() {
        let c = cs[i];
        if c.is_whitespace() { i += 1; continue; }
        if c == '#' { while i < cs.len() && cs[i] != '\n' { i += 1; } continue; }
        if c == '"' { i += 1; while i < cs.len() && cs[i] != '"' { i += 1; } i += 1; out.push(json!({"c": "s"})); continue; }
        let st = i;
        while i < cs.len() && !cs[i].is_whitespace() { i += 1; }
        let w: String = cs[st..i].iter().collect();
        if w == ";" { out.push(json!({"c": ";"})); }
        else if is_num(&w) { out.push(json!({"c": "n", "u": w.to_uppercase()})); }
        else { out.push(json!({"c": "w", "u": w.to_uppercase()})); }
    }
    out
}
/// {toks, kw, sep, sp}: tokens of the rendered text and, if the crate reads it, of the text the crate writes for it
fn lef_tokens(case: &Value) -> Value {
    let text = render(geta(case, "toks"), geti(case, "kw") as u32, geti(case, "sep") as u32, geti(case, "sp") as u32);
    let mut o = json!({"id": id(case), "outcome": "ok", "rendered": indep_tokens(&text)});
    if let Ok(Ok(lib)) = guarded(|| parse_str(&text)) {
        if let Ok(Ok(w)) = guarded(|| lib.to_string()) { o["written"] = json!(indep_tokens(&w)); o["written_text"] = trunc(&json!(w)); }
    }
    o
}
