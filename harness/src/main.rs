//! Layout21 verification harness.
//!
//! One binary, many commands. Every command maps one JSON case (a line of the input file) to one
//! JSON result (a line of the output file). Cases are executed in a child process under
//! `catch_unwind`; a panic, an abort (stack overflow, SIGSEGV) or a timeout of the code under test is
//! *data* ("outcome": "panic" | "abort" | "timeout"), never a harness failure.
//!
//!   harness run   <cmd> <in.ndjson> <out.ndjson> [--timeout-ms N]   parent: isolates, restarts
//!   harness child <cmd>                                             child: stdin -> stdout
//!   harness list                                                    lists the commands

mod isolate;
mod util;
mod c17;
mod c15;
mod c13;
mod c12;
mod gdsabs;
mod gdscmds;
mod lefabs;
mod lefcmds;
mod rawabs;
mod rawcmds;
mod tetris;
mod tetris2;
mod misc;
mod serde18;
mod layers;
mod bbox;

use serde_json::Value;

pub type CmdFn = fn(&Value) -> Value;

pub fn commands() -> Vec<(&'static str, CmdFn)> {
    let mut v: Vec<(&'static str, CmdFn)> = Vec::new();
    v.extend(c17::commands());
    v.extend(c15::commands());
    v.extend(c13::commands());
    v.extend(c12::commands());
    v.extend(gdscmds::commands());
    v.extend(lefcmds::commands());
    v.extend(rawcmds::commands());
    v.extend(tetris::commands());
    v.extend(misc::commands());
    v.extend(layers::commands());
    v.extend(bbox::commands());
    v
}

fn find(cmd: &str) -> CmdFn {
    for (n, f) in commands() {
        if n == cmd {
            return f;
        }
    }
    eprintln!("unknown command {cmd}");
    std::process::exit(2);
}

fn main() {
    let args: Vec<String> = std::env::args().collect();
    if args.len() < 2 {
        eprintln!("usage: harness run|child|list ...");
        std::process::exit(2);
    }
    match args[1].as_str() {
        "list" => {
            for (n, _) in commands() {
                println!("{n}");
            }
        }
        "child" => isolate::child(find(&args[2])),
        "run" => {
            let mut timeout_ms = 10_000u64;
            let mut i = 5;
            while i < args.len() {
                if args[i] == "--timeout-ms" {
                    timeout_ms = args[i + 1].parse().unwrap();
                    i += 1;
                }
                i += 1;
            }
            let _ = find(&args[2]);
            isolate::parent(&args[2], &args[3], &args[4], timeout_ms);
        }
        _ => {
            eprintln!("usage: harness run|child|list ...");
            std::process::exit(2);
        }
    }
}
