//! C20 (determinism) and C18 (markup round trips).
use crate::rawabs::*;
use crate::util::*;
use crate::CmdFn;
use layout21raw as raw;
use serde_json::{json, Value};
use std::collections::hash_map::DefaultHasher;
use std::hash::{Hash, Hasher};

pub fn commands() -> Vec<(&'static str, CmdFn)> {
    let mut v: Vec<(&'static str, CmdFn)> = vec![("determinism", determinism)];
    v.extend(crate::serde18::commands());
    v
}

fn digest(s: &str) -> String {
    // a fixed-key hasher: the digest itself must not depend on the process
    let mut h = DefaultHasher::new();
    s.hash(&mut h);
    format!("{:016x}:{}", h.finish(), s.len())
}

/// One conversion of one input, `n` times in this process: {conv, input, n} -> digests of the full ordered output
fn determinism(case: &Value) -> Value {
    let conv = gets(case, "conv");
    let n = geti(case, "n");
    let mut digests = Vec::new();
    let mut first_out = String::new();
    for k in 0..n {
        let out: Result<String, String> = match conv {
            "gds2raw" => {
                let g = crate::rawcmds::simple_gds(&case["input"]);
                raw::Library::from_gds(&g, None).map_err(err_str).and_then(|l| crate::rawcmds::raw_cells_json(&l)).map(|v| v.to_string())
            }
            "raw2gds" => raw_lib_of(&case["input"]).to_gds().map_err(err_str).map(|mut g| {
                g.set_all_dates(gds21::GdsDateTime { year: 100, month: 1, day: 1, hour: 0, minute: 0, second: 0 });
                format!("{:?}", g)
            }),
            "raw2proto" => raw_lib_of(&case["input"]).to_proto().map_err(err_str).map(|p| format!("{:?}", p)),
            "raw2lef" => raw::lef::LefExporter::export(&raw_lib_of(&case["input"])).map_err(err_str).map(|l| format!("{:?}", l)),
            "lef2raw" => {
                let text = crate::lefabs::render(geta(&case["input"], "toks"), 0, 0, 0);
                lef21::verif::parse_str(&text).map_err(err_str)
                    .and_then(|l| raw::lef::LefImporter::import(&l, None).map_err(err_str))
                    .and_then(|rl| raw_lib_json(&rl))
                    .map(|v| v.to_string())
            }
            "lef2raw2lef" => {
                let text = crate::lefabs::render(geta(&case["input"], "toks"), 0, 0, 0);
                lef21::verif::parse_str(&text).map_err(err_str)
                    .and_then(|l| raw::lef::LefImporter::import(&l, None).map_err(err_str))
                    .and_then(|rl| raw::lef::LefExporter::export(&rl).map_err(err_str))
                    .map(|l| format!("{:?}", l))
            }
            "tetris2raw" => crate::tetris2::compile_digest(&case["input"]),
            _ => panic!("harness: conversion {conv}"),
        };
        let s = match out { Ok(s) => s, Err(e) => format!("ERR:{e}") };
        if k == 0 { first_out = s.chars().take(300).collect(); }
        digests.push(digest(&s));
    }
    json!({"id": id(case), "outcome":"ok", "digests": digests, "pid": std::process::id(), "first": first_out})
}
