//! layout21raw values -> abstract JSON (canonical forms of DESIGN.md §4), and constructors.
use layout21raw as raw;
use raw::{Layers, Shape};
use serde_json::{json, Map, Value};

pub fn shape_json(s: &Shape) -> Value {
    match s {
        Shape::Rect(r) => json!({"k":"rect","pts":[[r.p0.x, r.p0.y],[r.p1.x, r.p1.y]],"width":0}),
        Shape::Polygon(p) => json!({"k":"polygon","pts":p.points.iter().map(|q| vec![q.x, q.y]).collect::<Vec<_>>(),"width":0}),
        Shape::Path(p) => json!({"k":"path","pts":p.points.iter().map(|q| vec![q.x, q.y]).collect::<Vec<_>>(),"width":p.width}),
    }
}
fn by_layer_name(m: &std::collections::HashMap<raw::LayerKey, Vec<Shape>>, layers: &Layers) -> Value {
    let mut o = Map::new();
    for (k, shapes) in m {
        let name = layers.get_name(*k).cloned().unwrap_or_else(|| format!("<unnamed {:?}>", layers.get(*k).map(|l| l.layernum)));
        o.insert(name, Value::Array(shapes.iter().map(shape_json).collect()));
    }
    Value::Object(o)
}
pub fn abstract_json(a: &raw::Abstract, layers: &Layers) -> Value {
    json!({"name": a.name, "outline": a.outline.points.iter().map(|q| vec![q.x, q.y]).collect::<Vec<_>>(),
           "ports": a.ports.iter().map(|p| json!({"net": p.net, "shapes": by_layer_name(&p.shapes, layers)})).collect::<Vec<_>>(),
           "blockages": by_layer_name(&a.blockages, layers)})
}
/// empty TLA+ functions arrive as []: normalise empty arrays in map positions to {}
pub fn norm_maps(v: &Value) -> Value {
    match v {
        Value::Object(o) => Value::Object(o.iter().map(|(k, x)| {
            let x2 = if (k == "shapes" || k == "blockages") && x.as_array().map(|a| a.is_empty()).unwrap_or(false) { json!({}) } else { norm_maps(x) };
            (k.clone(), x2) }).collect()),
        Value::Array(a) => Value::Array(a.iter().map(norm_maps).collect()),
        x => x.clone(),
    }
}

// ---------------------------------------------------------------------------------------------
// Constructors: abstract raw library (specs/raw/MC_RawGds.tla, RawProto.tla) -> raw::Library
// ---------------------------------------------------------------------------------------------
use crate::util::*;
use layout21utils::Ptr;
use raw::{LayerPurpose, Point};

/// The fixed layer table used by generated libraries: purposes carry distinct numbers so that a
/// layer/purpose mix-up is visible.
pub fn std_layers() -> Layers {
    let mut l = Layers::default();
    l.add(raw::Layer::new(1, "met1").add_pairs(&[(0, LayerPurpose::Drawing), (1, LayerPurpose::Pin), (2, LayerPurpose::Label), (3, LayerPurpose::Obstruction)]).unwrap());
    l.add(raw::Layer::new(2, "met2").add_pairs(&[(0, LayerPurpose::Drawing), (5, LayerPurpose::Pin), (7, LayerPurpose::Label), (9, LayerPurpose::Obstruction)]).unwrap());
    l.add(raw::Layer::new(3, "via1").add_pairs(&[(0, LayerPurpose::Drawing), (4, LayerPurpose::Pin), (6, LayerPurpose::Label), (8, LayerPurpose::Obstruction)]).unwrap());
    // three layers that share ONE GDSII layer number and differ in datatypes (as li1 / licon / mcon do in sky130): addressed
    // by the abstract layer ids 101, 102, 103 (see `lkey`)
    l.add(raw::Layer::new(68, "li").add_pairs(&[(20, LayerPurpose::Drawing), (16, LayerPurpose::Pin), (5, LayerPurpose::Label), (21, LayerPurpose::Obstruction)]).unwrap());
    l.add(raw::Layer::new(68, "mcon").add_pairs(&[(44, LayerPurpose::Drawing), (48, LayerPurpose::Pin), (45, LayerPurpose::Label), (46, LayerPurpose::Obstruction)]).unwrap());
    l.add(raw::Layer::new(68, "licon").add_pairs(&[(60, LayerPurpose::Drawing), (61, LayerPurpose::Pin), (62, LayerPurpose::Label), (63, LayerPurpose::Obstruction)]).unwrap());
    // one purpose registered under two datatypes (abstract layer id 104): which number an exporter picks must not vary
    l.add(raw::Layer::new(70, "dup").add_pairs(&[(20, LayerPurpose::Drawing), (44, LayerPurpose::Drawing), (5, LayerPurpose::Label), (16, LayerPurpose::Pin), (17, LayerPurpose::Pin)]).unwrap());
    l.add(raw::Layer::new(4, "met3").add_pairs(&[(0, LayerPurpose::Drawing), (11, LayerPurpose::Pin), (12, LayerPurpose::Label), (13, LayerPurpose::Obstruction)]).unwrap());
    l
}
pub fn purpose_of(s: &str) -> LayerPurpose {
    match s { "Drawing" => LayerPurpose::Drawing, "Pin" => LayerPurpose::Pin, "Label" => LayerPurpose::Label,
              "Obstruction" => LayerPurpose::Obstruction, "Outline" => LayerPurpose::Outline, _ => panic!("harness: purpose {s}") }
}
pub fn units_of(s: &str) -> raw::Units {
    match s { "Micro" => raw::Units::Micro, "Nano" => raw::Units::Nano, "Angstrom" => raw::Units::Angstrom, "Pico" => raw::Units::Pico, _ => panic!("units") }
}
fn rpts(v: &Value) -> Vec<Point> { v.as_array().unwrap().iter().map(|p| Point::new(p[0].as_i64().unwrap() as isize, p[1].as_i64().unwrap() as isize)).collect() }
pub fn shape_of(e: &Value) -> Shape {
    let p = rpts(&e["pts"]);
    match gets(e, "k") {
        "rect" => Shape::Rect(raw::Rect { p0: p[0], p1: p[1] }),
        "polygon" => Shape::Polygon(raw::Polygon { points: p }),
        "path" => Shape::Path(raw::Path { points: p, width: geti(e, "width") as usize }),
        k => panic!("harness: shape kind {k}"),
    }
}
/// abstract layer id -> key: 1..4 by GDSII number, 101.. by name (layers sharing the number 68)
pub fn lkey(layers: &Layers, n: i16) -> raw::LayerKey {
    match n { 101 => layers.keyname("li"), 102 => layers.keyname("mcon"), 103 => layers.keyname("licon"), 104 => layers.keyname("dup"), _ => layers.keynum(n) }.expect("harness: layer")
}
/// per-layer shape groups: either {"<layernum>": [shapes]} or [{layer, shapes}]
fn layer_groups(v: &Value) -> Vec<(i16, Vec<Value>)> {
    match v {
        Value::Object(o) => o.iter().map(|(k, s)| (k.parse().unwrap(), s.as_array().cloned().unwrap_or_default())).collect(),
        Value::Array(a) => a.iter().map(|g| (g["layer"].as_i64().unwrap() as i16, g["shapes"].as_array().cloned().unwrap_or_default())).collect(),
        _ => vec![],
    }
}
pub fn raw_lib_of(v: &Value) -> raw::Library {
    let layers = std_layers();
    let mut lib = raw::Library::new(gets(v, "name"), units_of(gets(v, "units")));
    // two passes: cells first (so that instances can point at cells listed later)
    let cells: Vec<Ptr<raw::Cell>> = geta(v, "cells").iter().map(|c| Ptr::new(raw::Cell::new(gets(c, "name")))).collect();
    let find = |n: &str| -> Ptr<raw::Cell> { geta(v, "cells").iter().position(|c| gets(c, "name") == n).map(|i| cells[i].clone()).expect("harness: unknown cell") };
    for (i, c) in geta(v, "cells").iter().enumerate() {
        let mut cell = cells[i].write().unwrap();
        if c.get("has_layout").map(|b| b.as_bool().unwrap_or(true)).unwrap_or(c.get("elems").is_some() || c.get("insts").is_some()) {
            let mut lay = raw::Layout::default();
            lay.name = c.get("lname").and_then(|v| v.as_str()).unwrap_or(gets(c, "name")).to_string();     // a view's own name (optional)
            for inst in geta(c, "insts") {
                let a = geti(inst, "angle");
                lay.insts.push(raw::Instance { inst_name: gets(inst, "name").into(), cell: find(gets(inst, "cell")),
                    loc: rpts(&json!([inst["loc"]]))[0], reflect_vert: getb(inst, "refl"), angle: if a < 0 { None } else { Some(a as f64) } });
            }
            for e in geta(c, "elems") {
                let net = gets(e, "net");
                lay.elems.push(raw::Element { net: if net.is_empty() { None } else { Some(net.into()) },
                    layer: lkey(&layers, geti(e, "layer") as i16), purpose: purpose_of(gets(e, "purpose")), inner: shape_of(e) });
            }
            for a in geta(c, "annots") {
                lay.annotations.push(raw::TextElement { string: gets(a, "str").into(), loc: rpts(&json!([a["at"]]))[0] });
            }
            cell.layout = Some(lay);
        }
        if let Some(a) = c.get("abs").and_then(|a| a.as_array()).and_then(|a| a.first()) {
            let mut ab = raw::Abstract::new(c.get("lname").and_then(|v| v.as_str()).unwrap_or(gets(c, "name")), raw::Polygon { points: rpts(&a["outline"]) });
            for p in geta(a, "ports") {
                let mut port = raw::AbstractPort::new(gets(p, "net"));
                for ls in layer_groups(&p["shapes"]) {
                    port.shapes.insert(lkey(&layers, ls.0), ls.1.iter().map(shape_of).collect());
                }
                ab.ports.push(port);
            }
            for ls in layer_groups(&a["blockages"]) {
                ab.blockages.insert(lkey(&layers, ls.0), ls.1.iter().map(shape_of).collect());
            }
            cell.abs = Some(ab);
        }
    }
    lib.layers = Ptr::new(layers);
    for c in cells { lib.cells.push(c); }
    lib
}

// ---------------------------------------------------------------------------------------------
// vlsir.raw messages <-> abstract JSON (specs/raw/RawProto.tla)
// ---------------------------------------------------------------------------------------------
use layout21protos as proto;
fn ppt(p: &Option<proto::raw::Point>) -> Value { p.as_ref().map(|p| json!([p.x, p.y])).unwrap_or(Value::Null) }
fn ppts(p: &[proto::raw::Point]) -> Value { json!(p.iter().map(|q| vec![q.x, q.y]).collect::<Vec<_>>()) }
fn layer_shapes_json(l: &proto::raw::LayerShapes) -> Value {
    json!({"layer": l.layer.as_ref().map(|x| json!([x.number, x.purpose])).unwrap_or(Value::Null),
           "rects": l.rectangles.iter().map(|r| json!({"net": r.net, "ll": ppt(&r.lower_left), "w": r.width, "h": r.height})).collect::<Vec<_>>(),
           "polys": l.polygons.iter().map(|r| json!({"net": r.net, "pts": ppts(&r.vertices)})).collect::<Vec<_>>(),
           "paths": l.paths.iter().map(|r| json!({"net": r.net, "pts": ppts(&r.points), "w": r.width})).collect::<Vec<_>>()})
}
pub fn proto_json(p: &proto::raw::Library) -> Value {
    let units = match proto::raw::Units::from_i32(p.units) { Some(proto::raw::Units::Micro) => "Micro", Some(proto::raw::Units::Nano) => "Nano",
                                                           Some(proto::raw::Units::Angstrom) => "Angstrom", None => "?" };
    json!({"domain": p.domain, "units": units, "cells": p.cells.iter().map(|c| json!({"name": c.name,
        "layout": c.layout.as_ref().map(|l| json!([{"name": l.name,
            "instances": l.instances.iter().map(|i| json!({"name": i.name,
                "cell": match i.cell.as_ref().and_then(|r| r.to.as_ref()) { Some(proto::utils::reference::To::Local(n)) => json!(n), _ => Value::Null },
                "loc": ppt(&i.origin_location), "refl": i.reflect_vert, "rot": i.rotation_clockwise_degrees})).collect::<Vec<_>>(),
            "annotations": l.annotations.iter().map(|a| json!({"str": a.string, "at": ppt(&a.loc)})).collect::<Vec<_>>(),
            "shapes": l.shapes.iter().map(layer_shapes_json).collect::<Vec<_>>()}])).unwrap_or(json!([])),
        "abs": c.r#abstract.as_ref().map(|a| json!([{"name": a.name,
            "outline": a.outline.as_ref().map(|o| json!({"net": o.net, "pts": ppts(&o.vertices)})).unwrap_or(Value::Null),
            "ports": a.ports.iter().map(|p| json!({"net": p.net, "shapes": p.shapes.iter().map(layer_shapes_json).collect::<Vec<_>>()})).collect::<Vec<_>>(),
            "blockages": a.blockages.iter().map(layer_shapes_json).collect::<Vec<_>>()}])).unwrap_or(json!([]))})).collect::<Vec<_>>()})
}
fn opt_pt(v: &Value) -> Option<proto::raw::Point> { if v.is_null() { None } else { Some(proto::raw::Point::new(v[0].as_i64().unwrap(), v[1].as_i64().unwrap())) } }
fn vec_pts(v: &Value) -> Vec<proto::raw::Point> { v.as_array().map(|a| a.iter().map(|p| proto::raw::Point::new(p[0].as_i64().unwrap(), p[1].as_i64().unwrap())).collect()).unwrap_or_default() }
fn layer_shapes_of(v: &Value) -> proto::raw::LayerShapes {
    proto::raw::LayerShapes { layer: if v["layer"].is_null() { None } else { Some(proto::raw::Layer::new(v["layer"][0].as_i64().unwrap(), v["layer"][1].as_i64().unwrap())) },
        rectangles: geta(v, "rects").iter().map(|r| proto::raw::Rectangle { net: gets(r, "net").into(), lower_left: opt_pt(&r["ll"]), width: geti(r, "w"), height: geti(r, "h") }).collect(),
        polygons: geta(v, "polys").iter().map(|r| proto::raw::Polygon { net: gets(r, "net").into(), vertices: vec_pts(&r["pts"]) }).collect(),
        paths: geta(v, "paths").iter().map(|r| proto::raw::Path { net: gets(r, "net").into(), points: vec_pts(&r["pts"]), width: geti(r, "w") }).collect() }
}
pub fn proto_of(v: &Value) -> proto::raw::Library {
    let mut p = proto::raw::Library::default();
    p.domain = gets(v, "domain").into();
    p.units = match gets(v, "units") { "Micro" => 0, "Nano" => 1, "Angstrom" => 2, _ => 99 };
    for c in geta(v, "cells") {
        let mut pc = proto::raw::Cell::default();
        pc.name = gets(c, "name").into();
        if let Some(l) = c["layout"].as_array().and_then(|a| a.first()) {
            pc.layout = Some(proto::raw::Layout { name: gets(l, "name").into(),
                shapes: geta(l, "shapes").iter().map(layer_shapes_of).collect(),
                instances: geta(l, "instances").iter().map(|i| proto::raw::Instance { name: gets(i, "name").into(),
                    cell: if i["cell"].is_null() { None } else { Some(proto::utils::Reference { to: Some(proto::utils::reference::To::Local(gets(i, "cell").into())) }) },
                    origin_location: opt_pt(&i["loc"]), reflect_vert: getb(i, "refl"), rotation_clockwise_degrees: geti(i, "rot") as i32 }).collect(),
                annotations: geta(l, "annotations").iter().map(|a| proto::raw::TextElement { string: gets(a, "str").into(), loc: opt_pt(&a["at"]) }).collect() });
        }
        if let Some(a) = c["abs"].as_array().and_then(|a| a.first()) {
            pc.r#abstract = Some(proto::raw::Abstract { name: gets(a, "name").into(),
                outline: if a["outline"].is_null() { None } else { Some(proto::raw::Polygon { net: gets(&a["outline"], "net").into(), vertices: vec_pts(&a["outline"]["pts"]) }) },
                ports: geta(a, "ports").iter().map(|p| proto::raw::AbstractPort { net: gets(p, "net").into(), shapes: geta(p, "shapes").iter().map(layer_shapes_of).collect() }).collect(),
                blockages: geta(a, "blockages").iter().map(layer_shapes_of).collect() });
        }
        p.cells.push(pc);
    }
    p
}
/// raw library -> abstract JSON incl. abstracts (layers by NUMBER)
pub fn raw_lib_json(lib: &raw::Library) -> Result<Value, String> {
    let layers = lib.layers.read().map_err(|_| "poisoned")?;
    let by_num = |m: &std::collections::HashMap<raw::LayerKey, Vec<Shape>>| -> Value {
        let mut o = Map::new();
        for (k, shapes) in m { o.insert(layers.get(*k).map(|l| l.layernum.to_string()).unwrap_or("?".into()), Value::Array(shapes.iter().map(shape_json).collect())); }
        Value::Object(o)
    };
    let mut cells = Vec::new();
    for c in lib.cells.iter() {
        let c = c.read().map_err(|_| "poisoned")?;
        let mut o = json!({"name": c.name, "has_layout": c.layout.is_some()});
        if let Some(l) = &c.layout {
            o["lname"] = json!(l.name);
            o["own"] = Value::Array(l.elems.iter().map(|e| { let lay = layers.get(e.layer); let mut v = shape_json(&e.inner);
                v["layer"] = json!(lay.map(|l| l.layernum)); v["dt"] = json!(lay.and_then(|l| l.num(&e.purpose))); v["net"] = json!(e.net); v }).collect());
            o["annots"] = Value::Array(l.annotations.iter().map(|a| json!({"str": a.string, "at": [a.loc.x, a.loc.y]})).collect());
            o["insts"] = Value::Array(l.insts.iter().map(|i| json!({"name": i.inst_name, "cell": i.cell.read().map(|c| c.name.clone()).unwrap_or_default(),
                "loc": [i.loc.x, i.loc.y], "refl": i.reflect_vert, "angle": i.angle})).collect());
        }
        if let Some(a) = &c.abs {
            o["abs"] = json!({"name": a.name, "outline": a.outline.points.iter().map(|q| vec![q.x, q.y]).collect::<Vec<_>>(),
                "ports": a.ports.iter().map(|p| json!({"net": p.net, "shapes": by_num(&p.shapes)})).collect::<Vec<_>>(), "blockages": by_num(&a.blockages)});
        }
        cells.push(o);
    }
    Ok(json!({"name": lib.name, "units": format!("{:?}", lib.units), "cells": cells}))
}
