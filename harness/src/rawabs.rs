//! layout21raw values -> abstract JSON (canonical forms of DESIGN.md §4), and constructors.
use layout21raw as raw;
use raw::{Layers, Shape};
use serde_json::{json, Map, Value};

pub fn shape_json(s: &Shape) -> Value {
    match s {
        Shape::Rect(r) => json!({"k":"rect","pts":[[r.p0.x, r.p0.y],[r.p1.x, r.p1.y]],"width":0}),
        Shape::Polygon(p) => json!({"k":"polygon","pts":p.points.iter().map(|q| vec![q.x, q.y]).collect::<Vec<_>>(),"width":0}),
        Shape::Path(p) => json!({"k":"path","pts":p.points.iter().map(|q| vec![q.x, q.y]).collect::<Vec<_>>(),"width":p.width}),
    }
}
fn by_layer_name(m: &std::collections::HashMap<raw::LayerKey, Vec<Shape>>, layers: &Layers) -> Value {
    let mut o = Map::new();
    for (k, shapes) in m {
        let name = layers.get_name(*k).cloned().unwrap_or_else(|| format!("<unnamed {:?}>", layers.get(*k).map(|l| l.layernum)));
        o.insert(name, Value::Array(shapes.iter().map(shape_json).collect()));
    }
    Value::Object(o)
}
pub fn abstract_json(a: &raw::Abstract, layers: &Layers) -> Value {
    json!({"name": a.name, "outline": a.outline.points.iter().map(|q| vec![q.x, q.y]).collect::<Vec<_>>(),
           "ports": a.ports.iter().map(|p| json!({"net": p.net, "shapes": by_layer_name(&p.shapes, layers)})).collect::<Vec<_>>(),
           "blockages": by_layer_name(&a.blockages, layers)})
}
/// empty TLA+ functions arrive as []: normalise empty arrays in map positions to {}
pub fn norm_maps(v: &Value) -> Value {
    match v {
        Value::Object(o) => Value::Object(o.iter().map(|(k, x)| {
            let x2 = if (k == "shapes" || k == "blockages") && x.as_array().map(|a| a.is_empty()).unwrap_or(false) { json!({}) } else { norm_maps(x) };
            (k.clone(), x2) }).collect()),
        Value::Array(a) => Value::Array(a.iter().map(norm_maps).collect()),
        x => x.clone(),
    }
}
