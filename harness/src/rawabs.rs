//! layout21raw values -> abstract JSON (canonical forms of DESIGN.md §4), and constructors.
use layout21raw as raw;
use raw::{Layers, Shape};
use serde_json::{json, Map, Value};

pub fn shape_json(s: &Shape) -> Value {
    match s {
        Shape::Rect(r) => json!({"k":"rect","pts":[[r.p0.x, r.p0.y],[r.p1.x, r.p1.y]],"width":0}),
        Shape::Polygon(p) => json!({"k":"polygon","pts":p.points.iter().map(|q| vec![q.x, q.y]).collect::<Vec<_>>(),"width":0}),
        Shape::Path(p) => json!({"k":"path","pts":p.points.iter().map(|q| vec![q.x, q.y]).collect::<Vec<_>>(),"width":p.width}),
    }
}
fn by_layer_name(m: &std::collections::HashMap<raw::LayerKey, Vec<Shape>>, layers: &Layers) -> Value {
    let mut o = Map::new();
    for (k, shapes) in m {
        let name = layers.get_name(*k).cloned().unwrap_or_else(|| format!("<unnamed {:?}>", layers.get(*k).map(|l| l.layernum)));
        o.insert(name, Value::Array(shapes.iter().map(shape_json).collect()));
    }
    Value::Object(o)
}
pub fn abstract_json(a: &raw::Abstract, layers: &Layers) -> Value {
    json!({"name": a.name, "outline": a.outline.points.iter().map(|q| vec![q.x, q.y]).collect::<Vec<_>>(),
           "ports": a.ports.iter().map(|p| json!({"net": p.net, "shapes": by_layer_name(&p.shapes, layers)})).collect::<Vec<_>>(),
           "blockages": by_layer_name(&a.blockages, layers)})
}
/// empty TLA+ functions arrive as []: normalise empty arrays in map positions to {}
pub fn norm_maps(v: &Value) -> Value {
    match v {
        Value::Object(o) => Value::Object(o.iter().map(|(k, x)| {
            let x2 = if (k == "shapes" || k == "blockages") && x.as_array().map(|a| a.is_empty()).unwrap_or(false) { json!({}) } else { norm_maps(x) };
            (k.clone(), x2) }).collect()),
        Value::Array(a) => Value::Array(a.iter().map(norm_maps).collect()),
        x => x.clone(),
    }
}

// ---------------------------------------------------------------------------------------------
// Constructors: abstract raw library (specs/raw/MC_RawGds.tla, RawProto.tla) -> raw::Library
// ---------------------------------------------------------------------------------------------
use crate::util::*;
use layout21utils::Ptr;
use raw::{LayerPurpose, Point};

/// The fixed layer table used by generated libraries: purposes carry distinct numbers so that a
/// layer/purpose mix-up is visible.
pub fn std_layers() -> Layers {
    let mut l = Layers::default();
    l.add(raw::Layer::new(1, "met1").add_pairs(&[(0, LayerPurpose::Drawing), (1, LayerPurpose::Pin), (2, LayerPurpose::Label), (3, LayerPurpose::Obstruction)]).unwrap());
    l.add(raw::Layer::new(2, "met2").add_pairs(&[(0, LayerPurpose::Drawing), (5, LayerPurpose::Pin), (7, LayerPurpose::Label), (9, LayerPurpose::Obstruction)]).unwrap());
    l.add(raw::Layer::new(3, "via1").add_pairs(&[(0, LayerPurpose::Drawing), (4, LayerPurpose::Pin), (6, LayerPurpose::Label), (8, LayerPurpose::Obstruction)]).unwrap());
    l.add(raw::Layer::new(4, "met3").add_pairs(&[(0, LayerPurpose::Drawing), (11, LayerPurpose::Pin), (12, LayerPurpose::Label), (13, LayerPurpose::Obstruction)]).unwrap());
    l
}
pub fn purpose_of(s: &str) -> LayerPurpose {
    match s { "Drawing" => LayerPurpose::Drawing, "Pin" => LayerPurpose::Pin, "Label" => LayerPurpose::Label,
              "Obstruction" => LayerPurpose::Obstruction, "Outline" => LayerPurpose::Outline, _ => panic!("harness: purpose {s}") }
}
pub fn units_of(s: &str) -> raw::Units {
    match s { "Micro" => raw::Units::Micro, "Nano" => raw::Units::Nano, "Angstrom" => raw::Units::Angstrom, "Pico" => raw::Units::Pico, _ => panic!("units") }
}
fn rpts(v: &Value) -> Vec<Point> { v.as_array().unwrap().iter().map(|p| Point::new(p[0].as_i64().unwrap() as isize, p[1].as_i64().unwrap() as isize)).collect() }
pub fn shape_of(e: &Value) -> Shape {
    let p = rpts(&e["pts"]);
    match gets(e, "k") {
        "rect" => Shape::Rect(raw::Rect { p0: p[0], p1: p[1] }),
        "polygon" => Shape::Polygon(raw::Polygon { points: p }),
        "path" => Shape::Path(raw::Path { points: p, width: geti(e, "width") as usize }),
        k => panic!("harness: shape kind {k}"),
    }
}
pub fn raw_lib_of(v: &Value) -> raw::Library {
    let layers = std_layers();
    let mut lib = raw::Library::new(gets(v, "name"), units_of(gets(v, "units")));
    // two passes: cells first (so that instances can point at cells listed later)
    let cells: Vec<Ptr<raw::Cell>> = geta(v, "cells").iter().map(|c| Ptr::new(raw::Cell::new(gets(c, "name")))).collect();
    let find = |n: &str| -> Ptr<raw::Cell> { geta(v, "cells").iter().position(|c| gets(c, "name") == n).map(|i| cells[i].clone()).expect("harness: unknown cell") };
    for (i, c) in geta(v, "cells").iter().enumerate() {
        let mut cell = cells[i].write().unwrap();
        if c.get("elems").is_some() || c.get("insts").is_some() {
            let mut lay = raw::Layout::default();
            lay.name = gets(c, "name").to_string();
            for inst in geta(c, "insts") {
                let a = geti(inst, "angle");
                lay.insts.push(raw::Instance { inst_name: gets(inst, "name").into(), cell: find(gets(inst, "cell")),
                    loc: rpts(&json!([inst["loc"]]))[0], reflect_vert: getb(inst, "refl"), angle: if a < 0 { None } else { Some(a as f64) } });
            }
            for e in geta(c, "elems") {
                let net = gets(e, "net");
                lay.elems.push(raw::Element { net: if net.is_empty() { None } else { Some(net.into()) },
                    layer: layers.keynum(geti(e, "layer") as i16).expect("layer"), purpose: purpose_of(gets(e, "purpose")), inner: shape_of(e) });
            }
            for a in geta(c, "annots") {
                lay.annotations.push(raw::TextElement { string: gets(a, "str").into(), loc: rpts(&json!([a["at"]]))[0] });
            }
            cell.layout = Some(lay);
        }
        if let Some(a) = c.get("abs").and_then(|a| a.as_array()).and_then(|a| a.first()) {
            let mut ab = raw::Abstract::new(gets(c, "name"), raw::Polygon { points: rpts(&a["outline"]) });
            for p in geta(a, "ports") {
                let mut port = raw::AbstractPort::new(gets(p, "net"));
                for (lnum, shapes) in p["shapes"].as_object().unwrap() {
                    port.shapes.insert(layers.keynum(lnum.parse().unwrap()).unwrap(), shapes.as_array().unwrap().iter().map(shape_of).collect());
                }
                ab.ports.push(port);
            }
            if let Some(b) = a["blockages"].as_object() {
                for (lnum, shapes) in b {
                    ab.blockages.insert(layers.keynum(lnum.parse().unwrap()).unwrap(), shapes.as_array().unwrap().iter().map(shape_of).collect());
                }
            }
            cell.abs = Some(ab);
        }
    }
    lib.layers = Ptr::new(layers);
    for c in cells { lib.cells.push(c); }
    lib
}
