//! raw-model converter commands (C06, C07, C14, C20).
use crate::rawabs::*;
use crate::util::*;
use crate::CmdFn;
use gds21::*;
use layout21raw as raw;
use serde_json::{json, Value};

pub fn commands() -> Vec<(&'static str, CmdFn)> {
    vec![("gds_to_raw", gds_to_raw), ("raw_gds_rt", raw_gds_rt), ("raw_proto", raw_proto)]
}

fn ipt(v: &Value) -> GdsPoint { GdsPoint::new(v[0].as_i64().unwrap() as i32, v[1].as_i64().unwrap() as i32) }
fn ipts(v: &Value) -> Vec<GdsPoint> { v.as_array().map(|a| a.iter().map(ipt).collect()).unwrap_or_default() }
fn strans_of(e: &Value) -> Option<GdsStrans> {
    let refl = getb(e, "refl");
    let ang = geti(e, "angle");
    let mag = gets(e, "mag");
    if !refl && ang == 0 && mag == "none" { return None; }
    Some(GdsStrans { reflected: refl, abs_mag: mag == "absmag", abs_angle: mag == "absangle",
        mag: match mag { "mag1" => Some(1.0), "mag2" => Some(2.0), _ => None },
        angle: if ang != 0 { Some(ang as f64) } else { None } })
}
/// simple abstract GDS (specs/raw/GdsSemantics.tla) -> GdsLibrary
pub fn simple_gds(lib: &Value) -> GdsLibrary {
    let mut g = GdsLibrary::new("lib");
    for s in lib.as_array().unwrap() {
        let mut st = GdsStruct::new(gets(s, "name"));
        for e in geta(s, "elems") {
            let l = |k: &str| e.get(k).and_then(|x| x.as_i64()).unwrap_or(0) as i16;
            let el: GdsElement = match gets(e, "k") {
                "boundary" => GdsBoundary { layer: l("layer"), datatype: l("dt"), xy: ipts(&e["pts"]), ..Default::default() }.into(),
                "box" => { let p = ipts(&e["pts"]); GdsBox { layer: l("layer"), boxtype: l("dt"),
                           xy: [p[0].clone(), p[1].clone(), p[2].clone(), p[3].clone(), p[4].clone()], ..Default::default() }.into() }
                "path" => GdsPath { layer: l("layer"), datatype: l("dt"), width: Some(geti(e, "width") as i32), xy: ipts(&e["pts"]), ..Default::default() }.into(),
                "sref" => GdsStructRef { name: gets(e, "name").into(), xy: ipt(&e["at"]), strans: strans_of(e), ..Default::default() }.into(),
                "aref" => GdsArrayRef { name: gets(e, "name").into(), xy: [ipt(&e["o"]), ipt(&e["c"]), ipt(&e["w"])], cols: l("cols"), rows: l("rows"),
                                        strans: strans_of(e), ..Default::default() }.into(),
                "text" => GdsTextElem { string: gets(e, "str").into(), layer: l("layer"), texttype: l("tt"), xy: ipt(&e["at"]), ..Default::default() }.into(),
                k => panic!("harness: element kind {k}"),
            };
            st.elems.push(el);
        }
        g.structs.push(st);
    }
    g
}
pub fn elem_json(e: &raw::Element, layers: &raw::Layers) -> Value {
    let lay = layers.get(e.layer);
    let mut v = shape_json(&e.inner);
    v["layer"] = json!(lay.map(|l| l.layernum));
    v["dt"] = json!(lay.and_then(|l| l.num(&e.purpose)));
    v["net"] = json!(e.net);
    v
}
pub fn raw_cells_json(lib: &raw::Library) -> Result<Value, String> {
    let layers = lib.layers.read().map_err(|_| "poisoned")?;
    let mut cells = Vec::new();
    for c in lib.cells.iter() {
        let c = c.read().map_err(|_| "poisoned")?;
        let mut o = json!({"name": c.name});
        if let Some(l) = &c.layout {
            let flat = match guarded(|| l.flatten()) {
                Err(p) => json!({"panic": p}),
                Ok(Err(e)) => json!({"err": err_str(e)}),
                Ok(Ok(f)) => Value::Array(f.iter().map(|e| elem_json(e, &layers)).collect()),
            };
            o["flat"] = flat;
            o["own"] = Value::Array(l.elems.iter().map(|e| elem_json(e, &layers)).collect());
            o["annots"] = Value::Array(l.annotations.iter().map(|a| json!({"str": a.string, "at": [a.loc.x, a.loc.y]})).collect());
            o["insts"] = Value::Array(l.insts.iter().map(|i| json!({"name": i.inst_name, "cell": i.cell.read().map(|c| c.name.clone()).unwrap_or_default(),
                "loc": [i.loc.x, i.loc.y], "refl": i.reflect_vert, "angle": i.angle})).collect());
        }
        cells.push(o);
    }
    Ok(Value::Array(cells))
}

/// C06 S->I: {lib: simple abstract GDS} -> import -> per-cell flat geometry, own elements with nets, annotations
fn gds_to_raw(case: &Value) -> Value {
    let g = simple_gds(&case["lib"]);
    match guarded(|| raw::Library::from_gds(&g, None)) {
        Err(p) => json!({"id": id(case), "outcome":"panic", "msg": p}),
        Ok(Err(e)) => json!({"id": id(case), "outcome":"err", "msg": err_str(e)}),
        Ok(Ok(lib)) => match raw_cells_json(&lib) {
            Ok(c) => json!({"id": id(case), "outcome":"ok", "cells": c, "units": format!("{:?}", lib.units)}),
            Err(e) => json!({"id": id(case), "outcome":"ok", "cells": [], "glue": e}),
        },
    }
}

fn gds_elem_abs(e: &GdsElement) -> Value {
    let blank = json!({"k":"", "layer":0, "dt":0, "pts":[], "width":0, "name":"", "at":[0,0], "refl":false, "angle":0, "str":""});
    let mut o = blank;
    let p = |v: &Vec<GdsPoint>| json!(v.iter().map(|q| vec![q.x, q.y]).collect::<Vec<_>>());
    match e {
        GdsElement::GdsBoundary(b) => { o["k"] = json!("boundary"); o["layer"] = json!(b.layer); o["dt"] = json!(b.datatype); o["pts"] = p(&b.xy); }
        GdsElement::GdsPath(b) => { o["k"] = json!("path"); o["layer"] = json!(b.layer); o["dt"] = json!(b.datatype); o["pts"] = p(&b.xy); o["width"] = json!(b.width.unwrap_or(-1)); }
        GdsElement::GdsStructRef(b) => { o["k"] = json!("sref"); o["name"] = json!(b.name); o["at"] = json!([b.xy.x, b.xy.y]);
            if let Some(s) = &b.strans { o["refl"] = json!(s.reflected); o["angle"] = json!(s.angle.map(|a| a.round() as i64).unwrap_or(0));
                if s.mag.is_some() || s.abs_mag || s.abs_angle || s.angle.map(|a| a.fract() != 0.0).unwrap_or(false) { o["k"] = json!("sref-with-extras"); } } }
        GdsElement::GdsTextElem(b) => { o["k"] = json!("text"); o["layer"] = json!(b.layer); o["dt"] = json!(b.texttype); o["at"] = json!([b.xy.x, b.xy.y]); o["str"] = json!(b.string); }
        GdsElement::GdsArrayRef(_) => { o["k"] = json!("aref"); }
        GdsElement::GdsNode(_) => { o["k"] = json!("node"); }
        GdsElement::GdsBox(_) => { o["k"] = json!("box"); }
    }
    o
}

/// C07: abstract raw library -> to_gds (recorded per cell for the I->S validation) -> from_gds -> projections
fn raw_gds_rt(case: &Value) -> Value {
    let lib = raw_lib_of(&case["lib"]);
    let before = match raw_cells_json(&lib) { Ok(v) => v, Err(e) => return json!({"id": id(case), "outcome":"glue", "msg": e}) };
    let g = match guarded(|| lib.to_gds()) {
        Err(p) => return json!({"id": id(case), "outcome":"export-panic", "msg": p}),
        Ok(Err(e)) => return json!({"id": id(case), "outcome":"export-err", "msg": err_str(e)}),
        Ok(Ok(g)) => g,
    };
    // the exported structure of every cell, with the raw cell in numeric form
    let layers = lib.layers.read().unwrap();
    let mut exported = Vec::new();
    for c in lib.cells.iter() {
        let c = c.read().unwrap();
        let Some(l) = &c.layout else { continue };
        let st = g.structs.iter().find(|s| s.name == c.name);
        let rawcell = json!({"name": c.name,
            "insts": l.insts.iter().map(|i| json!({"cell": i.cell.read().unwrap().name, "loc": [i.loc.x, i.loc.y], "refl": i.reflect_vert,
                                                   "angle": i.angle.map(|a| a.round() as i64).unwrap_or(0)})).collect::<Vec<_>>(),
            "elems": l.elems.iter().map(|e| { let lay = layers.get(e.layer).unwrap(); let mut v = shape_json(&e.inner);
                v["layer"] = json!(lay.layernum); v["purpose"] = json!(lay.num(&e.purpose)); v["label"] = json!(lay.num(&raw::LayerPurpose::Label));
                v["net"] = json!(e.net.clone().unwrap_or_default()); v }).collect::<Vec<_>>()});
        exported.push(json!({"cell": rawcell, "gds": st.map(|s| s.elems.iter().map(gds_elem_abs).collect::<Vec<_>>()), "struct_found": st.is_some()}));
    }
    drop(layers);
    let units_gds = [g.units.0.to_bits(), g.units.1.to_bits()];
    let back = match guarded(|| raw::Library::from_gds(&g, None)) {
        Err(p) => json!({"outcome":"import-panic","msg":p}),
        Ok(Err(e)) => json!({"outcome":"import-err","msg":err_str(e)}),
        Ok(Ok(l2)) => json!({"outcome":"ok","units": format!("{:?}", l2.units), "name": l2.name, "cells": raw_cells_json(&l2).unwrap_or(json!([]))}),
    };
    json!({"id": id(case), "outcome":"ok", "units": format!("{:?}", lib.units), "name": lib.name, "before": before, "exported": exported,
           "units_gds": units_gds, "back": back})
}

/// C14: {lib (abstract raw), proto (the message RawProto.tla assigns)}
fn raw_proto(case: &Value) -> Value {
    let lib = raw_lib_of(&case["lib"]);
    let before = raw_lib_json(&lib).unwrap();
    let mut out = json!({"id": id(case), "outcome":"ok", "before": before});
    // raw -> proto
    let p = match guarded(|| lib.to_proto()) {
        Err(m) => { out["export"] = json!({"outcome":"panic","msg":m}); None }
        Ok(Err(e)) => { out["export"] = json!({"outcome":"err","msg":err_str(e)}); None }
        Ok(Ok(p)) => { out["export"] = json!({"outcome":"ok","proto": proto_json(&p)}); Some(p) }
    };
    // proto -> raw (round trip of the crate's own message)
    if let Some(p) = p {
        out["back"] = match guarded(|| raw::Library::from_proto(p, None)) {
            Err(m) => json!({"outcome":"panic","msg":m}),
            Ok(Err(e)) => json!({"outcome":"err","msg":err_str(e)}),
            Ok(Ok(l2)) => json!({"outcome":"ok","lib": raw_lib_json(&l2).unwrap()}),
        };
    }
    // the specification's message -> raw -> proto must be the same message
    if !case["proto"].is_null() && getb(case, "in_schema") {
        let sp = proto_of(&case["proto"]);
        // the message's layer/purpose NUMBERS get their meaning from the layer table, as for any vlsir.raw consumer
        let table = layout21utils::Ptr::new(std_layers());
        out["canon"] = match guarded(|| raw::Library::from_proto(sp, Some(table))) {
            Err(m) => json!({"outcome":"import-panic","msg":m}),
            Ok(Err(e)) => json!({"outcome":"import-err","msg":err_str(e)}),
            Ok(Ok(l)) => match guarded(|| l.to_proto()) {
                Err(m) => json!({"outcome":"export-panic","msg":m}),
                Ok(Err(e)) => json!({"outcome":"export-err","msg":err_str(e)}),
                Ok(Ok(p2)) => json!({"outcome":"ok","proto": proto_json(&p2)}),
            },
        };
    }
    out
}
