//! C18 — markup round trips (filled in by the C18 check).
use crate::CmdFn;
pub fn commands() -> Vec<(&'static str, CmdFn)> { vec![] }
