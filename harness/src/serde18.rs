//! C18 — JSON / YAML copies of GDSII and LEF libraries, through the library's own helpers
//! (SerializationFormat::{to_string, from_str, save, open}).
use crate::gdsabs;
use crate::lefabs;
use crate::util::*;
use crate::CmdFn;
use gds21::*;
use layout21utils::SerializationFormat;
use serde_json::{json, Value};

pub fn commands() -> Vec<(&'static str, CmdFn)> {
    vec![("serde_gds", serde_gds), ("serde_lef", serde_lef), ("serde_values", serde_values)]
}
fn fmt_of(s: &str) -> SerializationFormat { match s { "json" => SerializationFormat::Json, "yaml" => SerializationFormat::Yaml, _ => panic!("fmt") } }

fn rt_gds(lib: &GdsLibrary, fmt: &str, via: &str, tmp: &str) -> Value {
    let f = fmt_of(fmt);
    let back: Result<GdsLibrary, String> = match via {
        "string" => f.to_string(lib).map_err(|e| format!("ser: {e}")).and_then(|s| f.from_str::<GdsLibrary>(&s).map_err(|e| format!("de: {e}"))),
        _ => { let p = format!("{tmp}/v.{fmt}"); f.save(lib, &p).map_err(|e| format!("save: {e}")).and_then(|_| f.open::<GdsLibrary>(&p).map_err(|e| format!("open: {e}"))) }
    };
    match back {
        Err(e) => json!({"outcome":"err","msg": e.chars().take(300).collect::<String>()}),
        Ok(b) => {
            let d = json_diff(&gdsabs::lib_json(lib), &gdsabs::lib_json(&b), "");     // doubles compare as bit patterns here
            let bytes_eq = match (crate::gdscmds::write_bytes(lib), crate::gdscmds::write_bytes(&b)) { (Ok(x), Ok(y)) => json!(x == y), _ => Value::Null };
            json!({"outcome":"ok","eq": *lib == b, "proj_eq": d.is_none(), "diff": d.map(|d| json!([d.0, d.1, d.2])), "bytes_eq": bytes_eq})
        }
    }
}
fn serde_gds(case: &Value) -> Value {
    let lib = gdsabs::lib_of(&case["lib"]);
    let tmp = gets(case, "tmp");
    let mut out = json!({"id": id(case), "outcome":"ok"});
    let mut rs = Vec::new();
    for fmt in ["json", "yaml"] { for via in ["string", "file"] {
        let r = match guarded(|| rt_gds(&lib, fmt, via, tmp)) { Ok(v) => v, Err(p) => json!({"outcome":"panic","msg":p}) };
        rs.push(json!({"fmt": fmt, "via": via, "r": r}));
    }}
    out["results"] = json!(rs);
    out
}
fn rt_lef(lib: &lef21::LefLibrary, fmt: &str, via: &str, tmp: &str) -> Value {
    let f = fmt_of(fmt);
    let back: Result<lef21::LefLibrary, String> = match via {
        "string" => f.to_string(lib).map_err(|e| format!("ser: {e}")).and_then(|s| f.from_str::<lef21::LefLibrary>(&s).map_err(|e| format!("de: {e}"))),
        _ => { let p = format!("{tmp}/l.{fmt}"); f.save(lib, &p).map_err(|e| format!("save: {e}")).and_then(|_| f.open::<lef21::LefLibrary>(&p).map_err(|e| format!("open: {e}"))) }
    };
    match back {
        Err(e) => json!({"outcome":"err","msg": e.chars().take(300).collect::<String>()}),
        Ok(b) => { let d = json_diff(&lefabs::lib_json(lib), &lefabs::lib_json(&b), "");
                   json!({"outcome":"ok","eq": *lib == b, "proj_eq": d.is_none(), "diff": d.map(|d| json!([d.0, d.1, d.2]))}) }
    }
}
fn serde_lef(case: &Value) -> Value {
    let text = lefabs::render(geta(case, "toks"), 0, 0, 1);
    let lib = match lef21::verif::parse_str(&text) { Ok(l) => l, Err(e) => return json!({"id": id(case), "outcome":"ok", "skipped": err_str(e)}) };
    let tmp = gets(case, "tmp");
    let mut rs = Vec::new();
    for fmt in ["json", "yaml"] { for via in ["string", "file"] {
        let r = match guarded(|| rt_lef(&lib, fmt, via, tmp)) { Ok(v) => v, Err(p) => json!({"outcome":"panic","msg":p}) };
        rs.push(json!({"fmt": fmt, "via": via, "r": r}));
    }}
    json!({"id": id(case), "outcome":"ok", "results": rs})
}

pub const SPECIALS: &[&str] = &["\"", "a\"b", ":", "a: b", "#", "a #b", "# c", "\\", "a\\nb", " lead", "trail ", "  ", "\n", "a\nb", "line1\n  line2\n", "\t", "a\tb",
    "é", "中文", "😀", "", "~", "null", "Null", "true", "no", "yes", "on", "1.0", "1e3", "0x1F", "-", "- a", "?", "| ", ">", "%", "@x", "&a", "*a", "!t", "{", "[", ",", "{a: b}", "[1, 2]",
    "'", "''", "key: 'v'", "`", "---", "...", "0", "007", "+1", ".5", "1_000", "2001-01-01", "\u{feff}x", "\r", "a\r\nb", "\u{85}", "\u{2028}"];

/// special strings and random doubles patched into every string / double field: {seed, n, fmt}
fn serde_values(case: &Value) -> Value {
    let mut rng = Rng::new(geti(case, "seed") as u64);
    let n = geti(case, "n");
    let tmp = gets(case, "tmp");
    let mut problems: Vec<Value> = Vec::new();
    let mut ndoubles = 0u64; let mut nstrings = 0u64;
    // ---- strings, one library per special string (all string fields at once)
    for (i, s) in SPECIALS.iter().enumerate() {
        let mut lib = GdsLibrary::new(*s);
        lib.set_all_dates(GdsDateTime { year: 100, month: 1, day: 1, hour: 0, minute: 0, second: 0 });
        let mut st = GdsStruct::new(format!("{s}{i}"));
        st.dates = lib.dates.clone();
        st.elems.push(GdsTextElem { string: s.to_string(), layer: 1, texttype: 0, xy: GdsPoint::new(0, 0),
                                    properties: vec![GdsProperty { attr: 1, value: s.to_string() }], ..Default::default() }.into());
        st.elems.push(GdsStructRef { name: s.to_string(), xy: GdsPoint::new(1, 1), ..Default::default() }.into());
        lib.structs.push(st);
        let mut lef = lef21::LefLibrary::new();
        let mut m = lef21::LefMacro::new(*s);
        m.site = Some(s.to_string()); m.eeq = Some(s.to_string());
        m.properties.push(lef21::LefProperty { name: s.to_string(), value: s.to_string() });
        let mut pin = lef21::LefPin::default(); pin.name = s.to_string(); pin.net_expr = Some(s.to_string()); pin.taper_rule = Some(s.to_string());
        m.pins.push(pin);
        lef.macros.push(m);
        lef.extensions.push(lef21::LefExtension { name: s.to_string(), data: s.to_string() });
        if let Some(c) = s.chars().next() { lef.divider_char = Some(c); lef.bus_bit_chars = Some((c, s.chars().last().unwrap())); }
        for fmt in ["json", "yaml"] { for via in ["string", "file"] {
            nstrings += 2;
            let r = match guarded(|| rt_gds(&lib, fmt, via, tmp)) { Ok(v) => v, Err(p) => json!({"outcome":"panic","msg":p}) };
            if !(r["outcome"] == "ok" && r["eq"] == true && r["proj_eq"] == true) { problems.push(json!({"kind":"string","crate":"gds21","value": s, "fmt": fmt, "via": via, "r": r})); }
            let r = match guarded(|| rt_lef(&lef, fmt, via, tmp)) { Ok(v) => v, Err(p) => json!({"outcome":"panic","msg":p}) };
            if !(r["outcome"] == "ok" && r["eq"] == true && r["proj_eq"] == true) { problems.push(json!({"kind":"string","crate":"lef21","value": s, "fmt": fmt, "via": via, "r": r})); }
        }}
    }
    // ---- doubles: random in-range bit patterns in units / mag / angle, never parsed from text by the harness
    let mut per_fmt = std::collections::BTreeMap::new();
    for k in 0..n {
        let mut lib = GdsLibrary::new("d");
        lib.set_all_dates(GdsDateTime { year: 100, month: 1, day: 1, hour: 0, minute: 0, second: 0 });
        let mut rd = |rng: &mut Rng| { let e = (rng.range(-250, 250) + 1023) as u64; f64::from_bits((rng.below(2) << 63) | (e << 52) | (rng.next() & ((1u64 << 52) - 1))) };
        lib.units = GdsUnits(rd(&mut rng), rd(&mut rng));
        let mut st = GdsStruct::new("s"); st.dates = lib.dates.clone();
        for _ in 0..8 {
            st.elems.push(GdsStructRef { name: "x".into(), xy: GdsPoint::new(0, 0),
                strans: Some(GdsStrans { mag: Some(rd(&mut rng)), angle: Some(rd(&mut rng)), ..Default::default() }), ..Default::default() }.into());
        }
        lib.structs.push(st);
        let fmt = if k % 2 == 0 { "json" } else { "yaml" };
        ndoubles += 18;
        let r = match guarded(|| rt_gds(&lib, fmt, "string", tmp)) { Ok(v) => v, Err(p) => json!({"outcome":"panic","msg":p}) };
        if !(r["outcome"] == "ok" && r["proj_eq"] == true) {
            *per_fmt.entry(fmt).or_insert(0u64) += 1;
            if problems.len() < 40 { problems.push(json!({"kind":"double","crate":"gds21","fmt": fmt, "via":"string", "r": r})); }
        }
    }
    // ---- neutral / identity-like values (what a "skip if it is the default anyway" predicate would drop): every pair of
    //      them as explicit MAG / ANGLE of a struct reference, an array reference and a text, and as units
    let neutral = [0.0f64, -0.0, 1.0, -1.0, 2.0, 0.5, 90.0, 180.0, 270.0, 360.0, 1e-3, 1e-9];
    for (i, a) in neutral.iter().enumerate() { for (j, b) in neutral.iter().enumerate() {
        let mut lib = GdsLibrary::new("n");
        lib.set_all_dates(GdsDateTime { year: 100, month: 1, day: 1, hour: 0, minute: 0, second: 0 });
        if *a > 0.0 && *b > 0.0 { lib.units = GdsUnits(*a, *b); }
        let mut st = GdsStruct::new("s"); st.dates = lib.dates.clone();
        let variants = [GdsStrans { mag: Some(*a), angle: Some(*b), ..Default::default() }, GdsStrans { mag: Some(*a), ..Default::default() },
                        GdsStrans { angle: Some(*b), ..Default::default() }, GdsStrans { reflected: true, mag: Some(*a), angle: Some(*b), ..Default::default() }];
        for v in variants.iter() {
            st.elems.push(GdsStructRef { name: "x".into(), xy: GdsPoint::new(0, 0), strans: Some(v.clone()), ..Default::default() }.into());
            st.elems.push(GdsArrayRef { name: "x".into(), xy: [GdsPoint::new(0, 0), GdsPoint::new(10, 0), GdsPoint::new(0, 10)], cols: 1, rows: 1, strans: Some(v.clone()), ..Default::default() }.into());
            st.elems.push(GdsTextElem { string: "t".into(), layer: 0, texttype: 0, xy: GdsPoint::new(0, 0), strans: Some(v.clone()), ..Default::default() }.into());
        }
        lib.structs.push(st);
        let fmt = if (i + j) % 2 == 0 { "json" } else { "yaml" };
        ndoubles += 26;
        let r = match guarded(|| rt_gds(&lib, fmt, "string", tmp)) { Ok(v) => v, Err(p) => json!({"outcome":"panic","msg":p}) };
        if !(r["outcome"] == "ok" && r["eq"] == true && r["proj_eq"] == true) {
            if problems.len() < 60 { problems.push(json!({"kind":"neutral","crate":"gds21","fmt": fmt, "via":"string", "value": format!("mag {a:?} angle {b:?}"), "r": r})); }
        }
    }}
    // ---- large files: hundreds of structures with 2-, 3- and 4-byte characters in every name, so that multi-byte characters
    //      sit at every alignment relative to any buffer size a reader might use; string and file interfaces, both formats
    if geti(case, "id") == 0 {
        let mut lib = GdsLibrary::new("big µ");
        lib.set_all_dates(GdsDateTime { year: 100, month: 1, day: 1, hour: 0, minute: 0, second: 0 });
        for i in 0..600 {
            let mut st = GdsStruct::new(format!("{}配線層µm—Ωλ😀_{i}", "x".repeat(i % 7)));
            st.dates = lib.dates.clone();
            st.elems.push(GdsTextElem { string: format!("é中😀{}", i), layer: 1, texttype: 0, xy: GdsPoint::new(i as i32, 0), ..Default::default() }.into());
            lib.structs.push(st);
        }
        let mut lef = lef21::LefLibrary::new();
        for i in 0..400 { let mut m = lef21::LefMacro::new(format!("{}セル_µ😀_{i}", "y".repeat(i % 5))); m.site = Some("コア".into()); lef.macros.push(m); }
        for fmt in ["json", "yaml"] { for via in ["string", "file"] {
            nstrings += 2;
            let r = match guarded(|| rt_gds(&lib, fmt, via, tmp)) { Ok(v) => v, Err(p) => json!({"outcome":"panic","msg":p}) };
            if !(r["outcome"] == "ok" && r["eq"] == true && r["proj_eq"] == true) { problems.push(json!({"kind":"string","crate":"gds21","value": "large library, multi-byte names", "fmt": fmt, "via": via, "r": trunc(&r)})); }
            let r = match guarded(|| rt_lef(&lef, fmt, via, tmp)) { Ok(v) => v, Err(p) => json!({"outcome":"panic","msg":p}) };
            if !(r["outcome"] == "ok" && r["eq"] == true && r["proj_eq"] == true) { problems.push(json!({"kind":"string","crate":"lef21","value": "large library, multi-byte names", "fmt": fmt, "via": via, "r": trunc(&r)})); }
        }}
    }
    // ---- LEF decimals in many spellings keep value AND are equal after the trip
    json!({"id": id(case), "outcome":"ok", "strings_checked": nstrings, "doubles_checked": ndoubles, "libs_with_double_loss": per_fmt, "problems": problems})
}
