//! layout21tetris commands (C08, C09, C19).
use crate::util::*;
use crate::CmdFn;
use layout21protos as proto;
use layout21tetris as t;
use layout21utils::Ptr;
use proto::tetris as tp;
use serde_json::{json, Value};

pub fn commands() -> Vec<(&'static str, CmdFn)> {
    let mut v: Vec<(&'static str, CmdFn)> = vec![("tetris_proto", tetris_proto)];
    v.extend(crate::tetris2::commands());
    v
}

fn ivec2(v: &Value) -> (i64, i64) { (v[0].as_i64().unwrap(), v[1].as_i64().unwrap()) }
fn outline_of(o: &Value) -> t::outline::Outline {
    let x: Vec<isize> = ivec(&o["x"]).into_iter().map(|v| v as isize).collect();
    let y: Vec<isize> = ivec(&o["y"]).into_iter().map(|v| v as isize).collect();
    t::outline::Outline::new(&x, &y).expect("harness: generated outline must be valid")
}
fn cross_of(a: &Value) -> t::tracks::TrackCross {
    let (l, tr) = ivec2(&a["track"]); let (l2, t2) = ivec2(&a["cross"]);
    t::tracks::TrackCross::from_parts(l as usize, tr as usize, l2 as usize, t2 as usize)
}
/// abstract tetris library (specs/tetris/TetrisProto.tla) -> tetris::Library
pub fn tetris_lib_of(v: &Value) -> t::library::Library {
    let mut lib = t::library::Library::new(gets(v, "name"));
    let cells: Vec<Ptr<t::cell::Cell>> = geta(v, "cells").iter().map(|c| Ptr::new(t::cell::Cell::new(gets(c, "name")))).collect();
    let find = |n: &str| geta(v, "cells").iter().position(|c| gets(c, "name") == n).map(|i| cells[i].clone()).expect("cell");
    for (i, c) in geta(v, "cells").iter().enumerate() {
        // a view's own name (optional "lname"; by default the cell's)
        let vname = c.get("lname").and_then(|v| v.as_str()).unwrap_or(gets(c, "name"));
        let mut lay = t::layout::Layout::new(vname, geti(c, "metals") as usize, outline_of(&c["outline"]));
        for inst in geta(c, "insts") {
            let (x, y) = ivec2(&inst["loc"]);
            lay.instances.add(t::instance::Instance { inst_name: gets(inst, "name").into(), cell: find(gets(inst, "cell")),
                loc: (x as isize, y as isize).into(), reflect_horiz: getb(inst, "rh"), reflect_vert: getb(inst, "rv") });
        }
        for a in geta(c, "assigns") { lay.assignments.push(t::stack::Assign::new(gets(a, "net"), cross_of(a))); }
        for a in geta(c, "cuts") { lay.cuts.push(cross_of(a)); }
        if c.get("view").and_then(|v| v.as_str()) == Some("abs") {
            cells[i].write().unwrap().abs = Some(t::abs::Abstract::new(vname, geti(c, "metals") as usize, outline_of(&c["outline"])));
        } else {
            cells[i].write().unwrap().layout = Some(lay);
        }
    }
    for c in cells { lib.cells.push(c); }
    lib
}
fn tref(r: &t::tracks::TrackRef) -> Value { json!([r.layer, r.track]) }
pub fn tetris_lib_json(lib: &t::library::Library) -> Value {
    json!({"name": lib.name, "cells": lib.cells.iter().map(|c| { let c = c.read().unwrap();
        match &c.layout {
          None => match &c.abs { None => json!({"name": c.name, "no_layout": true}),
                   Some(a) => json!({"name": c.name, "view": "abs", "aname": a.name, "metals": a.metals, "nports": a.ports.len(),
                       "outline": {"x": a.outline.x.iter().map(|p| p.num).collect::<Vec<_>>(), "y": a.outline.y.iter().map(|p| p.num).collect::<Vec<_>>()}}) },
          Some(l) => json!({"name": c.name, "lname": l.name, "metals": l.metals,
            "outline": {"x": l.outline.x.iter().map(|p| p.num).collect::<Vec<_>>(), "y": l.outline.y.iter().map(|p| p.num).collect::<Vec<_>>()},
            "insts": l.instances.iter().map(|i| { let i = i.read().unwrap(); json!({"name": i.inst_name, "cell": i.cell.read().unwrap().name,
                "loc": match &i.loc { t::placement::Place::Abs(xy) => json!([xy.x.num, xy.y.num]), _ => json!("relative") }, "rh": i.reflect_horiz, "rv": i.reflect_vert}) }).collect::<Vec<_>>(),
            "assigns": l.assignments.iter().map(|a| json!({"net": a.net, "track": tref(&a.at.track), "cross": tref(&a.at.cross)})).collect::<Vec<_>>(),
            "cuts": l.cuts.iter().map(|a| json!({"track": tref(&a.track), "cross": tref(&a.cross)})).collect::<Vec<_>>()}) } }).collect::<Vec<_>>()})
}
fn ptref(r: &Option<tp::TrackRef>) -> Value { r.as_ref().map(|r| json!([r.layer, r.track])).unwrap_or(Value::Null) }
fn pcross(c: &tp::TrackCross) -> Value { json!({"track": ptref(&c.track), "cross": ptref(&c.cross)}) }
pub fn tproto_json(p: &tp::Library) -> Value {
    json!({"domain": p.domain, "cells": p.cells.iter().map(|c| json!({"name": c.name,
        "abstract": c.r#abstract.as_ref().map(|a| json!([{"name": a.name, "nports": a.ports.len(),
            "outline": a.outline.as_ref().map(|o| json!({"x": o.x, "y": o.y, "metals": o.metals})).unwrap_or(Value::Null)}])).unwrap_or(json!([])),
        "layout": c.layout.as_ref().map(|l| json!([{"name": l.name,
            "outline": l.outline.as_ref().map(|o| json!({"x": o.x, "y": o.y, "metals": o.metals})).unwrap_or(Value::Null),
            "instances": l.instances.iter().map(|i| json!({"name": i.name,
                "cell": match i.cell.as_ref().and_then(|r| r.to.as_ref()) { Some(proto::utils::reference::To::Local(n)) => json!(n), _ => Value::Null },
                "loc": match i.loc.as_ref().and_then(|p| p.place.as_ref()) { Some(tp::place::Place::Abs(p)) => json!([p.x, p.y]), Some(_) => json!("relative"), None => Value::Null },
                "rh": i.reflect_horiz, "rv": i.reflect_vert})).collect::<Vec<_>>(),
            "assignments": l.assignments.iter().map(|a| json!({"net": a.net, "at": a.at.as_ref().map(pcross).unwrap_or(Value::Null)})).collect::<Vec<_>>(),
            "cuts": l.cuts.iter().map(pcross).collect::<Vec<_>>()}])).unwrap_or(json!([]))})).collect::<Vec<_>>()})
}
fn ptref_of(v: &Value) -> Option<tp::TrackRef> { if v.is_null() { None } else { Some(tp::TrackRef { layer: v[0].as_i64().unwrap(), track: v[1].as_i64().unwrap() }) } }
fn pcross_of(v: &Value) -> tp::TrackCross { tp::TrackCross { track: ptref_of(&v["track"]), cross: ptref_of(&v["cross"]) } }
/// abstract message -> tp::Library, with one optional breakage applied
pub fn tproto_of(v: &Value, brk: Option<&Value>) -> tp::Library {
    let mut p = tp::Library::default();
    p.domain = gets(v, "domain").into();
    for (ci, c) in geta(v, "cells").iter().enumerate() {
        let mut pc = tp::Cell::default();
        pc.name = gets(c, "name").into();
        let here = |what: &str, k: usize| brk.map(|b| gets(b, "what") == what && geti(b, "ci") as usize == ci + 1 && (geti(b, "k") as usize == k || k == 0)).unwrap_or(false);
        if let Some(l) = c["layout"].as_array().and_then(|a| a.first()) {
            let o = &l["outline"];
            let mut ox = ivec(&o["x"]); let mut oy = ivec(&o["y"]);
            if here("outline-x-increasing", 0) { ox = vec![2, 3]; oy = vec![1, 2]; }
            if here("outline-y-decreasing", 0) { ox = vec![3, 2]; oy = vec![2, 1]; }
            if here("outline-lengths-differ", 0) { ox.push(0); }
            if here("outline-negative", 0) { ox[0] = -1; }
            if here("outline-empty", 0) { ox.clear(); oy.clear(); }
            let outline = if here("no-outline", 0) { None } else { Some(tp::Outline { x: ox, y: oy, metals: geti(o, "metals") }) };
            let mut pl = tp::Layout { name: gets(l, "name").into(), outline, ..Default::default() };
            for (k, i) in geta(l, "instances").iter().enumerate() {
                let (x, y) = ivec2(&i["loc"]);
                let place = if here("no-place", k + 1) { None } else if here("relative-place", k + 1) { Some(tp::place::Place::Rel(tp::RelPlace::default())) }
                            else { Some(tp::place::Place::Abs(proto::raw::Point::new(x, y))) };
                let loc = if here("no-loc", k + 1) { None } else { Some(tp::Place { place }) };
                let to = if here("no-cell-target", k + 1) { None }
                         else if here("undefined-cell", k + 1) { Some(proto::utils::reference::To::Local("no_such_cell".into())) }
                         else if here("external-cell", k + 1) { Some(proto::utils::reference::To::External(proto::utils::QualifiedName { domain: "d".into(), name: "n".into() })) }
                         else { Some(proto::utils::reference::To::Local(gets(i, "cell").into())) };
                let cell = if here("no-cell", k + 1) { None } else { Some(proto::utils::Reference { to }) };
                pl.instances.push(tp::Instance { name: gets(i, "name").into(), cell, loc, reflect_horiz: getb(i, "rh"), reflect_vert: getb(i, "rv") });
            }
            for (k, a) in geta(l, "assignments").iter().enumerate() {
                let mut at = pcross_of(&a["at"]);
                if here("assign-no-track", k + 1) { at.track = None; }
                if here("assign-no-cross", k + 1) { at.cross = None; }
                pl.assignments.push(tp::Assign { net: gets(a, "net").into(), at: if here("assign-no-at", k + 1) { None } else { Some(at) } });
            }
            for (k, a) in geta(l, "cuts").iter().enumerate() {
                let mut at = pcross_of(a);
                if here("cut-no-track", k + 1) { at.track = None; }
                if here("cut-no-cross", k + 1) { at.cross = None; }
                pl.cuts.push(at);
            }
            pc.layout = Some(pl);
        }
        if let Some(a) = c.get("abstract").and_then(|a| a.as_array()).and_then(|a| a.first()) {
            let o = &a["outline"];
            pc.r#abstract = Some(tp::Abstract { name: gets(a, "name").into(), outline: Some(tp::Outline { x: ivec(&o["x"]), y: ivec(&o["y"]), metals: geti(o, "metals") }), ..Default::default() });
        }
        p.cells.push(pc);
    }
    p
}

/// C19: {lib, proto, breakages}
fn tetris_proto(case: &Value) -> Value {
    let lib = tetris_lib_of(&case["lib"]);
    let before = tetris_lib_json(&lib);
    let mut out = json!({"id": id(case), "outcome":"ok", "before": before});
    match guarded(|| t::conv::proto::ProtoExporter::export(&lib)) {
        Err(m) => out["export"] = json!({"outcome":"panic","msg":m}),
        Ok(Err(e)) => out["export"] = json!({"outcome":"err","msg":err_str(e)}),
        Ok(Ok(p)) => {
            out["export"] = json!({"outcome":"ok","proto": tproto_json(&p)});
            out["back"] = match guarded(|| t::conv::proto::ProtoLibImporter::import(&p)) {
                Err(m) => json!({"outcome":"panic","msg":m}),
                Ok(Err(e)) => json!({"outcome":"err","msg":err_str(e)}),
                Ok(Ok(l2)) => json!({"outcome":"ok","lib": tetris_lib_json(&l2)}),
            };
        }
    }
    // the specification's message, intact and with every single breakage
    let intact = tproto_of(&case["proto"], None);
    out["canon"] = match guarded(|| t::conv::proto::ProtoLibImporter::import(&intact)) {
        Err(m) => json!({"outcome":"panic","msg":m}),
        Ok(Err(e)) => json!({"outcome":"err","msg":err_str(e)}),
        Ok(Ok(l)) => match guarded(|| t::conv::proto::ProtoExporter::export(&l)) {
            Ok(Ok(p2)) => json!({"outcome":"ok","proto": tproto_json(&p2)}),
            Ok(Err(e)) => json!({"outcome":"export-err","msg":err_str(e)}),
            Err(m) => json!({"outcome":"export-panic","msg":m}),
        },
    };
    let mut broken = Vec::new();
    for b in geta(case, "breakages") {
        let p = tproto_of(&case["proto"], Some(b));
        let r = match guarded(|| t::conv::proto::ProtoLibImporter::import(&p)) {
            Err(m) => json!({"outcome":"panic","msg":m}),
            Ok(Err(_)) => json!({"outcome":"err"}),
            Ok(Ok(_)) => json!({"outcome":"ok"}),
        };
        broken.push(json!({"b": b, "r": r}));
    }
    out["broken"] = json!(broken);
    out
}
