//! C08 / C09 commands (tracks, placer, compile-to-raw).
use crate::CmdFn;
pub fn commands() -> Vec<(&'static str, CmdFn)> { vec![] }
