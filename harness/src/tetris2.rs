//! C08 / C09 commands: relative placement, track operations, compile-to-raw.
use crate::util::*;
use crate::CmdFn;
use layout21raw as raw;
use layout21tetris as t;
use layout21utils::Ptr;
use serde_json::{json, Value};
use t::placement::{Align, Place, Placeable, RelativePlace, SepBy, Separation, Side};
use t::coords::{PrimPitches, UnitSpeced};

pub fn commands() -> Vec<(&'static str, CmdFn)> {
    vec![("placer", placer), ("track_ops", track_ops), ("tetris_compile", tetris_compile)]
}

fn side_of(s: &str) -> Side { match s { "Left" => Side::Left, "Right" => Side::Right, "Top" => Side::Top, "Bottom" => Side::Bottom, _ => panic!("side") } }
fn empty_stack() -> t::validate::ValidStack {
    let mut rawlayers = raw::Layers::default();
    let boundary_layer = Some(rawlayers.add(raw::Layer::from_pairs(0, &[(0, raw::LayerPurpose::Outline)]).unwrap()));
    t::stack::Stack { units: raw::Units::default(), boundary_layer, prim: t::stack::PrimitiveLayer::new((100, 100).into()),
        metals: Vec::new(), vias: Vec::new(), rawlayers: Some(Ptr::new(rawlayers)) }.validate().unwrap()
}

/// C09: {cells: {name: [w,h]}, insts: [...], arrays: [...]} -> placed instances of the top cell, in placement order
fn placer(case: &Value) -> Value {
    let mut lib = t::library::Library::new("plib");
    let mut cellmap: std::collections::HashMap<String, Ptr<t::cell::Cell>> = Default::default();
    for (name, wh) in case["cells"].as_object().unwrap() {
        // the cell's outline: stepped where the specification says so (its bounding box is [w, h]), a rectangle otherwise
        let outline = match case.get("outlines").and_then(|o| o.get(name)) {
            Some(o) => { let x: Vec<isize> = ivec(&o["x"]).into_iter().map(|v| v as isize).collect(); let y: Vec<isize> = ivec(&o["y"]).into_iter().map(|v| v as isize).collect();
                         t::outline::Outline::new(&x, &y).expect("harness: outline") }
            None => t::outline::Outline::rect(wh[0].as_i64().unwrap() as isize, wh[1].as_i64().unwrap() as isize).unwrap(),
        };
        let lay = t::layout::Layout::new(name.clone(), 0, outline);
        let p = lib.cells.add(t::cell::Cell::from(lay));
        cellmap.insert(name.clone(), p);
    }
    let mut top = t::layout::Layout::new("top", 0, t::outline::Outline::rect(1000, 1000).unwrap());
    // first pass: create all instances with a dummy place, so that relations can point at instances listed later
    let insts: Vec<Ptr<t::instance::Instance>> = geta(case, "insts").iter().map(|i| Ptr::new(t::instance::Instance {
        inst_name: gets(i, "name").into(), cell: cellmap[gets(i, "cell")].clone(), loc: (0isize, 0isize).into(),
        reflect_horiz: getb(i, "rh"), reflect_vert: getb(i, "rv") })).collect();
    let by_name = |n: &str| geta(case, "insts").iter().position(|i| gets(i, "name") == n).map(|k| insts[k].clone()).unwrap();
    for (k, i) in geta(case, "insts").iter().enumerate() {
        let pl = &i["place"];
        let place: Place<t::coords::Xy<PrimPitches>> = if gets(pl, "k") == "abs" {
            (pl["xy"][0].as_i64().unwrap() as isize, pl["xy"][1].as_i64().unwrap() as isize).into()
        } else {
            let side = side_of(gets(pl, "side"));
            let horiz = matches!(side, Side::Left | Side::Right);
            let dir = if horiz { raw::Dir::Horiz } else { raw::Dir::Vert };
            let sepby = match gets(&pl["sep"], "k") {
                "none" => None,
                "pitches" => Some(SepBy::UnitSpeced(UnitSpeced::PrimPitches(PrimPitches::new(dir, geti(&pl["sep"], "n") as isize)))),
                "sizeof" => Some(SepBy::SizeOf(cellmap[gets(&pl["sep"], "cell")].clone())),
                _ => panic!("sep"),
            };
            let sep = if horiz { Separation::new(sepby, None, None) } else { Separation::new(None, sepby, None) };
            Place::Rel(RelativePlace { to: Placeable::Instance(by_name(gets(pl, "to"))), side, align: Align::Side(side_of(gets(pl, "align"))), sep })
        };
        insts[k].write().unwrap().loc = place;
    }
    // `via_places`: how the instances are handed to the placer must not matter.  0: the `instances` list; 1: the general `places`
    // list as Placeable::Instance, each preceded by two Port placeables of that instance (which need no placement of their
    // own); 2: half and half
    let via = case.get("via_places").and_then(|v| v.as_i64()).unwrap_or(0);
    for (k, p) in insts.iter().enumerate() {
        if via == 0 || (via == 2 && k % 2 == 0) { top.instances.push(p.clone()); }
        else {
            top.places.push(Placeable::Port { inst: p.clone(), port: "A".into() });
            top.places.push(Placeable::Port { inst: p.clone(), port: "B".into() });
            top.places.push(Placeable::Instance(p.clone()));
        }
    }
    // array instances with equal definitions share ONE definition object (unless the case says `share_defs: false`)
    let share = case.get("share_defs").and_then(|v| v.as_bool()).unwrap_or(true);
    let mut defs: std::collections::HashMap<String, Ptr<t::array::Array>> = Default::default();
    for a in geta(case, "arrays") {
        let sepxy = (a["sep"][0].as_i64().unwrap() as isize, a["sep"][1].as_i64().unwrap() as isize);
        let mk_sep = |s: (isize, isize)| Separation::new(
            if s.0 != 0 { Some(SepBy::UnitSpeced(UnitSpeced::PrimPitches(PrimPitches::x(s.0)))) } else { None },
            if s.1 != 0 { Some(SepBy::UnitSpeced(UnitSpeced::PrimPitches(PrimPitches::y(s.1)))) } else { None }, None);
        let unit = match a["inner"].as_array().and_then(|x| x.first()) {
            None => t::array::Arrayable::Instance(cellmap[gets(a, "cell")].clone()),
            Some(inner) => t::array::Arrayable::Array(Ptr::new(t::array::Array { name: "inner".into(), unit: t::array::Arrayable::Instance(cellmap[gets(a, "cell")].clone()),
                count: geti(inner, "count") as usize, sep: mk_sep((inner["sep"][0].as_i64().unwrap() as isize, inner["sep"][1].as_i64().unwrap() as isize)) })),
        };
        let arr = t::array::Array { name: "arrdef".into(), unit, count: geti(a, "count") as usize, sep: mk_sep(sepxy) };
        let key = format!("{}|{}|{}|{}", a["cell"], a["count"], a["sep"], a["inner"]);
        let def = if share { defs.entry(key).or_insert_with(|| Ptr::new(arr)).clone() } else { Ptr::new(arr) };
        let ai = t::array::ArrayInstance { name: gets(a, "name").into(), array: def,
            loc: (a["xy"][0].as_i64().unwrap() as isize, a["xy"][1].as_i64().unwrap() as isize).into(), reflect_vert: getb(a, "rv"), reflect_horiz: getb(a, "rh") };
        top.places.push(Placeable::Array(Ptr::new(ai)));
    }
    let topptr = lib.cells.add(t::cell::Cell::from(top));
    match guarded(|| t::placer::Placer::place(lib, empty_stack())) {
        Err(p) => json!({"id": id(case), "outcome":"panic","msg":p}),
        Ok(Err(e)) => json!({"id": id(case), "outcome":"err","msg":err_str(e)}),
        Ok(Ok(_)) => {
            let c = topptr.read().unwrap();
            let l = c.layout.as_ref().unwrap();
            let placed: Vec<Value> = l.instances.iter().map(|i| { let i = i.read().unwrap();
                json!({"name": i.inst_name, "cell": i.cell.read().unwrap().name, "rh": i.reflect_horiz, "rv": i.reflect_vert,
                       "xy": match &i.loc { Place::Abs(xy) => json!([xy.x.num, xy.y.num]), Place::Rel(_) => json!("relative") }}) }).collect();
            json!({"id": id(case), "outcome":"ok","placed": placed, "places_left": l.places.len()})
        }
    }
}

fn segs_json(tr: &t::tracks::Track) -> Value {
    use t::tracks::TrackSegmentType::*;
    Value::Array(tr.segments.iter().map(|s| { let (tp, net) = match &s.tp {
            Cut { .. } => ("cut", String::new()), Blockage { .. } => ("block", String::new()),
            Wire { src } => ("wire", src.map(|a| a.net.clone()).unwrap_or_default()), Rail(_) => ("rail", String::new()) };
        json!({"tp": tp, "start": s.start.0, "stop": s.stop.0, "net": net}) }).collect())
}
/// C08 level 1: {span, kind, hist:[{op:{op,a,b,net}, ...}]} -> outcome and segments after every operation
fn track_ops(case: &Value) -> Value {
    use t::coords::DbUnits;
    use t::tracks::*;
    let span = geti(case, "span") as isize;
    let rail = gets(case, "kind") == "rail";
    let cross: &'static TrackCross = Box::leak(Box::new(TrackCross::from_parts(0, 0, 1, 0)));
    let leafcell = Ptr::new(t::cell::Cell::new("c"));
    let inst = Ptr::new(t::instance::Instance { inst_name: "i".into(), cell: leafcell, loc: (0isize, 0isize).into(), reflect_horiz: false, reflect_vert: false });
    let mut tr = Track { data: TrackData { ttype: if rail { TrackType::Rail(RailKind::Gnd) } else { TrackType::Signal }, index: 0, dir: raw::Dir::Horiz, start: DbUnits(0), width: DbUnits(2) },
        segments: vec![TrackSegment { tp: if rail { TrackSegmentType::Rail(RailKind::Gnd) } else { TrackSegmentType::Wire { src: None } }, start: DbUnits(0), stop: DbUnits(span) }] };
    let mut steps = Vec::new();
    for h in geta(case, "hist") {
        let o = &h["op"];
        let (a, b) = (geti(o, "a") as isize, geti(o, "b") as isize);
        let r = match gets(o, "op") {
            "cut" => tr.cut(DbUnits(a), DbUnits(b), cross),
            "block" => tr.block(DbUnits(a), DbUnits(b), &inst),
            "setnet" => { let assn: &'static t::stack::Assign = Box::leak(Box::new(t::stack::Assign::new(gets(o, "net"), *cross))); tr.set_net(DbUnits(a), assn) }
            _ => panic!("op"),
        };
        steps.push(json!({"outcome": match r { Ok(()) => "ok".to_string(), Err(e) => format!("err: {:?}", e).chars().take(60).collect() }, "segs": segs_json(&tr)}));
    }
    json!({"id": id(case), "outcome":"ok", "steps": steps})
}
/// abstract stack (specs/tetris/TetrisCompile.tla) -> ValidStack.  Metal i gets raw layer number 10+i with datatypes 0..3, via i
/// (between metal i and i+1) the SAME number with datatypes 44..47; compiled elements are attributed by layer KEY.
fn stack_of(s: &Value) -> Result<t::validate::ValidStack, String> {
    use t::stack::*;
    use t::tracks::*;
    let mut rawlayers = raw::Layers::default();
    let purps = [(0, raw::LayerPurpose::Drawing), (1, raw::LayerPurpose::Pin), (2, raw::LayerPurpose::Label), (3, raw::LayerPurpose::Obstruction)];
    let boundary_layer = Some(rawlayers.add(raw::Layer::from_pairs(0, &[(0, raw::LayerPurpose::Outline)]).unwrap()));
    let mut metals = Vec::new();
    for (i, m) in geta(s, "metals").iter().enumerate() {
        let entries = geta(m, "entries").iter().map(|e| { let w = geti(e, "w") as isize;
            match gets(e, "tt") { "sig" => TrackSpec::sig(w), "gap" => TrackSpec::gap(w), "pwr" => TrackSpec::pwr(w), "gnd" => TrackSpec::gnd(w), _ => panic!("tt") } }).collect();
        metals.push(MetalLayer { name: format!("met{i}"), dir: if gets(m, "dir") == "H" { raw::Dir::Horiz } else { raw::Dir::Vert },
            cutsize: (geti(m, "cutsize") as isize).into(), entries, offset: (geti(m, "offset") as isize).into(), overlap: (geti(m, "overlap") as isize).into(),
            flip: if getb(m, "flip") { FlipMode::EveryOther } else { FlipMode::None }, prim: PrimitiveMode::Stack,
            raw: Some(rawlayers.add(raw::Layer::from_pairs(10 + i as i16, &purps).unwrap())) });
    }
    let mut vias = Vec::new();
    for (i, v) in geta(s, "vias").iter().enumerate() {
        vias.push(ViaLayer { name: format!("via{i}"), top: ViaTarget::Metal(i + 1), bot: ViaTarget::Metal(i), size: (geti(v, "sx") as isize, geti(v, "sy") as isize).into(),
            // as in real technologies (sky130: met1 68/20, via1 68/44) a via layer SHARES its GDSII layer number with the metal
            // below it and differs in the datatypes: distinct layers of the stack must stay distinct whatever their numbers
            raw: Some(rawlayers.add(raw::Layer::from_pairs(10 + i as i16, &[(44, raw::LayerPurpose::Drawing), (45, raw::LayerPurpose::Pin),
                                                                            (46, raw::LayerPurpose::Label), (47, raw::LayerPurpose::Obstruction)]).unwrap())) });
    }
    Stack { units: raw::Units::Nano, prim: PrimitiveLayer::new((geti(s, "px") as isize, geti(s, "py") as isize).into()), metals, vias,
            rawlayers: Some(Ptr::new(rawlayers)), boundary_layer }.validate().map_err(err_str)
}
fn gridded_lib_of(c: &Value) -> (t::library::Library, Ptr<t::cell::Cell>) {
    let mut lib = t::library::Library::new("glib");
    let mut top = t::layout::Layout::new("top", geti(c, "metals") as usize, t::outline::Outline::rect(geti(c, "nx") as isize, geti(c, "ny") as isize).unwrap());
    // `parent_first`: the top cell is listed BEFORE the cells it instantiates (the order of the library must not matter)
    let parent_first = c.get("parent_first").and_then(|b| b.as_bool()).unwrap_or(false);
    let mut late: Vec<Ptr<t::cell::Cell>> = Vec::new();
    for (k, i) in geta(c, "insts").iter().enumerate() {
        let leaf = t::layout::Layout::new(format!("leaf{k}"), geti(i, "m") as usize, t::outline::Outline::rect(geti(i, "w") as isize, geti(i, "h") as isize).unwrap());
        let lp = if parent_first { let p = Ptr::new(t::cell::Cell::from(leaf)); late.push(p.clone()); p } else { lib.cells.add(t::cell::Cell::from(leaf)) };
        top.instances.add(t::instance::Instance { inst_name: format!("i{k}"), cell: lp, loc: (geti(i, "x") as isize, geti(i, "y") as isize).into(),
            reflect_horiz: getb(i, "rh"), reflect_vert: getb(i, "rv") });
    }
    for x in geta(c, "cuts") { top.cuts.push(t::tracks::TrackCross::from_parts(geti(x, "l") as usize, geti(x, "t") as usize, geti(x, "cl") as usize, geti(x, "ct") as usize)); }
    for a in geta(c, "assigns") { top.assignments.push(t::stack::Assign::new(gets(a, "net"),
        t::tracks::TrackCross::from_parts(geti(a, "l") as usize, geti(a, "t") as usize, geti(a, "cl") as usize, geti(a, "ct") as usize))); }
    let tp = lib.cells.add(t::cell::Cell::from(top));
    for p in late { lib.cells.push(p); }
    (lib, tp)
}
fn compile(case: &Value) -> Result<Value, String> {
    let stack = stack_of(&case["stack"])?;
    let nm = geta(&case["stack"], "metals").len();
    let mkeys: Vec<raw::LayerKey> = (0..nm).map(|i| stack.metal(i).unwrap().raw.unwrap()).collect();
    let vkeys: Vec<raw::LayerKey> = (0..geta(&case["stack"], "vias").len()).map(|i| stack.via(i).unwrap().raw.unwrap()).collect();
    let (lib, _) = gridded_lib_of(&case["cell"]);
    let rawlib = lib.to_raw(stack).map_err(err_str)?;
    let rl = rawlib.read().map_err(|_| "poisoned".to_string())?;
    let layers = rl.layers.read().map_err(|_| "poisoned".to_string())?;
    let top = rl.cells.iter().find(|c| c.read().unwrap().name == "top").ok_or("no top cell")?.clone();
    let top = top.read().unwrap();
    let lay = top.layout.as_ref().ok_or("top has no layout")?;
    let mut rects = Vec::new();
    for e in &lay.elems {
        let _ = &layers;
        let layer: i64 = if let Some(i) = mkeys.iter().position(|k| *k == e.layer) { i as i64 }
                         else if let Some(i) = vkeys.iter().position(|k| *k == e.layer) { 100 + i as i64 } else { -1 };
        match &e.inner {
            raw::Shape::Rect(r) => rects.push(json!({"layer": layer, "rect": [r.p0.x.min(r.p1.x), r.p0.y.min(r.p1.y), r.p0.x.max(r.p1.x), r.p0.y.max(r.p1.y)],
                                                     "raw": [r.p0.x, r.p0.y, r.p1.x, r.p1.y], "net": e.net.clone().unwrap_or_default()})),
            other => rects.push(json!({"layer": layer, "other": format!("{:?}", other)})),
        }
    }
    let cells: Vec<String> = rl.cells.iter().map(|c| c.read().unwrap().name.clone()).collect();
    let inst_targets: Vec<String> = lay.insts.iter().map(|i| i.cell.read().unwrap().name.clone()).collect();
    Ok(json!({"rects": rects, "insts": lay.insts.len(), "cells": cells, "inst_targets": inst_targets}))
}
/// C08 level 2: {stack, cell} -> rectangles of the compiled top cell
fn tetris_compile(case: &Value) -> Value {
    match guarded(|| compile(case)) {
        Err(p) => json!({"id": id(case), "outcome":"panic","msg":p}),
        Ok(Err(e)) => json!({"id": id(case), "outcome":"err","msg":e}),
        Ok(Ok(v)) => json!({"id": id(case), "outcome":"ok","rects": v["rects"], "insts": v["insts"]}),
    }
}
pub fn compile_digest(input: &Value) -> Result<String, String> { compile(input).map(|v| v.to_string()) }
