//! C08 / C09 commands (tracks, placer, compile-to-raw).
use crate::CmdFn;
pub fn commands() -> Vec<(&'static str, CmdFn)> { vec![] }

pub fn compile_digest(_input: &serde_json::Value) -> Result<String, String> { Err("not built yet".into()) }
