//! C08 / C09 commands: relative placement, track operations, compile-to-raw.
use crate::util::*;
use crate::CmdFn;
use layout21raw as raw;
use layout21tetris as t;
use layout21utils::Ptr;
use serde_json::{json, Value};
use t::placement::{Align, Place, Placeable, RelativePlace, SepBy, Separation, Side};
use t::coords::{PrimPitches, UnitSpeced};

pub fn commands() -> Vec<(&'static str, CmdFn)> {
    vec![("placer", placer), ("track_ops", track_ops), ("tetris_compile", tetris_compile)]
}

fn side_of(s: &str) -> Side { match s { "Left" => Side::Left, "Right" => Side::Right, "Top" => Side::Top, "Bottom" => Side::Bottom, _ => panic!("side") } }
fn empty_stack() -> t::validate::ValidStack {
    let mut rawlayers = raw::Layers::default();
    let boundary_layer = Some(rawlayers.add(raw::Layer::from_pairs(0, &[(0, raw::LayerPurpose::Outline)]).unwrap()));
    t::stack::Stack { units: raw::Units::default(), boundary_layer, prim: t::stack::PrimitiveLayer::new((100, 100).into()),
        metals: Vec::new(), vias: Vec::new(), rawlayers: Some(Ptr::new(rawlayers)) }.validate().unwrap()
}

/// C09: {cells: {name: [w,h]}, insts: [...], arrays: [...]} -> placed instances of the top cell, in placement order
fn placer(case: &Value) -> Value {
    let mut lib = t::library::Library::new("plib");
    let mut cellmap: std::collections::HashMap<String, Ptr<t::cell::Cell>> = Default::default();
    for (name, wh) in case["cells"].as_object().unwrap() {
        let lay = t::layout::Layout::new(name.clone(), 0, t::outline::Outline::rect(wh[0].as_i64().unwrap() as isize, wh[1].as_i64().unwrap() as isize).unwrap());
        let p = lib.cells.add(t::cell::Cell::from(lay));
        cellmap.insert(name.clone(), p);
    }
    let mut top = t::layout::Layout::new("top", 0, t::outline::Outline::rect(1000, 1000).unwrap());
    // first pass: create all instances with a dummy place, so that relations can point at instances listed later
    let insts: Vec<Ptr<t::instance::Instance>> = geta(case, "insts").iter().map(|i| Ptr::new(t::instance::Instance {
        inst_name: gets(i, "name").into(), cell: cellmap[gets(i, "cell")].clone(), loc: (0isize, 0isize).into(),
        reflect_horiz: getb(i, "rh"), reflect_vert: getb(i, "rv") })).collect();
    let by_name = |n: &str| geta(case, "insts").iter().position(|i| gets(i, "name") == n).map(|k| insts[k].clone()).unwrap();
    for (k, i) in geta(case, "insts").iter().enumerate() {
        let pl = &i["place"];
        let place: Place<t::coords::Xy<PrimPitches>> = if gets(pl, "k") == "abs" {
            (pl["xy"][0].as_i64().unwrap() as isize, pl["xy"][1].as_i64().unwrap() as isize).into()
        } else {
            let side = side_of(gets(pl, "side"));
            let horiz = matches!(side, Side::Left | Side::Right);
            let dir = if horiz { raw::Dir::Horiz } else { raw::Dir::Vert };
            let sepby = match gets(&pl["sep"], "k") {
                "none" => None,
                "pitches" => Some(SepBy::UnitSpeced(UnitSpeced::PrimPitches(PrimPitches::new(dir, geti(&pl["sep"], "n") as isize)))),
                "sizeof" => Some(SepBy::SizeOf(cellmap[gets(&pl["sep"], "cell")].clone())),
                _ => panic!("sep"),
            };
            let sep = if horiz { Separation::new(sepby, None, None) } else { Separation::new(None, sepby, None) };
            Place::Rel(RelativePlace { to: Placeable::Instance(by_name(gets(pl, "to"))), side, align: Align::Side(side_of(gets(pl, "align"))), sep })
        };
        insts[k].write().unwrap().loc = place;
    }
    for p in &insts { top.instances.push(p.clone()); }
    for a in geta(case, "arrays") {
        let sepxy = (a["sep"][0].as_i64().unwrap() as isize, a["sep"][1].as_i64().unwrap() as isize);
        let mk_sep = |s: (isize, isize)| Separation::new(
            if s.0 != 0 { Some(SepBy::UnitSpeced(UnitSpeced::PrimPitches(PrimPitches::x(s.0)))) } else { None },
            if s.1 != 0 { Some(SepBy::UnitSpeced(UnitSpeced::PrimPitches(PrimPitches::y(s.1)))) } else { None }, None);
        let unit = match a["inner"].as_array().and_then(|x| x.first()) {
            None => t::array::Arrayable::Instance(cellmap[gets(a, "cell")].clone()),
            Some(inner) => t::array::Arrayable::Array(Ptr::new(t::array::Array { name: "inner".into(), unit: t::array::Arrayable::Instance(cellmap[gets(a, "cell")].clone()),
                count: geti(inner, "count") as usize, sep: mk_sep((inner["sep"][0].as_i64().unwrap() as isize, inner["sep"][1].as_i64().unwrap() as isize)) })),
        };
        let arr = t::array::Array { name: "arrdef".into(), unit, count: geti(a, "count") as usize, sep: mk_sep(sepxy) };
        let ai = t::array::ArrayInstance { name: gets(a, "name").into(), array: Ptr::new(arr),
            loc: (a["xy"][0].as_i64().unwrap() as isize, a["xy"][1].as_i64().unwrap() as isize).into(), reflect_vert: getb(a, "rv"), reflect_horiz: getb(a, "rh") };
        top.places.push(Placeable::Array(Ptr::new(ai)));
    }
    let topptr = lib.cells.add(t::cell::Cell::from(top));
    match guarded(|| t::placer::Placer::place(lib, empty_stack())) {
        Err(p) => json!({"id": id(case), "outcome":"panic","msg":p}),
        Ok(Err(e)) => json!({"id": id(case), "outcome":"err","msg":err_str(e)}),
        Ok(Ok(_)) => {
            let c = topptr.read().unwrap();
            let l = c.layout.as_ref().unwrap();
            let placed: Vec<Value> = l.instances.iter().map(|i| { let i = i.read().unwrap();
                json!({"name": i.inst_name, "cell": i.cell.read().unwrap().name, "rh": i.reflect_horiz, "rv": i.reflect_vert,
                       "xy": match &i.loc { Place::Abs(xy) => json!([xy.x.num, xy.y.num]), Place::Rel(_) => json!("relative") }}) }).collect();
            json!({"id": id(case), "outcome":"ok","placed": placed, "places_left": l.places.len()})
        }
    }
}

fn track_ops(_case: &Value) -> Value { json!({"outcome":"todo"}) }
fn tetris_compile(_case: &Value) -> Value { json!({"outcome":"todo"}) }
pub fn compile_digest(_input: &Value) -> Result<String, String> { Err("not built yet".into()) }
