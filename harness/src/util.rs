//! Small helpers shared by the command modules.
use serde_json::{json, Value};

pub fn geti(v: &Value, k: &str) -> i64 {
    v.get(k).and_then(|x| x.as_i64()).unwrap_or_else(|| panic!("harness: missing int field {k} in {v}"))
}
pub fn gets<'a>(v: &'a Value, k: &str) -> &'a str {
    v.get(k).and_then(|x| x.as_str()).unwrap_or_else(|| panic!("harness: missing str field {k} in {v}"))
}
pub fn getb(v: &Value, k: &str) -> bool {
    v.get(k).and_then(|x| x.as_bool()).unwrap_or(false)
}
pub fn geta<'a>(v: &'a Value, k: &str) -> &'a Vec<Value> {
    static EMPTY: Vec<Value> = Vec::new();
    match v.get(k) {
        Some(Value::Array(a)) => a,
        _ => &EMPTY,
    }
}
pub fn ivec(v: &Value) -> Vec<i64> {
    v.as_array().map(|a| a.iter().map(|x| x.as_i64().unwrap()).collect()).unwrap_or_default()
}
pub fn id(v: &Value) -> Value {
    v.get("id").cloned().unwrap_or(Value::Null)
}
pub fn err_str<E: std::fmt::Debug>(e: E) -> String {
    let s = format!("{:?}", e);
    if s.chars().count() > 300 { s.chars().take(300).collect() } else { s }
}
/// Tiny deterministic RNG (xorshift*), so that generated inputs do not depend on crate versions.
pub struct Rng(pub u64);
impl Rng {
    pub fn new(seed: u64) -> Self { Rng(seed.wrapping_mul(0x9E3779B97F4A7C15) | 1) }
    pub fn next(&mut self) -> u64 {
        let mut x = self.0;
        x ^= x >> 12; x ^= x << 25; x ^= x >> 27;
        self.0 = x;
        x.wrapping_mul(0x2545F4914F6CDD1D)
    }
    pub fn below(&mut self, n: u64) -> u64 { if n == 0 { 0 } else { self.next() % n } }
    pub fn range(&mut self, lo: i64, hi: i64) -> i64 { lo + self.below((hi - lo + 1) as u64) as i64 }
    pub fn chance(&mut self, num: u64, den: u64) -> bool { self.below(den) < num }
}
pub fn ok(idv: Value, extra: Value) -> Value {
    let mut m = serde_json::Map::new();
    m.insert("id".into(), idv);
    if let Value::Object(o) = extra { for (k, v) in o { m.insert(k, v); } }
    Value::Object(m)
}
#[allow(dead_code)]
pub fn j() -> Value { json!({}) }

/// First difference between two JSON values as (path, left, right); None if equal.
pub fn json_diff(a: &Value, b: &Value, path: &str) -> Option<(String, Value, Value)> {
    match (a, b) {
        (Value::Object(x), Value::Object(y)) => {
            for (k, v) in x {
                match y.get(k) {
                    Some(w) => { if let Some(d) = json_diff(v, w, &format!("{path}/{k}")) { return Some(d); } }
                    None => return Some((format!("{path}/{k}"), v.clone(), Value::Null)),
                }
            }
            for (k, w) in y { if !x.contains_key(k) { return Some((format!("{path}/{k}"), Value::Null, w.clone())); } }
            None
        }
        (Value::Array(x), Value::Array(y)) => {
            for i in 0..x.len().min(y.len()) {
                if let Some(d) = json_diff(&x[i], &y[i], &format!("{path}/{i}")) { return Some(d); }
            }
            if x.len() != y.len() { return Some((format!("{path}/len"), json!(x.len()), json!(y.len()))); }
            None
        }
        _ => if a == b { None } else { Some((path.to_string(), trunc(a), trunc(b))) },
    }
}
pub fn trunc(v: &Value) -> Value {
    let s = v.to_string();
    if s.chars().count() > 200 { json!(format!("{}…", s.chars().take(200).collect::<String>())) } else { v.clone() }
}
/// Run `f` catching panics: Ok(v) | Err((msg, loc))
pub fn guarded<T>(f: impl FnOnce() -> T) -> Result<T, String> {
    match std::panic::catch_unwind(std::panic::AssertUnwindSafe(f)) {
        Ok(v) => Ok(v),
        Err(e) => {
            let msg = if let Some(s) = e.downcast_ref::<&str>() { s.to_string() }
                      else if let Some(s) = e.downcast_ref::<String>() { s.clone() } else { "?".into() };
            Err(msg)
        }
    }
}
