------------------------------ MODULE BBoxInd ------------------------------
(***************************************************************************)
(* Apalache rendering of BBox.tla for ALL integers: two non-empty boxes     *)
(* (lo <= hi in both coordinates) and a point.                              *)
(*   the min / max intersection contains exactly the common points (and is  *)
(*   empty exactly when there is none at that point's row and column);      *)
(*   the min / max hull contains both boxes and every box that contains     *)
(*   both contains the hull.                                                *)
(*   apalache-mc check --init=AnyInit --inv=Laws --length=0 BBoxInd.tla     *)
(***************************************************************************)
EXTENDS Integers

VARIABLES
  \* @type: Int;
  ax0,
  \* @type: Int;
  ay0,
  \* @type: Int;
  ax1,
  \* @type: Int;
  ay1,
  \* @type: Int;
  bx0,
  \* @type: Int;
  by0,
  \* @type: Int;
  bx1,
  \* @type: Int;
  by1,
  \* @type: Int;
  cx0,
  \* @type: Int;
  cy0,
  \* @type: Int;
  cx1,
  \* @type: Int;
  cy1,
  \* @type: Int;
  px,
  \* @type: Int;
  py

AnyInit == /\ ax0 \in Int /\ ay0 \in Int /\ ax1 \in Int /\ ay1 \in Int /\ bx0 \in Int /\ by0 \in Int /\ bx1 \in Int /\ by1 \in Int
           /\ cx0 \in Int /\ cy0 \in Int /\ cx1 \in Int /\ cy1 \in Int /\ px \in Int /\ py \in Int
           /\ ax0 <= ax1 /\ ay0 <= ay1 /\ bx0 <= bx1 /\ by0 <= by1 /\ cx0 <= cx1 /\ cy0 <= cy1
Next == UNCHANGED <<ax0, ay0, ax1, ay1, bx0, by0, bx1, by1, cx0, cy0, cx1, cy1, px, py>>

Min(u, v) == IF u <= v THEN u ELSE v
Max(u, v) == IF u >= v THEN u ELSE v
In(x0, y0, x1, y1) == x0 <= px /\ px <= x1 /\ y0 <= py /\ py <= y1
\* intersection by max of the lower and min of the upper corners (empty when inverted)
ix0 == Max(ax0, bx0)  iy0 == Max(ay0, by0)  ix1 == Min(ax1, bx1)  iy1 == Min(ay1, by1)
InterEmpty == ix0 > ix1 \/ iy0 > iy1
InInter == ~InterEmpty /\ In(ix0, iy0, ix1, iy1)
\* hull by min of the lower and max of the upper corners
hx0 == Min(ax0, bx0)  hy0 == Min(ay0, by0)  hx1 == Max(ax1, bx1)  hy1 == Max(ay1, by1)

InterIsIntersection == InInter <=> (In(ax0, ay0, ax1, ay1) /\ In(bx0, by0, bx1, by1))
HullContains == (In(ax0, ay0, ax1, ay1) \/ In(bx0, by0, bx1, by1)) => In(hx0, hy0, hx1, hy1)
\* any box c that contains (the corners of) both a and b contains the hull
CContains(x0, y0, x1, y1) == cx0 <= x0 /\ cy0 <= y0 /\ x1 <= cx1 /\ y1 <= cy1
HullIsLeast == (CContains(ax0, ay0, ax1, ay1) /\ CContains(bx0, by0, bx1, by1)) => CContains(hx0, hy0, hx1, hy1)
Laws == InterIsIntersection /\ HullContains /\ HullIsLeast
=============================================================================
