------------------------------ MODULE D4Ind ------------------------------
(***************************************************************************)
(* Apalache rendering of the placement algebra D4.tla for ALL integer       *)
(* offsets and points: two placements (reflect about the x-axis if r, then  *)
(* rotate by a in {0,90,180,270}, then translate) and a point.              *)
(*   Composition:  the cascaded map applied to p equals the child's map     *)
(*                 followed by the parent's map;                            *)
(*   Closure:      the linear part of the cascade is again one of the       *)
(*                 eight orientations, its determinant is +1 / -1 with      *)
(*                 mirror parity = parity of the reflections;               *)
(*   Isometry:     a placement preserves squared distances to the image of  *)
(*                 the origin.                                              *)
(*   apalache-mc check --init=AnyInit --inv=Laws --length=0 D4Ind.tla       *)
(***************************************************************************)
EXTENDS Integers

VARIABLES
  \* @type: Bool;
  r1,
  \* @type: Int;
  a1,
  \* @type: Int;
  x1,
  \* @type: Int;
  y1,
  \* @type: Bool;
  r2,
  \* @type: Int;
  a2,
  \* @type: Int;
  x2,
  \* @type: Int;
  y2,
  \* @type: Int;
  px,
  \* @type: Int;
  py

Angles == {0, 90, 180, 270}
AnyInit == /\ r1 \in BOOLEAN /\ r2 \in BOOLEAN /\ a1 \in Angles /\ a2 \in Angles
           /\ x1 \in Int /\ y1 \in Int /\ x2 \in Int /\ y2 \in Int /\ px \in Int /\ py \in Int
Next == UNCHANGED <<r1, a1, x1, y1, r2, a2, x2, y2, px, py>>

Cos(a) == IF a = 0 THEN 1 ELSE IF a = 180 THEN -1 ELSE 0
Sin(a) == IF a = 90 THEN 1 ELSE IF a = 270 THEN -1 ELSE 0
\* OrientM(r, a) = Rot(a) * Refl(r): entries
M11(r, a) == Cos(a)
M12(r, a) == IF r THEN Sin(a) ELSE -Sin(a)
M21(r, a) == Sin(a)
M22(r, a) == IF r THEN -Cos(a) ELSE Cos(a)
\* image of <<u, v>> under placement (r, a, <<tx, ty>>)
ImX(r, a, tx, u, v) == (M11(r, a) * u) + (M12(r, a) * v) + tx
ImY(r, a, ty, u, v) == (M21(r, a) * u) + (M22(r, a) * v) + ty

\* Cascade(parent = 1, child = 2): linear part and offset
C11 == (M11(r1, a1) * M11(r2, a2)) + (M12(r1, a1) * M21(r2, a2))
C12 == (M11(r1, a1) * M12(r2, a2)) + (M12(r1, a1) * M22(r2, a2))
C21 == (M21(r1, a1) * M11(r2, a2)) + (M22(r1, a1) * M21(r2, a2))
C22 == (M21(r1, a1) * M12(r2, a2)) + (M22(r1, a1) * M22(r2, a2))
CTx == ImX(r1, a1, x1, x2, y2)
CTy == ImY(r1, a1, y1, x2, y2)

Composition ==
  LET qx == ImX(r2, a2, x2, px, py)  qy == ImY(r2, a2, y2, px, py) IN
  /\ (C11 * px) + (C12 * py) + CTx = ImX(r1, a1, x1, qx, qy)
  /\ (C21 * px) + (C22 * py) + CTy = ImY(r1, a1, y1, qx, qy)
Closure ==
  /\ \E r \in BOOLEAN, a \in Angles : C11 = M11(r, a) /\ C12 = M12(r, a) /\ C21 = M21(r, a) /\ C22 = M22(r, a)
  /\ (C11 * C22) - (C12 * C21) = (IF r1 = r2 THEN 1 ELSE -1)
Isometry ==
  LET ix == ImX(r1, a1, x1, px, py) - x1  iy == ImY(r1, a1, y1, px, py) - y1 IN (ix * ix) + (iy * iy) = (px * px) + (py * py)
Laws == Composition /\ Closure /\ Isometry
=============================================================================
