------------------------------ MODULE LayersInd ------------------------------
(***************************************************************************)
(* Apalache rendering of the key maps of Layers.tla (purposes left out):    *)
(* KeysValid and LatestWins are INDUCTIVE under Add and GetOrInsert for any *)
(* layer numbers (all integers) and a name alphabet, for registries of up   *)
(* to MaxSlots layers before the step - TLC explores sequences of three     *)
(* operations over three numbers; this argument needs no such bound.        *)
(*   apalache-mc check --init=IndInit --inv=IndInv --length=1 LayersInd.tla *)
(***************************************************************************)
EXTENDS Integers, Sequences, FiniteSets, Apalache

VARIABLES
  \* @type: Seq({num: Int, name: Str});
  slots,
  \* @type: Set(<<Int, Int>>);
  nums,
  \* @type: Set(<<Str, Int>>);
  names

MaxSlots == 4
NameD == {"", "a", "b", "c"}          \* "" = unnamed

\* finite maps as sets of pairs, functional in the first component
FunctionalNums == \A p \in nums, q \in nums : p[1] = q[1] => p[2] = q[2]
FunctionalNames == \A p \in names, q \in names : p[1] = q[1] => p[2] = q[2]
KeysValid == /\ \A p \in nums : p[2] \in DOMAIN slots /\ slots[p[2]].num = p[1]
             /\ \A p \in names : p[2] \in DOMAIN slots /\ slots[p[2]].name = p[1] /\ p[1] # ""
LatestWins == /\ \A i \in DOMAIN slots : \E p \in nums : p[1] = slots[i].num /\ p[2] >= i
              /\ \A i \in DOMAIN slots : slots[i].name # "" => \E p \in names : p[1] = slots[i].name /\ p[2] >= i
TypeOK == /\ \A i \in DOMAIN slots : slots[i].name \in NameD
          /\ FunctionalNums /\ FunctionalNames
IndInv == KeysValid /\ LatestWins /\ TypeOK

BaseInit == /\ LET \* @type: Seq({num: Int, name: Str});
                   e == <<>> IN slots = e
            /\ nums = {} /\ names = {}
IndInit == /\ slots = Gen(MaxSlots) /\ nums = Gen(MaxSlots) /\ names = Gen(MaxSlots) /\ IndInv

Add(num, name) ==
  /\ slots' = Append(slots, [num |-> num, name |-> name])
  /\ nums' = { p \in nums : p[1] # num } \union { <<num, Len(slots) + 1>> }
  /\ names' = IF name = "" THEN names ELSE { p \in names : p[1] # name } \union { <<name, Len(slots) + 1>> }
GetOrInsert(num) ==
  IF \E p \in nums : p[1] = num
  THEN UNCHANGED <<slots, nums, names>>
  ELSE /\ slots' = Append(slots, [num |-> num, name |-> ""])
       /\ nums' = nums \union { <<num, Len(slots) + 1>> }
       /\ UNCHANGED names
Next == \/ \E num \in Int, name \in NameD : Add(num, name)
        \/ \E num \in Int : GetOrInsert(num)
=============================================================================
