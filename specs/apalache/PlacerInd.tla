------------------------------ MODULE PlacerInd ------------------------------
(***************************************************************************)
(* Apalache rendering of the heart of Placer.tla, for ALL integers:         *)
(* for every reference box, every size of the placed cell, every            *)
(* separation, every side with an orthogonal alignment and every            *)
(* reflection, an origin <<x, y>> satisfies the relation (its box TOUCHES   *)
(* the reference on `side` at distance `sep` and is FLUSH on `align`)       *)
(* if and only if it is the closed-form origin ResolveCF.  Hence the        *)
(* solution exists and is unique without the window TLC needs.              *)
(*   apalache-mc check --init=AnyInit --inv=ClosedFormIsTheSolution         *)
(*                     --length=0 PlacerInd.tla                              *)
(***************************************************************************)
EXTENDS Integers

VARIABLES
  \* @type: Int;
  w,
  \* @type: Int;
  h,
  \* @type: Int;
  rx0,
  \* @type: Int;
  rx1,
  \* @type: Int;
  ry0,
  \* @type: Int;
  ry1,
  \* @type: Int;
  sep,
  \* @type: Str;
  side,
  \* @type: Str;
  align,
  \* @type: Bool;
  rh,
  \* @type: Bool;
  rv,
  \* @type: Int;
  x,
  \* @type: Int;
  y

AnyInit == /\ w \in Int /\ h \in Int /\ rx0 \in Int /\ rx1 \in Int /\ ry0 \in Int /\ ry1 \in Int /\ sep \in Int /\ x \in Int /\ y \in Int
           /\ side \in {"Left", "Right", "Top", "Bottom"} /\ align \in {"Left", "Right", "Top", "Bottom"}
           /\ rh \in BOOLEAN /\ rv \in BOOLEAN
Next == UNCHANGED <<w, h, rx0, rx1, ry0, ry1, sep, side, align, rh, rv, x, y>>

\* the box of the placed instance at origin <<x, y>> (reflection-aware)
bx0 == IF rh THEN x - w ELSE x
bx1 == IF rh THEN x ELSE x + w
by0 == IF rv THEN y - h ELSE y
by1 == IF rv THEN y ELSE y + h
Touches == CASE side = "Right"  -> bx0 = rx1 + sep
             [] side = "Left"   -> bx1 = rx0 - sep
             [] side = "Top"    -> by0 = ry1 + sep
             [] OTHER           -> by1 = ry0 - sep
Flush == CASE align = "Bottom" -> by0 = ry0
           [] align = "Top"    -> by1 = ry1
           [] align = "Left"   -> bx0 = rx0
           [] OTHER            -> bx1 = rx1
Orthogonal == (side \in {"Left", "Right"}) = (align \in {"Top", "Bottom"})

sidec == CASE side = "Right"  -> (rx1 + sep) + (IF rh THEN w ELSE 0)
           [] side = "Left"   -> (rx0 - sep) - (IF rh THEN 0 ELSE w)
           [] side = "Top"    -> (ry1 + sep) + (IF rv THEN h ELSE 0)
           [] OTHER           -> (ry0 - sep) - (IF rv THEN 0 ELSE h)
alignc == CASE align = "Bottom" -> ry0 + (IF rv THEN h ELSE 0)
            [] align = "Top"    -> ry1 - (IF rv THEN 0 ELSE h)
            [] align = "Left"   -> rx0 + (IF rh THEN w ELSE 0)
            [] OTHER            -> rx1 - (IF rh THEN 0 ELSE w)
cfx == IF side \in {"Left", "Right"} THEN sidec ELSE alignc
cfy == IF side \in {"Left", "Right"} THEN alignc ELSE sidec

ClosedFormIsTheSolution == Orthogonal => ((Touches /\ Flush) <=> (x = cfx /\ y = cfy))
=============================================================================
