------------------------------ MODULE TracksInd ------------------------------
(***************************************************************************)
(* Apalache rendering of Tracks.tla (same definitions, typed) for an        *)
(* INDUCTIVE argument that does not depend on the bounds TLC needs:         *)
(*   Tiling is preserved by Cut / Block / SetNet for ANY span and ANY       *)
(*   integer arguments, for tracks of up to MaxSegs segments before the     *)
(*   step.                                                                  *)
(*   apalache-mc check --init=IndInit --inv=IndInv --length=1 TracksInd.tla *)
(* (the base case  TInit => IndInv  is  --init=BaseInit --length=0).        *)
(***************************************************************************)
EXTENDS Integers, Sequences, Apalache

CONSTANT
  \* @type: Int;
  Span

VARIABLES
  \* @type: Seq({tp: Str, start: Int, stop: Int, net: Str});
  segs,
  \* @type: Str;
  outcome

\* @type: (Str, Int, Int, Str) => {tp: Str, start: Int, stop: Int, net: Str};
Seg(tp, a, b, net) == [tp |-> tp, start |-> a, stop |-> b, net |-> net]

Types == {"wire", "rail", "cut", "block"}
Nets == {"", "n1", "n2"}
MaxSegs == 5

Tiling == /\ Len(segs) >= 1 /\ segs[1].start = 0 /\ segs[Len(segs)].stop = Span
          /\ \A i \in DOMAIN segs : segs[i].start <= segs[i].stop
          /\ \A i \in DOMAIN segs : (i + 1) \in DOMAIN segs => segs[i].stop = segs[i + 1].start
TypeOK == /\ \A i \in DOMAIN segs : segs[i].tp \in Types /\ segs[i].net \in Nets
          /\ outcome \in {"init", "ok", "err-bounds", "err-conflict", "err-overlap", "err-rail"}
IndInv == Tiling /\ TypeOK

ConstInit == Span \in Nat /\ Span >= 1
BaseInit == /\ LET \* @type: Seq({tp: Str, start: Int, stop: Int, net: Str});
                   one == <<Seg("wire", 0, Span, "")>> IN segs = one
            /\ outcome = "init"
\* any track satisfying the invariant, of at most MaxSegs segments
IndInit == /\ segs = Gen(MaxSegs) /\ outcome \in {"init", "ok"} /\ IndInv

\* @type: (Int) => Int;
FirstAfter(a) == CHOOSE i \in DOMAIN segs : segs[i].stop > a /\ \A j \in DOMAIN segs : j < i => segs[j].stop <= a

\* replace element i by the sequence new (1 to 3 elements), without SubSeq on symbolic bounds
\* @type: (Int, Seq({tp: Str, start: Int, stop: Int, net: Str})) => Seq({tp: Str, start: Int, stop: Int, net: Str});
Splice(i, new) ==
  LET n == Len(segs) + Len(new) - 1 IN
  MkSeq(MaxSegs + 2, LAMBDA k : IF k < i THEN segs[k] ELSE IF k < i + Len(new) THEN new[k - i + 1] ELSE segs[k - Len(new) + 1])

\* @type: (Int, Int, Str) => Bool;
CutOrBlock(a, b, tp) ==
  IF ~(0 <= a /\ a < b /\ b <= Span) THEN outcome' = "err-bounds" /\ UNCHANGED segs
  ELSE LET i == FirstAfter(a)
           s == segs[i] IN
       IF s.tp \in {"cut", "block"} THEN outcome' = "err-conflict" /\ UNCHANGED segs
       ELSE IF s.stop < b THEN outcome' = "err-overlap" /\ UNCHANGED segs
       ELSE /\ outcome' = "ok"
            /\ LET \* @type: Seq({tp: Str, start: Int, stop: Int, net: Str});
                   three == <<Seg(s.tp, s.start, a, s.net), Seg(tp, a, b, ""), Seg(s.tp, b, s.stop, s.net)>>
                   \* @type: Seq({tp: Str, start: Int, stop: Int, net: Str});
                   two == <<Seg(s.tp, s.start, a, s.net), Seg(tp, a, b, "")>>
                   new == IF s.stop # b THEN three ELSE two
                   n == Len(segs) + Len(new) - 1
               IN segs' = SubSeq(Splice(i, new), 1, n)

\* @type: (Int, Str) => Bool;
SetNet(at, net) ==
  LET C == { i \in DOMAIN segs : segs[i].start <= at /\ at <= segs[i].stop } IN
  IF C = {} THEN outcome' = "err-bounds" /\ UNCHANGED segs
  ELSE LET i == CHOOSE k \in C : \A j \in C : k <= j
           s == segs[i] IN
       IF s.tp = "cut" THEN outcome' = "err-conflict" /\ UNCHANGED segs
       ELSE IF s.tp = "block" THEN outcome' = "ok" /\ UNCHANGED segs
       ELSE IF s.tp = "wire" THEN outcome' = "ok" /\ segs' = [segs EXCEPT ![i] = Seg(s.tp, s.start, s.stop, net)]
       ELSE outcome' = "err-rail" /\ UNCHANGED segs

Next == \/ \E a \in Int, b \in Int, tp \in {"cut", "block"} : CutOrBlock(a, b, tp)
        \/ \E at \in Int, net \in Nets : SetNet(at, net)
        \/ UNCHANGED <<segs, outcome>>
=============================================================================
