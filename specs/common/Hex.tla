------------------------------- MODULE Hex -------------------------------
(***************************************************************************)
(* Fixed-width unsigned integers as sequences of hexadecimal digits, most   *)
(* significant first.  TLC integers are 32-bit; the 56- and 64-bit          *)
(* quantities of the GDSII formats are handled digit by digit with explicit *)
(* carry, so that every result is exact.                                    *)
(***************************************************************************)
EXTENDS Naturals, Integers, Sequences

Pow2(n) == CASE n = 0 -> 1 [] n = 1 -> 2 [] n = 2 -> 4 [] n = 3 -> 8 [] n = 4 -> 16

IsHex(d, n) == Len(d) = n /\ \A i \in 1..n : d[i] \in 0..15
Zeros(n) == [i \in 1..n |-> 0]
Fs(n)    == [i \in 1..n |-> 15]
AllZero(d) == \A i \in 1..Len(d) : d[i] = 0
AllF(d)    == \A i \in 1..Len(d) : d[i] = 15

\* shift left / right by s \in 0..3 bits inside the same width (bits shifted out are lost)
Shl(d, s) == [i \in 1..Len(d) |->
                ((d[i] * Pow2(s)) % 16) + (IF i < Len(d) THEN (d[i+1] * Pow2(s)) \div 16 ELSE 0)]
Shr(d, s) == [i \in 1..Len(d) |->
                (d[i] \div Pow2(s)) + (IF i > 1 THEN (d[i-1] % Pow2(s)) * Pow2(4 - s) ELSE 0)]

\* add a small integer c (possibly negative) at digit position i, propagating carry / borrow
RECURSIVE AddAt(_, _, _)
AddAt(d, i, c) == IF c = 0 \/ i = 0 THEN d
                  ELSE LET v == d[i] + c IN
                       AddAt([d EXCEPT ![i] = v % 16], i - 1, (v - (v % 16)) \div 16)
Inc(d) == AddAt(d, Len(d), 1)
AddSmall(d, c) == AddAt(d, Len(d), c)

\* the n-digit representation of a natural number below 2^31
RECURSIVE FromNat(_, _)
FromNat(v, n) == IF n = 0 THEN <<>> ELSE Append(FromNat(v \div 16, n - 1), v % 16)

\* value of a short digit string (<= 7 digits) as a TLC integer
RECURSIVE ToNat(_)
ToNat(d) == IF d = <<>> THEN 0 ELSE 16 * ToNat(SubSeq(d, 1, Len(d) - 1)) + d[Len(d)]

\* lexicographic = numeric comparison for equal widths
RECURSIVE Less(_, _)
Less(a, b) == IF a = <<>> THEN FALSE
              ELSE IF a[1] # b[1] THEN a[1] < b[1]
              ELSE Less(Tail(a), Tail(b))

\* leading zero bits of a non-zero hex digit
LeadZeros(h) == CASE h >= 8 -> 0 [] h >= 4 -> 1 [] h >= 2 -> 2 [] OTHER -> 3
\* trailing zero bits of a hex digit (4 for zero)
TrailZeros(h) == CASE h = 0 -> 4 [] h % 2 = 1 -> 0 [] h % 4 = 2 -> 1 [] h % 8 = 4 -> 2 [] OTHER -> 3

\* with bit b (0 = least significant) set
BitAt(n, b) == [i \in 1..n |-> IF i = n - (b \div 4) THEN Pow2(b % 4) ELSE 0]
Or(a, b) == [i \in 1..Len(a) |-> IF a[i] = b[i] THEN a[i] ELSE a[i] + b[i]]  \* for disjoint single bits

\* number of bits from the highest to the lowest set bit (0 for zero)
FirstNZ(d) == CHOOSE i \in 1..Len(d) : d[i] # 0 /\ \A j \in 1..(i-1) : d[j] = 0
LastNZ(d)  == CHOOSE i \in 1..Len(d) : d[i] # 0 /\ \A j \in (i+1)..Len(d) : d[j] = 0
SigBits(d) == IF AllZero(d) THEN 0
              ELSE (4 * (LastNZ(d) - FirstNZ(d) + 1)) - LeadZeros(d[FirstNZ(d)]) - TrailZeros(d[LastNZ(d)])
=============================================================================
