------------------------------ MODULE GdsCodec ------------------------------
(***************************************************************************)
(* Payload encodings of the GDSII data types, on sequences of byte values.  *)
(* Integers are big-endian two's complement; computed without leaving the   *)
(* 32-bit range TLC offers.  Reals through GdsReal.  Strings are NUL-padded *)
(* to even length.                                                          *)
(***************************************************************************)
EXTENDS GdsReal

BE16(x) == LET y == IF x >= 0 THEN x ELSE x + 65536 IN << y \div 256, y % 256 >>
UnBE16(b) == LET y == (b[1] * 256) + b[2] IN IF y >= 32768 THEN y - 65536 ELSE y

BE32(x) == IF x >= 0
           THEN << x \div 16777216, (x \div 65536) % 256, (x \div 256) % 256, x % 256 >>
           ELSE LET y == -(x + 1) IN                 \* 0 .. 2^31-1: never overflows
                << 255 - (y \div 16777216), 255 - ((y \div 65536) % 256),
                   255 - ((y \div 256) % 256), 255 - (y % 256) >>
UnBE32(b) == ((IF b[1] >= 128 THEN b[1] - 256 ELSE b[1]) * 16777216)
             + (b[2] * 65536) + (b[3] * 256) + b[4]

\* 16 hex digits <-> 8 bytes
HexToBytes(h) == [i \in 1..(Len(h) \div 2) |-> (16 * h[(2 * i) - 1]) + h[2 * i]]
BytesToHex(b) == [i \in 1..(2 * Len(b)) |->
                    IF i % 2 = 1 THEN b[(i + 1) \div 2] \div 16 ELSE b[i \div 2] % 16]

RECURSIVE Flatten(_)
Flatten(ss) == IF ss = <<>> THEN <<>> ELSE Head(ss) \o Flatten(Tail(ss))

Chunk(b, i, n) == SubSeq(b, ((i - 1) * n) + 1, i * n)

\* ---- generic item-list codecs, selected by data type (numbers of GdsRecords)
\* items: int16 / int32 -> integers; bits -> pairs <<b0, b1>>; real -> 16 hex digits of the DOUBLE
\* held in memory; string -> the byte values of the text
EncodeItems(dt, items) ==
  CASE dt = 0 -> <<>>
    [] dt = 1 -> Flatten(items)
    [] dt = 2 -> Flatten([i \in 1..Len(items) |-> BE16(items[i])])
    [] dt = 3 -> Flatten([i \in 1..Len(items) |-> BE32(items[i])])
    [] dt = 5 -> Flatten([i \in 1..Len(items) |-> HexToBytes(Encode(items[i]))])
    [] dt = 6 -> IF Len(items) % 2 = 1 THEN items \o <<0>> ELSE items

\* decoding a real: the double that the eight bytes denote (correctly rounded)
DecodeItems(dt, b) ==
  CASE dt = 0 -> <<>>
    [] dt = 1 -> [i \in 1..(Len(b) \div 2) |-> Chunk(b, i, 2)]
    [] dt = 2 -> [i \in 1..(Len(b) \div 2) |-> UnBE16(Chunk(b, i, 2))]
    [] dt = 3 -> [i \in 1..(Len(b) \div 4) |-> UnBE32(Chunk(b, i, 4))]
    [] dt = 5 -> [i \in 1..(Len(b) \div 8) |-> Decode(Normalise(BytesToHex(Chunk(b, i, 8))))]
    [] dt = 6 -> IF Len(b) > 0 /\ b[Len(b)] = 0 THEN SubSeq(b, 1, Len(b) - 1) ELSE b

Int16s == -32768..32767
IsByte(x) == x \in 0..255
=============================================================================
