------------------------------ MODULE GdsGrammar ------------------------------
(***************************************************************************)
(* The GDSII stream grammar as a state machine over RECORDS (one step per    *)
(* record), together with the meaning of each record: the library that the   *)
(* stream encodes is built up in `lib` while the stream is walked.           *)
(*                                                                           *)
(*  <stream>    ::= HEADER BGNLIB [LIBDIRSIZE] [SRFNAME] [LIBSECUR] LIBNAME   *)
(*                  [REFLIBS] [FONTS] [ATTRTABLE] [GENERATIONS] [FORMAT]      *)
(*                  UNITS {<structure>}* ENDLIB                               *)
(*  <structure> ::= BGNSTR STRNAME {<element>}* ENDSTR                        *)
(*  <element>   ::= <body> {PROPATTR PROPVALUE}* ENDEL       (bodies below)   *)
(*  <strans>    ::= STRANS [MAG] [ANGLE]                                      *)
(*                                                                           *)
(* The same relation Take(r, items) serves both directions: walking a byte   *)
(* stream written by the crate (independent decoder, C02) and generating     *)
(* conformant streams (independent encoder, C01/C03/C10).                    *)
(* `items` are the decoded payload items of GdsCodec.                        *)
(***************************************************************************)
EXTENDS GdsRecords, GdsCodec

VARIABLES phase,   \* "lib" | "structs" | "strname" | "elems" | "elem" | "propvalue" | "done"
          pos,     \* next slot of the current slot list
          ekind,   \* kind of the element under construction
          cur,     \* the element under construction
          pattr,   \* attribute number waiting for its PROPVALUE
          strk,    \* the structure under construction
          lib      \* the library under construction
gvars == <<phase, pos, ekind, cur, pattr, strk, lib>>

S(r, o) == [rec |-> r, opt |-> o]
LibSlots == << S("HEADER", FALSE), S("BGNLIB", FALSE), S("LIBDIRSIZE", TRUE), S("SRFNAME", TRUE),
               S("LIBSECUR", TRUE), S("LIBNAME", FALSE), S("REFLIBS", TRUE), S("FONTS", TRUE),
               S("ATTRTABLE", TRUE), S("GENERATIONS", TRUE), S("FORMAT", TRUE), S("UNITS", FALSE) >>
Unsupported == {"LIBDIRSIZE", "SRFNAME", "LIBSECUR", "REFLIBS", "FONTS", "ATTRTABLE", "GENERATIONS", "FORMAT"}

Common == << S("ELFLAGS", TRUE), S("PLEX", TRUE) >>
StransSlots == << S("STRANS", TRUE), S("MAG", TRUE), S("ANGLE", TRUE) >>
ElemSlots ==
  [ boundary |-> <<S("BOUNDARY", FALSE)>> \o Common \o <<S("LAYER", FALSE), S("DATATYPE", FALSE), S("XY", FALSE)>>,
    path     |-> <<S("PATH", FALSE)>> \o Common \o <<S("LAYER", FALSE), S("DATATYPE", FALSE), S("PATHTYPE", TRUE),
                   S("WIDTH", TRUE), S("BGNEXTN", TRUE), S("ENDEXTN", TRUE), S("XY", FALSE)>>,
    sref     |-> <<S("SREF", FALSE)>> \o Common \o <<S("SNAME", FALSE)>> \o StransSlots \o <<S("XY", FALSE)>>,
    aref     |-> <<S("AREF", FALSE)>> \o Common \o <<S("SNAME", FALSE)>> \o StransSlots
                   \o <<S("COLROW", FALSE), S("XY", FALSE)>>,
    text     |-> <<S("TEXT", FALSE)>> \o Common \o <<S("LAYER", FALSE), S("TEXTTYPE", FALSE), S("PRESENTATION", TRUE),
                   S("PATHTYPE", TRUE), S("WIDTH", TRUE)>> \o StransSlots \o <<S("XY", FALSE), S("STRING", FALSE)>>,
    node     |-> <<S("NODE", FALSE)>> \o Common \o <<S("LAYER", FALSE), S("NODETYPE", FALSE), S("XY", FALSE)>>,
    box      |-> <<S("BOX", FALSE)>> \o Common \o <<S("LAYER", FALSE), S("BOXTYPE", FALSE), S("XY", FALSE)>> ]
Kinds == DOMAIN ElemSlots
KindOfStart(r) == CASE r = "BOUNDARY" -> "boundary" [] r = "PATH" -> "path" [] r = "SREF" -> "sref"
                    [] r = "AREF" -> "aref" [] r = "TEXT" -> "text" [] r = "NODE" -> "node" [] r = "BOX" -> "box"
Starters == {"BOUNDARY", "PATH", "SREF", "AREF", "TEXT", "NODE", "BOX"}

\* slot j of list sl can be taken from position p: everything skipped is optional
CanTake(sl, p, j) == j \in p..Len(sl) /\ \A k \in p..(j - 1) : sl[k].opt
SlotOf(sl, p, r) == IF \E j \in p..Len(sl) : sl[j].rec = r /\ CanTake(sl, p, j)
                    THEN CHOOSE j \in p..Len(sl) : sl[j].rec = r /\ CanTake(sl, p, j) ELSE 0
RequiredDone(sl, p) == \A k \in p..Len(sl) : sl[k].opt

\* ---- elements
NoStrans == <<>>
NewElem(k) ==
  CASE k = "boundary" -> [kind |-> k, elflags |-> <<>>, plex |-> <<>>, layer |-> 0, datatype |-> 0, xy |-> <<>>, props |-> <<>>]
    [] k = "path" -> [kind |-> k, elflags |-> <<>>, plex |-> <<>>, layer |-> 0, datatype |-> 0, pathtype |-> <<>>,
                      width |-> <<>>, bgnextn |-> <<>>, endextn |-> <<>>, xy |-> <<>>, props |-> <<>>]
    [] k = "sref" -> [kind |-> k, elflags |-> <<>>, plex |-> <<>>, name |-> <<>>, strans |-> NoStrans, xy |-> <<>>, props |-> <<>>]
    [] k = "aref" -> [kind |-> k, elflags |-> <<>>, plex |-> <<>>, name |-> <<>>, strans |-> NoStrans, cols |-> 0, rows |-> 0,
                      xy |-> <<>>, props |-> <<>>]
    [] k = "text" -> [kind |-> k, elflags |-> <<>>, plex |-> <<>>, layer |-> 0, texttype |-> 0, presentation |-> <<>>,
                      pathtype |-> <<>>, width |-> <<>>, strans |-> NoStrans, xy |-> <<>>, string |-> <<>>, props |-> <<>>]
    [] k = "node" -> [kind |-> k, elflags |-> <<>>, plex |-> <<>>, layer |-> 0, nodetype |-> 0, xy |-> <<>>, props |-> <<>>]
    [] k = "box"  -> [kind |-> k, elflags |-> <<>>, plex |-> <<>>, layer |-> 0, boxtype |-> 0, xy |-> <<>>, props |-> <<>>]

Pairs(items) == [i \in 1..(Len(items) \div 2) |-> <<items[(2 * i) - 1], items[2 * i]>>]
\* how many points the XY of each element kind carries (0 = any number)
XyCount(k) == CASE k = "sref" -> 1 [] k = "text" -> 1 [] k = "aref" -> 3 [] k = "box" -> 5 [] OTHER -> 0

\* STRANS bit array: bit 0 (0x8000) reflection, bit 13 (0x0004) absolute magnification,
\* bit 14 (0x0002) absolute angle; all other bits are reserved and zero
StransOfBits(b) == [refl |-> b[1] >= 128, absmag |-> (b[2] \div 4) % 2 = 1, absangle |-> (b[2] \div 2) % 2 = 1,
                    mag |-> <<>>, angle |-> <<>>]
BitsOfStrans(s) == << IF s.refl THEN 128 ELSE 0, (IF s.absmag THEN 4 ELSE 0) + (IF s.absangle THEN 2 ELSE 0) >>
StransBitsOK(b) == b[1] \in {0, 128} /\ b[2] \in {0, 2, 4, 6}

ElemWith(e, r, items) ==
  CASE r = "ELFLAGS"      -> [e EXCEPT !.elflags = <<items[1]>>]
    [] r = "PLEX"         -> [e EXCEPT !.plex = <<items[1]>>]
    [] r = "LAYER"        -> [e EXCEPT !.layer = items[1]]
    [] r = "DATATYPE"     -> [e EXCEPT !.datatype = items[1]]
    [] r = "TEXTTYPE"     -> [e EXCEPT !.texttype = items[1]]
    [] r = "NODETYPE"     -> [e EXCEPT !.nodetype = items[1]]
    [] r = "BOXTYPE"      -> [e EXCEPT !.boxtype = items[1]]
    [] r = "PATHTYPE"     -> [e EXCEPT !.pathtype = <<items[1]>>]
    [] r = "WIDTH"        -> [e EXCEPT !.width = <<items[1]>>]
    [] r = "BGNEXTN"      -> [e EXCEPT !.bgnextn = <<items[1]>>]
    [] r = "ENDEXTN"      -> [e EXCEPT !.endextn = <<items[1]>>]
    [] r = "PRESENTATION" -> [e EXCEPT !.presentation = <<items[1]>>]
    [] r = "SNAME"        -> [e EXCEPT !.name = items]
    [] r = "STRING"       -> [e EXCEPT !.string = items]
    [] r = "STRANS"       -> [e EXCEPT !.strans = <<StransOfBits(items[1])>>]
    [] r = "MAG"          -> [e EXCEPT !.strans = <<[e.strans[1] EXCEPT !.mag = <<items[1]>>]>>]
    [] r = "ANGLE"        -> [e EXCEPT !.strans = <<[e.strans[1] EXCEPT !.angle = <<items[1]>>]>>]
    [] r = "COLROW"       -> [e EXCEPT !.cols = items[1], !.rows = items[2]]
    [] r = "XY"           -> [e EXCEPT !.xy = Pairs(items)]

ElemRecordOK(k, e, r, items) ==
  /\ r = "XY" => (Len(items) % 2 = 0 /\ (XyCount(k) = 0 \/ Len(items) = 2 * XyCount(k)))
  /\ r \in {"MAG", "ANGLE"} => e.strans # <<>>                 \* only inside <strans>
  /\ r = "STRANS" => StransBitsOK(items[1])

\* ---- the library header
EmptyLib == [version |-> 0, dates |-> <<>>, name |-> <<>>, units |-> <<>>, structs |-> <<>>, unsupported |-> <<>>]
LibWith(l, r, items) ==
  CASE r = "HEADER"  -> [l EXCEPT !.version = items[1]]
    [] r = "BGNLIB"  -> [l EXCEPT !.dates = items]
    [] r = "LIBNAME" -> [l EXCEPT !.name = items]
    [] r = "UNITS"   -> [l EXCEPT !.units = items]
    [] OTHER         -> [l EXCEPT !.unsupported = Append(@, r)]

\* ---- GdsLibrary::stats(): one library, its structures, and its elements counted by kind
CountKind(l, k) == LET RECURSIVE InS(_, _)  InS(es, i) == IF i > Len(es) THEN 0 ELSE (IF es[i].kind = k THEN 1 ELSE 0) + InS(es, i + 1)
                       RECURSIVE Over(_)     Over(j) == IF j > Len(l.structs) THEN 0 ELSE InS(l.structs[j].elems, 1) + Over(j + 1)
                   IN Over(1)
Stats(l) == [libraries |-> 1, structs |-> Len(l.structs), boundaries |-> CountKind(l, "boundary"), paths |-> CountKind(l, "path"),
             struct_refs |-> CountKind(l, "sref"), array_refs |-> CountKind(l, "aref"), text_elems |-> CountKind(l, "text"),
             nodes |-> CountKind(l, "node"), boxes |-> CountKind(l, "box")]

GInit == /\ phase = "lib" /\ pos = 1 /\ ekind = "none" /\ cur = <<>> /\ pattr = 0
         /\ strk = <<>> /\ lib = EmptyLib

(***************************************************************************)
(* One record.                                                              *)
(***************************************************************************)
TakeLib(r, items) ==
  /\ phase = "lib"
  /\ SlotOf(LibSlots, pos, r) # 0
  /\ lib' = LibWith(lib, r, items)
  /\ pos' = SlotOf(LibSlots, pos, r) + 1
  /\ phase' = IF r = "UNITS" THEN "structs" ELSE "lib"
  /\ UNCHANGED <<ekind, cur, pattr, strk>>

TakeBgnStr(r, items) ==
  /\ phase = "structs" /\ r = "BGNSTR"
  /\ strk' = [name |-> <<>>, dates |-> items, elems |-> <<>>]
  /\ phase' = "strname"
  /\ UNCHANGED <<pos, ekind, cur, pattr, lib>>
TakeEndLib(r, items) ==
  /\ phase = "structs" /\ r = "ENDLIB"
  /\ phase' = "done"
  /\ UNCHANGED <<pos, ekind, cur, pattr, strk, lib>>
TakeStrName(r, items) ==
  /\ phase = "strname" /\ r = "STRNAME"
  /\ strk' = [strk EXCEPT !.name = items]
  /\ phase' = "elems"
  /\ UNCHANGED <<pos, ekind, cur, pattr, lib>>
TakeEndStr(r, items) ==
  /\ phase = "elems" /\ r = "ENDSTR"
  /\ lib' = [lib EXCEPT !.structs = Append(@, strk)]
  /\ phase' = "structs"
  /\ UNCHANGED <<pos, ekind, cur, pattr, strk>>
TakeStart(r, items) ==
  /\ phase = "elems" /\ r \in Starters
  /\ ekind' = KindOfStart(r) /\ cur' = NewElem(KindOfStart(r)) /\ pos' = 2 /\ phase' = "elem"
  /\ UNCHANGED <<pattr, strk, lib>>
TakeField(r, items) ==
  /\ phase = "elem"
  /\ SlotOf(ElemSlots[ekind], pos, r) # 0
  /\ ElemRecordOK(ekind, cur, r, items)
  /\ cur' = ElemWith(cur, r, items)
  /\ pos' = SlotOf(ElemSlots[ekind], pos, r) + 1
  /\ UNCHANGED <<phase, ekind, pattr, strk, lib>>
TakePropAttr(r, items) ==
  /\ phase = "elem" /\ r = "PROPATTR" /\ RequiredDone(ElemSlots[ekind], pos)
  /\ pattr' = items[1] /\ phase' = "propvalue" /\ pos' = Len(ElemSlots[ekind]) + 1
  /\ UNCHANGED <<ekind, cur, strk, lib>>
TakePropValue(r, items) ==
  /\ phase = "propvalue" /\ r = "PROPVALUE"
  /\ cur' = [cur EXCEPT !.props = Append(@, [attr |-> pattr, value |-> items])]
  /\ phase' = "elem"
  /\ UNCHANGED <<pos, ekind, pattr, strk, lib>>
TakeEndEl(r, items) ==
  /\ phase = "elem" /\ r = "ENDEL" /\ RequiredDone(ElemSlots[ekind], pos)
  /\ strk' = [strk EXCEPT !.elems = Append(@, cur)]
  /\ phase' = "elems"
  /\ UNCHANGED <<pos, ekind, cur, pattr, lib>>

Take(r, items) ==
  \/ TakeLib(r, items) \/ TakeBgnStr(r, items) \/ TakeEndLib(r, items) \/ TakeStrName(r, items)
  \/ TakeEndStr(r, items) \/ TakeStart(r, items) \/ TakeField(r, items) \/ TakePropAttr(r, items)
  \/ TakePropValue(r, items) \/ TakeEndEl(r, items)

\* the records that the grammar admits next (used by generators and by error messages)
NextRecords ==
  CASE phase = "lib" -> { LibSlots[j].rec : j \in { k \in pos..Len(LibSlots) : CanTake(LibSlots, pos, k) } }
    [] phase = "structs" -> {"BGNSTR", "ENDLIB"}
    [] phase = "strname" -> {"STRNAME"}
    [] phase = "elems" -> Starters \cup {"ENDSTR"}
    [] phase = "elem" ->
         { ElemSlots[ekind][j].rec : j \in { k \in pos..Len(ElemSlots[ekind]) : CanTake(ElemSlots[ekind], pos, k) } }
         \cup (IF RequiredDone(ElemSlots[ekind], pos) THEN {"PROPATTR", "ENDEL"} ELSE {})
    [] phase = "propvalue" -> {"PROPVALUE"}
    [] OTHER -> {}

\* the bytes of one record: four header bytes and the payload
RecordBytes(r, items) ==
  LET p == EncodeItems(RecTable[r].dt, items)
      n == Len(p) + 4
  IN << n \div 256, n % 256, RecTable[r].num, RecTable[r].dt >> \o p
=============================================================================
