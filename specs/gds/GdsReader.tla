------------------------------ MODULE GdsReader ------------------------------
(***************************************************************************)
(* The MECHANISM of gds21's reader at the level of I/O calls on its source  *)
(* (read.rs: read_record_header / read_record_content / GdsParser::next).   *)
(*                                                                          *)
(*   per record:  read 2 bytes (length), 1 byte (record type), 1 byte (data *)
(*                type), then len-4 bytes at once (none if len = 4, and     *)
(*                none if the header is not in the decode table).           *)
(*   Every field is fetched with read_exact: one ReadStep per read() call;  *)
(*   a short read is followed by a request for the remainder, a read that   *)
(*   delivers nothing ends the parse.                                       *)
(* The parser keeps ONE record of look-ahead and stops reading for good     *)
(* once the look-ahead is ENDLIB; it may stop earlier at any record         *)
(* boundary (a parse error), after a short read, or after a header it       *)
(* rejects (len < 4, odd len, unknown record or data type).                 *)
(*                                                                          *)
(* `bytes` is the significant part of the stream, `size` its total length   *)
(* (trailing zero padding is not shipped).                                  *)
(***************************************************************************)

EXTENDS GdsRecords

VARIABLES bytes, size, rpos, rphase, need, rlen, rrt, rdt, delivered, calls
rvars == <<bytes, size, rpos, rphase, need, rlen, rrt, rdt, delivered, calls>>

ByteAt(i) == IF i + 1 <= Len(bytes) THEN bytes[i + 1] ELSE 0     \* offset i, 0-based
Avail(n) == IF rpos + n <= size THEN n ELSE IF size > rpos THEN size - rpos ELSE 0

ValidRType(t) == t \in 0..59 /\ t \notin NeverUsed
ValidDType(t) == t \in 0..6
\* read_record_content decodes a header only if (record, data type, payload length) is in its table;
\* strings and XY may have any length there.  Otherwise it fails WITHOUT touching the payload.
Decodable(rt, dt, plen) ==
  /\ KnownNum(rt)
  /\ LET e == RecTable[NameOfNum(rt)] IN
     /\ dt = e.dt
     /\ e.n >= 0 => plen = e.n * ItemSize(e.dt)

RInit(b, s) == /\ bytes = b /\ size = s /\ rpos = 0 /\ rphase = "len" /\ need = 2 /\ rlen = 0 /\ rrt = -1 /\ rdt = -1
               /\ delivered = 0 /\ calls = 0

\* what the completed field means: the next phase and the number of bytes it needs
AfterField(first) ==       \* `first` = offset where the completed field started
  CASE rphase = "len" ->
         LET v == (ByteAt(first) * 256) + ByteAt(first + 1) IN
         [ph |-> IF v < 4 \/ v % 2 # 0 THEN "stopped" ELSE "rtype", need |-> 1, len |-> v, rt |-> rrt, dt |-> rdt]
    [] rphase = "rtype" ->
         [ph |-> IF ValidRType(ByteAt(first)) THEN "dtype" ELSE "stopped", need |-> 1, len |-> rlen, rt |-> ByteAt(first), dt |-> rdt]
    [] rphase = "dtype" ->
         LET d == ByteAt(first) IN
         [ph |-> IF ~ValidDType(d) \/ ~Decodable(rrt, d, rlen - 4) THEN "stopped"
                 ELSE IF rlen = 4 THEN (IF rrt = 4 THEN "ended" ELSE "len") ELSE "payload",
          need |-> IF rlen = 4 THEN 2 ELSE rlen - 4, len |-> rlen, rt |-> rrt, dt |-> d]
    [] rphase = "payload" ->
         [ph |-> IF rrt = 4 THEN "ended" ELSE "len", need |-> 2, len |-> rlen, rt |-> rrt, dt |-> rdt]

\* one read call at the current offset asking for the n bytes the current field still needs
\* (read_exact: a short read is followed by a request for the remainder; a read of 0 bytes ends it)
FieldSize == CASE rphase = "len" -> 2 [] rphase = "payload" -> rlen - 4 [] OTHER -> 1
ReadStep(n, got) ==
  /\ rphase \in {"len", "rtype", "dtype", "payload"}
  /\ n = need /\ got = Avail(n)
  /\ rpos' = rpos + got /\ delivered' = delivered + got /\ calls' = calls + 1
  /\ UNCHANGED <<bytes, size>>
  /\ IF got = 0 THEN rphase' = "stopped" /\ UNCHANGED <<need, rlen, rrt, rdt>>
     ELSE IF got < need THEN need' = need - got /\ UNCHANGED <<rphase, rlen, rrt, rdt>>
     ELSE LET a == AfterField(rpos + got - FieldSize) IN
          rphase' = a.ph /\ need' = a.need /\ rlen' = a.len /\ rrt' = a.rt /\ rdt' = a.dt

\* ---- is a complete ENDLIB record reachable by following length fields from offset 0?
\*      (a stream for which this is false "ends before its end-of-library record": C10 requires an error)
RECURSIVE WalkToEndlib(_, _, _)
WalkToEndlib(b, sz, p) ==
  IF p + 4 > sz THEN FALSE
  ELSE LET at(i) == IF i + 1 <= Len(b) THEN b[i + 1] ELSE 0
           n == (at(p) * 256) + at(p + 1) IN
       IF n < 4 \/ n % 2 # 0 \/ p + n > sz THEN FALSE
       ELSE IF at(p + 2) = 4 THEN TRUE
       ELSE WalkToEndlib(b, sz, p + n)
HasEndlib(b, sz) == WalkToEndlib(b, sz, 0)

\* ---- the property-level facts about any read log (C10: work proportional to the input)
WorkBound == delivered <= size /\ calls <= size + 4
=============================================================================
