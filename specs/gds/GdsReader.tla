------------------------------ MODULE GdsReader ------------------------------
(***************************************************************************)
(* The MECHANISM of gds21's reader at the level of I/O calls on its source  *)
(* (read.rs: read_record_header / read_record_content / GdsParser::next).   *)
(*                                                                          *)
(*   per record:  read 2 bytes (length)      ReadLen                        *)
(*                read 1 byte  (record type) ReadRType                      *)
(*                read 1 byte  (data type)   ReadDType                      *)
(*                read len-4 bytes at once   ReadPayload   (none if len=4)  *)
(* The parser keeps ONE record of look-ahead and stops reading for good     *)
(* once the look-ahead is ENDLIB; it may stop earlier at any record         *)
(* boundary (a parse error), after a short read, or after a header it       *)
(* rejects (len < 4, odd len, unknown record or data type).                 *)
(*                                                                          *)
(* `bytes` is the significant part of the stream, `size` its total length   *)
(* (trailing zero padding is not shipped).                                  *)
(***************************************************************************)
EXTENDS Integers, Sequences

VARIABLES bytes, size, rpos, rphase, rlen, rrt, delivered, calls
rvars == <<bytes, size, rpos, rphase, rlen, rrt, delivered, calls>>

ByteAt(i) == IF i + 1 <= Len(bytes) THEN bytes[i + 1] ELSE 0     \* offset i, 0-based
Avail(n) == IF rpos + n <= size THEN n ELSE IF size > rpos THEN size - rpos ELSE 0

ValidRType(t) == t \in 0..59 /\ t \notin {20, 24, 29, 30, 36, 37, 39, 40, 41, 52, 53}
ValidDType(t) == t \in 0..6

RInit(b, s) == /\ bytes = b /\ size = s /\ rpos = 0 /\ rphase = "len" /\ rlen = 0 /\ rrt = -1
               /\ delivered = 0 /\ calls = 0

\* one read call asking for n bytes at the current offset; got = bytes delivered
Read(n, got) ==
  /\ got = Avail(n)
  /\ rpos' = rpos + got /\ delivered' = delivered + got /\ calls' = calls + 1
  /\ UNCHANGED <<bytes, size>>

ReadLen(got) ==
  /\ rphase = "len" /\ Read(2, got)
  /\ IF got < 2 THEN rphase' = "stopped" /\ UNCHANGED <<rlen, rrt>>
     ELSE LET v == (ByteAt(rpos) * 256) + ByteAt(rpos + 1) IN
          /\ rlen' = v /\ UNCHANGED rrt
          /\ rphase' = IF v < 4 \/ v % 2 # 0 THEN "stopped" ELSE "rtype"
ReadRType(got) ==
  /\ rphase = "rtype" /\ Read(1, got)
  /\ IF got < 1 THEN rphase' = "stopped" /\ UNCHANGED <<rlen, rrt>>
     ELSE /\ rrt' = ByteAt(rpos) /\ UNCHANGED rlen
          /\ rphase' = IF ValidRType(ByteAt(rpos)) THEN "dtype" ELSE "stopped"
ReadDType(got) ==
  /\ rphase = "dtype" /\ Read(1, got)
  /\ UNCHANGED <<rlen, rrt>>
  /\ IF got < 1 \/ ~ValidDType(ByteAt(rpos)) THEN rphase' = "stopped"
     ELSE rphase' = IF rlen = 4 THEN (IF rrt = 4 THEN "ended" ELSE "len") ELSE "payload"
ReadPayload(n, got) ==
  /\ rphase = "payload" /\ n = rlen - 4 /\ Read(n, got)
  /\ UNCHANGED <<rlen, rrt>>
  /\ rphase' = IF got < n THEN "stopped" ELSE IF rrt = 4 THEN "ended" ELSE "len"

\* ---- the property-level facts about any read log (C10: work proportional to the input)
WorkBound == delivered <= size /\ calls <= size + 4
=============================================================================
