------------------------------ MODULE GdsReal ------------------------------
(***************************************************************************)
(* The GDSII eight-byte real (excess-64 exponent of 16, 56-bit mantissa as  *)
(* a binary fraction) and IEEE-754 binary64, both as 16 hexadecimal digits, *)
(* and the exact conversions between them.  Source: GDSII Stream Format     *)
(* manual (data type 5) and IEEE 754; nothing is taken from the crate.      *)
(*                                                                          *)
(*   gds    = s(1) x(7) m(56)      value = (-1)^s * 0.m * 16^(x-64)         *)
(*   double = s(1) e(11) f(52)     value = (-1)^s * 1.f * 2^(e-1023)        *)
(***************************************************************************)
EXTENDS Hex

\* ---- field access
DSign(h) == h[1] \div 8
DExp(h)  == ((h[1] % 8) * 256) + (h[2] * 16) + h[3]
DFrac(h) == SubSeq(h, 4, 16)                     \* 13 digits
MkDouble(s, e, f) == << (s * 8) + (e \div 256), (e \div 16) % 16, e % 16 >> \o f

GSign(g) == g[1] \div 8
GExp(g)  == ((g[1] % 8) * 16) + g[2]
GMant(g) == SubSeq(g, 3, 16)                     \* 14 digits
MkGds(s, x, m) == << (s * 8) + (x \div 16), x % 16 >> \o m

IsZeroD(h) == DExp(h) = 0 /\ AllZero(DFrac(h))               \* +0 or -0
FiniteNormal(h) == DExp(h) \in 1..2046
Normalised(g) == \/ g = Zeros(16)
                 \/ GMant(g)[1] # 0

\* ---- the domain of C15: 16^-64 <= |x| < 16^63, i.e. 2^-256 <= |x| < 2^252, or zero
InRange(h) == \/ IsZeroD(h)
              \/ /\ FiniteNormal(h)
                 /\ DExp(h) - 1023 >= -256
                 /\ DExp(h) - 1023 <= 251

(***************************************************************************)
(* Encode.  1.f * 2^e2 = M * 2^(e2-52) with M the 53-bit significand.  The   *)
(* normalised real has m56 = M * 2^sh, sh = e2 mod 4 in 0..3, and            *)
(* 4*(x-64) = e2 + 4 - sh.  All 53 bits fit in the 56-bit mantissa, so the   *)
(* conversion is exact: no rounding ever happens on this side.               *)
(***************************************************************************)
Encode(h) ==
  IF IsZeroD(h) THEN Zeros(16)
  ELSE LET e2 == DExp(h) - 1023
           sh == (e2 + 1024) % 4
           M  == <<1>> \o DFrac(h)                 \* 14 digits, value in [2^52, 2^53)
       IN MkGds(DSign(h), 64 + ((e2 + 4 - sh) \div 4), Shl(M, sh))

(***************************************************************************)
(* Decode of a normalised real: 56 - z significant bits (z = leading zero   *)
(* bits of the first mantissa digit), of which the lowest r = 3 - z are     *)
(* rounded away, to nearest, ties to even.                                  *)
(***************************************************************************)
Decode(g) ==
  IF AllZero(GMant(g)) THEN MkDouble(GSign(g), 0, Zeros(13))
  ELSE LET m    == GMant(g)
           z    == LeadZeros(m[1])
           r    == 3 - z
           q    == Shr(m, r)                        \* 14 digits, leading digit 1
           rem  == m[14] % Pow2(r)
           half == IF r = 0 THEN 0 ELSE Pow2(r - 1)
           up   == r > 0 /\ (rem > half \/ (rem = half /\ q[14] % 2 = 1))
           e2   == r + (4 * (GExp(g) - 64)) - 4
       IN IF up /\ AllF(SubSeq(q, 2, 14))
          THEN MkDouble(GSign(g), e2 + 1024, Zeros(13))         \* carry into the next binade
          ELSE MkDouble(GSign(g), e2 + 1023,
                        SubSeq(IF up THEN Inc(q) ELSE q, 2, 14))

\* significant bits of the mantissa of a real
GSigBits(g) == SigBits(GMant(g))

(***************************************************************************)
(* Exact value comparison, used by the stream decoder (C02): a real and a   *)
(* double denote the same number iff the double is in range and encodes to   *)
(* the normalised form of the real.  Normalise shifts out leading zero       *)
(* digits while the exponent allows.                                         *)
(***************************************************************************)
RECURSIVE Normalise(_)
Normalise(g) ==
  IF AllZero(GMant(g)) THEN Zeros(16)
  ELSE IF GMant(g)[1] # 0 \/ GExp(g) = 0 THEN g
  ELSE Normalise(MkGds(GSign(g), GExp(g) - 1, Tail(GMant(g)) \o <<0>>))

SameValue(g, h) == InRange(h) /\ Normalise(g) = Encode(h)
=============================================================================
