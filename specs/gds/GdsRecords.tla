------------------------------ MODULE GdsRecords ------------------------------
(***************************************************************************)
(* The GDSII record table, transcribed from the GDSII Stream Format manual  *)
(* (release 6.0), not from the crate.                                       *)
(*   num    record number (third header byte)                               *)
(*   dt     data type (fourth header byte): 0 none, 1 bit array, 2 int16,   *)
(*          3 int32, 5 real64, 6 string                                     *)
(*   n      number of items of that type: a fixed count, or -1 = any        *)
(*          (strings: any number of bytes, even after padding; XY: an even  *)
(*          number of int32)                                                *)
(***************************************************************************)
EXTENDS Integers, Sequences

DT_NONE == 0  DT_BITS == 1  DT_I16 == 2  DT_I32 == 3  DT_R64 == 5  DT_STR == 6

RecTable ==
  [ HEADER       |-> [num |->  0, dt |-> DT_I16,  n |-> 1],
    BGNLIB       |-> [num |->  1, dt |-> DT_I16,  n |-> 12],
    LIBNAME      |-> [num |->  2, dt |-> DT_STR,  n |-> -1],
    UNITS        |-> [num |->  3, dt |-> DT_R64,  n |-> 2],
    ENDLIB       |-> [num |->  4, dt |-> DT_NONE, n |-> 0],
    BGNSTR       |-> [num |->  5, dt |-> DT_I16,  n |-> 12],
    STRNAME      |-> [num |->  6, dt |-> DT_STR,  n |-> -1],
    ENDSTR       |-> [num |->  7, dt |-> DT_NONE, n |-> 0],
    BOUNDARY     |-> [num |->  8, dt |-> DT_NONE, n |-> 0],
    PATH         |-> [num |->  9, dt |-> DT_NONE, n |-> 0],
    SREF         |-> [num |-> 10, dt |-> DT_NONE, n |-> 0],
    AREF         |-> [num |-> 11, dt |-> DT_NONE, n |-> 0],
    TEXT         |-> [num |-> 12, dt |-> DT_NONE, n |-> 0],
    LAYER        |-> [num |-> 13, dt |-> DT_I16,  n |-> 1],
    DATATYPE     |-> [num |-> 14, dt |-> DT_I16,  n |-> 1],
    WIDTH        |-> [num |-> 15, dt |-> DT_I32,  n |-> 1],
    XY           |-> [num |-> 16, dt |-> DT_I32,  n |-> -1],
    ENDEL        |-> [num |-> 17, dt |-> DT_NONE, n |-> 0],
    SNAME        |-> [num |-> 18, dt |-> DT_STR,  n |-> -1],
    COLROW       |-> [num |-> 19, dt |-> DT_I16,  n |-> 2],
    NODE         |-> [num |-> 21, dt |-> DT_NONE, n |-> 0],
    TEXTTYPE     |-> [num |-> 22, dt |-> DT_I16,  n |-> 1],
    PRESENTATION |-> [num |-> 23, dt |-> DT_BITS, n |-> 1],
    STRING       |-> [num |-> 25, dt |-> DT_STR,  n |-> -1],
    STRANS       |-> [num |-> 26, dt |-> DT_BITS, n |-> 1],
    MAG          |-> [num |-> 27, dt |-> DT_R64,  n |-> 1],
    ANGLE        |-> [num |-> 28, dt |-> DT_R64,  n |-> 1],
    REFLIBS      |-> [num |-> 31, dt |-> DT_STR,  n |-> -1],
    FONTS        |-> [num |-> 32, dt |-> DT_STR,  n |-> -1],
    PATHTYPE     |-> [num |-> 33, dt |-> DT_I16,  n |-> 1],
    GENERATIONS  |-> [num |-> 34, dt |-> DT_I16,  n |-> 1],
    ATTRTABLE    |-> [num |-> 35, dt |-> DT_STR,  n |-> -1],
    ELFLAGS      |-> [num |-> 38, dt |-> DT_BITS, n |-> 1],
    NODETYPE     |-> [num |-> 42, dt |-> DT_I16,  n |-> 1],
    PROPATTR     |-> [num |-> 43, dt |-> DT_I16,  n |-> 1],
    PROPVALUE    |-> [num |-> 44, dt |-> DT_STR,  n |-> -1],
    BOX          |-> [num |-> 45, dt |-> DT_NONE, n |-> 0],
    BOXTYPE      |-> [num |-> 46, dt |-> DT_I16,  n |-> 1],
    PLEX         |-> [num |-> 47, dt |-> DT_I32,  n |-> 1],
    BGNEXTN      |-> [num |-> 48, dt |-> DT_I32,  n |-> 1],
    ENDEXTN      |-> [num |-> 49, dt |-> DT_I32,  n |-> 1],
    TAPENUM      |-> [num |-> 50, dt |-> DT_I16,  n |-> 1],
    TAPECODE     |-> [num |-> 51, dt |-> DT_I16,  n |-> 6],
    FORMAT       |-> [num |-> 54, dt |-> DT_I16,  n |-> 1],
    MASK         |-> [num |-> 55, dt |-> DT_STR,  n |-> -1],
    ENDMASKS     |-> [num |-> 56, dt |-> DT_NONE, n |-> 0],
    LIBDIRSIZE   |-> [num |-> 57, dt |-> DT_I16,  n |-> 1],
    SRFNAME      |-> [num |-> 58, dt |-> DT_STR,  n |-> -1],
    LIBSECUR     |-> [num |-> 59, dt |-> DT_I16,  n |-> 1] ]

RecNames == DOMAIN RecTable
\* record numbers that are "not used", "discontinued", "unreleased" or reserved: never in a conformant stream
NeverUsed == {20, 24, 29, 30, 36, 37, 39, 40, 41, 52, 53}
NameOfNum(num) == CHOOSE r \in RecNames : RecTable[r].num = num
KnownNum(num) == \E r \in RecNames : RecTable[r].num = num

ItemSize(dt) == CASE dt = DT_NONE -> 0 [] dt = DT_BITS -> 2 [] dt = DT_I16 -> 2
                  [] dt = DT_I32 -> 4 [] dt = DT_R64 -> 8 [] dt = DT_STR -> 1

\* admissible payload length (in bytes) of record r
PayloadLenOK(r, plen) ==
  LET e == RecTable[r] IN
  IF e.n >= 0 THEN plen = e.n * ItemSize(e.dt)
  ELSE IF e.dt = DT_STR THEN plen % 2 = 0
  ELSE plen % 8 = 0                        \* XY: pairs of int32
MaxRecordLen == 65534                      \* even, fits the 16-bit length field
=============================================================================
