------------------------------ MODULE MC_GdsFaults ------------------------------
(***************************************************************************)
(* Fault sequences for C10: a behaviour of the independent encoder          *)
(* (MC_GdsGen) followed by exactly ONE fault action on the finished stream. *)
(* TLC enumerates every (stream, fault) pair in scope and emits the faulted *)
(* bytes together with the model-level fact HasEndlib.                      *)
(***************************************************************************)
EXTENDS MC_GdsGen

CONSTANTS TruncStep      \* truncation points: every TruncStep-th byte offset (1 = every byte)

VARIABLE fz              \* <<>> until a fault has been injected
fvars == <<vars, fz>>

\* (same definition as GdsReader!WalkToEndlib; repeated here because GdsReader declares state variables)
RECURSIVE WalkToEndlib(_, _, _)
WalkToEndlib(b, sz, p) ==
  IF p + 4 > sz THEN FALSE
  ELSE LET at(i) == IF i + 1 <= Len(b) THEN b[i + 1] ELSE 0
           n == (at(p) * 256) + at(p + 1) IN
       IF n < 4 \/ n % 2 # 0 \/ p + n > sz THEN FALSE
       ELSE IF at(p + 2) = 4 THEN TRUE
       ELSE WalkToEndlib(b, sz, p + n)

FR == Frames(out)
RecBytes(f) == LET n == Len(f.payload) + 4 IN << n \div 256, n % 256, f.num, f.dt >> \o f.payload
RECURSIVE Join(_)
Join(fs) == IF fs = <<>> THEN <<>> ELSE RecBytes(Head(fs)) \o Join(Tail(fs))
\* bytes of the stream with record i replaced by the raw byte string `raw`
Splice1(i, raw) == Join(SubSeq(FR, 1, i - 1)) \o raw \o Join(SubSeq(FR, i + 1, Len(FR)))
WithLen(f, v) == << v \div 256, v % 256, f.num, f.dt >> \o f.payload

Faults ==
  { [k |-> "truncate", i |-> n, v |-> 0, bytes |-> SubSeq(out, 1, n)]
      : n \in { m \in 0..(Len(out) - 1) : m % TruncStep = 0 \/ m >= Len(out) - 6 } }
  \cup { [k |-> "setlen", i |-> i, v |-> v, bytes |-> Splice1(i, WithLen(FR[i], v))]
      : i \in 1..Len(FR), v \in {0, 2, 3, 65535, 65534} }
  \cup { [k |-> "len-2", i |-> i, v |-> 0, bytes |-> Splice1(i, WithLen(FR[i], Len(FR[i].payload) + 2))] : i \in 1..Len(FR) }
  \cup { [k |-> "len+2", i |-> i, v |-> 0, bytes |-> Splice1(i, WithLen(FR[i], Len(FR[i].payload) + 6))] : i \in 1..Len(FR) }
  \cup { [k |-> "zeropayload", i |-> i, v |-> 0, bytes |-> Splice1(i, <<0, 4, FR[i].num, FR[i].dt>>)] : i \in 1..Len(FR) }
  \cup { [k |-> "setrtype", i |-> i, v |-> t, bytes |-> Splice1(i, RecBytes([FR[i] EXCEPT !.num = t]))]
      : i \in 1..Len(FR), t \in {4, 17, 16, 6, 7, 20, 60, 255} }
  \cup { [k |-> "setdtype", i |-> i, v |-> d, bytes |-> Splice1(i, RecBytes([FR[i] EXCEPT !.dt = d]))]
      : i \in 1..Len(FR), d \in 0..7 }
  \cup { [k |-> "drop", i |-> i, v |-> 0, bytes |-> Splice1(i, <<>>)] : i \in 1..Len(FR) }
  \cup { [k |-> "dup", i |-> i, v |-> 0, bytes |-> Splice1(i, RecBytes(FR[i]) \o RecBytes(FR[i]))] : i \in 1..Len(FR) }
  \cup { [k |-> "swap", i |-> i, v |-> 0,
          bytes |-> Join(SubSeq(FR, 1, i - 1)) \o RecBytes(FR[i + 1]) \o RecBytes(FR[i]) \o Join(SubSeq(FR, i + 2, Len(FR)))]
      : i \in 1..(Len(FR) - 1) }
  \cup { [k |-> "splice", i |-> i, v |-> j, bytes |-> Splice1(i, RecBytes(FR[j]))]
      : i \in 1..Len(FR), j \in { x \in 1..Len(FR) : x % 3 = 1 } }

FInit == Init /\ fz = <<>>
Inject == /\ phase = "done" /\ fz = <<>>
          /\ \E f \in Faults : fz' = f
          /\ UNCHANGED vars
FNext == (Next /\ UNCHANGED fz) \/ Inject
FSpec == FInit /\ [][FNext]_fvars

\* sanity of the fault algebra: the unfaulted stream reaches ENDLIB; a truncated one never does
BaseHasEndlib == (phase = "done" /\ fz = <<>>) => WalkToEndlib(out, Len(out), 0)
TruncatedNever == (fz # <<>> /\ fz.k = "truncate") => ~WalkToEndlib(fz.bytes, Len(fz.bytes), 0)

FEmit == fz # <<>> =>
          PrintT(<<"CASE", ToJson([fault |-> fz.k, i |-> fz.i, v |-> fz.v, bytes |-> fz.bytes,
                                   hasEndlib |-> WalkToEndlib(fz.bytes, Len(fz.bytes), 0),
                                   base |-> Len(out), nrec |-> nrec])>>)
=============================================================================
