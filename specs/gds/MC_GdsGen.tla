------------------------------ MODULE MC_GdsGen ------------------------------
(***************************************************************************)
(* The independent ENCODER: behaviours of GdsGrammar with values drawn from *)
(* class tables, the bytes of every record appended to `out`.  A terminal   *)
(* state (phase "done") is one conformant GDSII stream together with the    *)
(* library it encodes; it is printed as one JSON case.                      *)
(*                                                                          *)
(* Optional-record subsets are explored exhaustively; VALUE classes are     *)
(* covered, not multiplied: profile p gives the record taken at slot k the  *)
(* class (p + k) mod n, so that every record kind meets every class of its  *)
(* type while the number of streams stays linear in the number of classes.  *)
(***************************************************************************)
EXTENDS GdsGrammar, TLC, Json

CONSTANTS MaxStructs, MaxElems, MaxProps, NProf, WithUnsupported

VARIABLES out, prof, nrec
vars == <<gvars, out, prof, nrec>>

MinI32 == (-2147483647) - 1
I16Classes == << -32768, -1, 0, 1, 32767 >>
I32Classes == << MinI32, -1, 0, 1, 2147483647 >>
BitClasses == << <<0, 0>>, <<0, 1>>, <<128, 0>>, <<0, 2>>, <<255, 255>> >>
StransClasses == << <<0, 0>>, <<128, 0>>, <<0, 4>>, <<0, 2>>, <<128, 6>>, <<0, 6>>, <<128, 4>>, <<128, 2>> >>
\* (no NUL byte anywhere in a string: GDSII strings are text padded with NUL, so a reader that ends a string at the first
\* NUL is as conformant as one that only drops a final pad byte - strings containing NUL are outside the domain)
\* (strings that end in, or consist of, blanks: a blank is content, not padding)
StrClasses == << <<>>, <<97>>, <<97, 98>>, <<195, 169>>, <<228, 184, 173>>, <<65, 66, 67, 68, 69>>, <<99, 49, 95, 120>>,
                 <<65, 32>>, <<32>>, <<98, 117, 115, 32, 9>>,
                 \* vocabulary: a name that widespread tools give a meaning of their own ("$$$CONTEXT_INFO$$$") is a name like any other
                 <<36, 36, 36, 67, 79, 78, 84, 69, 88, 84, 95, 73, 78, 70, 79, 36, 36, 36>> >>
RealClasses == <<
  <<3,15,15,0,0,0,0,0,0,0,0,0,0,0,0,0>>,          \* 1.0
  <<4,0,5,6,8,0,0,0,0,0,0,0,0,0,0,0>>,            \* 90.0
  <<3,15,5,0,6,2,4,13,13,2,15,1,10,9,15,12>>,     \* 0.001
  <<3,14,1,1,2,14,0,11,14,8,2,6,13,6,9,5>>,       \* 1e-9
  <<3,14,1,1,2,14,0,11,14,8,2,6,13,6,9,6>>,       \* 1e-9 + ulp: a different number (nothing is "close enough" to a decimal power)
  <<3,15,10,15,15,15,15,15,15,15,15,15,15,15,15,15>>, \* just below 1/16
  <<12,0,7,0,14,0,0,0,0,0,0,0,0,0,0,0>>,          \* -270.0
  <<3,15,15,0,0,0,0,0,0,0,0,0,0,0,0,1>>,          \* 1 + ulp
  <<3,15,5,0,6,2,4,13,13,2,15,1,10,9,15,11>>,     \* 0.001 - ulp
  <<0,0,0,0,0,0,0,0,0,0,0,0,0,0,0,0>>,            \* 0.0
  \* the extremes of what a normalised GDSII real can hold: exponent field 0 (16^-65, 3 * 16^-65) and 127 (just below 16^63)
  <<2,15,11,0,0,0,0,0,0,0,0,0,0,0,0,0>>,          \* 2^-260 = 16^-65
  <<2,15,12,8,0,0,0,0,0,0,0,0,0,0,0,0>>,          \* 3 * 2^-260
  <<4,15,10,15,15,15,15,15,15,15,15,15,15,15,15,15>> >> \* 2^252 - ulp
DateClasses == <<
  <<122, 10, 3, 12, 30, 59, 122, 10, 4, 0, 0, 1>>,
  <<0, 0, 0, 0, 0, 0, 0, 0, 0, 0, 0, 0>>,
  <<-1, 13, 32, 25, 61, 61, 32767, -32768, 99, 99, 99, 99>>,
  <<70, 1, 1, 0, 0, 0, 99, 12, 31, 23, 59, 59>>,
  \* the fields are plain 16-bit integers: four-digit years and arbitrary bit patterns are content like any other value
  <<2024, 12, 31, 23, 59, 59, 1900, 1, 1, 0, 0, 0>>,
  <<9999, 2, 29, 24, 60, 60, 4660, 0, 0, 7, 7, 7>>,
  \* the two stamps of one record differ by a "carry": 256 in one field against 1 in the field before it (they alias under
  \* any packing of the six fields into bytes)
  <<100, 1, 1, 0, 0, 256, 100, 1, 1, 0, 1, 0>>,
  <<0, 0, 0, 1, 0, 0, 0, 0, 0, 0, 256, 0>> >>
Pt(i) == << <<0, 0>>, <<-7, 5>>, <<MinI32, 2147483647>>, <<2147483647, MinI32>>, <<1, -1>> >>[(i % 5) + 1]
XyFor(k, i) ==
  LET n == IF XyCount(k) > 0 THEN XyCount(k) ELSE << 4, 1, 5, 0, 3 >>[(i % 5) + 1]
  IN Flatten([j \in 1..n |-> Pt(i + j)])

Pick(classes, i) == classes[(i % Len(classes)) + 1]
\* the items of record r when it is taken as the i-th choice
ValFor(r, i) ==
  LET dt == RecTable[r].dt IN
  CASE r = "XY" -> XyFor(ekind, i)
    [] r \in {"BGNLIB", "BGNSTR"} -> Pick(DateClasses, i)
    [] r = "STRANS" -> <<Pick(StransClasses, i)>>
    [] r = "COLROW" -> <<Pick(I16Classes, i), Pick(I16Classes, i + 2)>>
    [] r = "UNITS" -> <<Pick(RealClasses, i), Pick(RealClasses, i + 3)>>
    [] r = "TAPECODE" -> [j \in 1..6 |-> Pick(I16Classes, i + j)]
    [] dt = DT_NONE -> <<>>
    [] dt = DT_BITS -> <<Pick(BitClasses, i)>>
    [] dt = DT_I16 -> <<Pick(I16Classes, i)>>
    [] dt = DT_I32 -> <<Pick(I32Classes, i)>>
    [] dt = DT_R64 -> <<Pick(RealClasses, i)>>
    [] dt = DT_STR -> Pick(StrClasses, i)

Allowed(r) ==
  /\ r = "BGNSTR" => Len(lib.structs) < MaxStructs
  /\ r \in Starters => Len(strk.elems) < MaxElems
  /\ r = "PROPATTR" => Len(cur.props) < MaxProps
  /\ r \in Unsupported => WithUnsupported /\ lib.unsupported = <<>>

Init == GInit /\ out = <<>> /\ nrec = 0 /\ prof \in 0..(NProf - 1)
Gen(r) == LET items == ValFor(r, prof + nrec) IN
          /\ Allowed(r)
          /\ Take(r, items)
          /\ out' = out \o RecordBytes(r, items)
          /\ nrec' = nrec + 1
          /\ UNCHANGED prof
Next == \E r \in NextRecords : Gen(r)
Spec == Init /\ [][Next]_vars

(***************************************************************************)
(* Model-level check of the format itself: decoding the generated bytes     *)
(* record by record gives back the items that were encoded (so the padded   *)
(* string form is unambiguous for strings without a trailing NUL, and the   *)
(* real classes survive the eight-byte form).                               *)
(***************************************************************************)
RECURSIVE Frames(_)
Frames(b) == IF b = <<>> THEN <<>>
             ELSE LET n == (b[1] * 256) + b[2] IN
                  <<[num |-> b[3], dt |-> b[4], payload |-> SubSeq(b, 5, n)]>> \o Frames(SubSeq(b, n + 1, Len(b)))
WellFramed == \A i \in 1..Len(Frames(out)) :
                 LET f == Frames(out)[i] IN
                 /\ KnownNum(f.num) /\ f.dt = RecTable[NameOfNum(f.num)].dt
                 /\ PayloadLenOK(NameOfNum(f.num), Len(f.payload))
LastRoundTrips ==      \* the record just generated decodes to its items
  nrec > 0 => LET fs == Frames(out)  f == fs[Len(fs)] IN
              EncodeItems(f.dt, DecodeItems(f.dt, f.payload)) = f.payload

PadClasses == << 0, 1, 2, 3, 4, 2047, 2048, 7 >>
Emit == phase = "done" =>
          PrintT(<<"CASE", ToJson([lib |-> lib, bytes |-> out, pad |-> Pick(PadClasses, prof + nrec),
                                   prof |-> prof, stats |-> Stats(lib)])>>)
=============================================================================
