------------------------------ MODULE MC_GdsReal ------------------------------
(***************************************************************************)
(* Bounded instance of GdsReal: boundary classes of C15, the model-level    *)
(* theorems evaluated on each of them, and one JSON case per value for      *)
(* replay into gds21::GdsFloat64 (S->I).                                    *)
(***************************************************************************)
EXTENDS GdsReal, TLC, Json, FiniteSets

CONSTANTS Tier       \* "quick" | "thorough"

VARIABLE c
\* ---- doubles within 8 ulp of every power of two in range
NearPow2 ==
  { [kind |-> "d",
     h |-> IF j >= 0 THEN MkDouble((k + j + 600) % 2, k + 1023, FromNat(j, 13))
           ELSE MkDouble((k + j + 600) % 2, k + 1022, AddSmall(Fs(13), j + 1))]
    : k \in -256..251, j \in -8..8 }

\* ---- all one- and two-bit fraction patterns (and the empty one)
Exps2 == IF Tier = "thorough"
         THEN {-256, -255, -254, -253, -4, -3, -2, -1, 0, 1, 2, 3, 248, 249, 250, 251}
         ELSE {-255, -2, 0, 1, 251}
BitPatterns ==
  {Zeros(13)} \cup { BitAt(13, a) : a \in 0..51 }
              \cup { Or(BitAt(13, a), BitAt(13, b)) : a \in 0..51, b \in 0..51 } \* a = b gives the single bit again
TwoBit == { [kind |-> "d", h |-> MkDouble((e2 + 300) % 2, e2 + 1023, f)] : e2 \in Exps2, f \in BitPatterns }

Extremes == { [kind |-> "d", h |-> MkDouble(s, 251 + 1023, Fs(13))] : s \in {0, 1} }
       \cup { [kind |-> "d", h |-> MkDouble(s, -256 + 1023, Zeros(13))] : s \in {0, 1} }
       \cup { [kind |-> "d", h |-> Zeros(16)] }

\* ---- normalised reals: rounding boundaries (ties, carries) and single nibbles
Xs == IF Tier = "thorough" THEN 0..127 ELSE {0, 1, 63, 64, 65, 127}
RoundCases ==
  { [kind |-> "g", g |-> MkGds(s, x, <<d1>> \o mid \o <<dl>>)]
    : s \in {0, 1}, x \in Xs, d1 \in {1, 2, 3, 4, 7, 8, 15}, mid \in {Zeros(12), Fs(12)}, dl \in 0..15 }
Nibbles ==
  { [kind |-> "g", g |-> MkGds(0, x, [i \in 1..14 |-> IF i = 1 THEN d1 ELSE IF i = p THEN v ELSE 0])]
    : x \in {1, 64, 127}, d1 \in 1..15, p \in 2..14, v \in 1..15 }

Cases == { k \in NearPow2 \cup TwoBit \cup Extremes : InRange(k.h) } \cup RoundCases \cup Nibbles

Init == c \in Cases
Next == UNCHANGED c
Spec == Init /\ [][Next]_c

(***************************************************************************)
(* Model-level theorems.                                                    *)
(***************************************************************************)
EncNormalised == c.kind = "d" => Normalised(Encode(c.h)) /\ IsHex(Encode(c.h), 16)
DecEncId      == c.kind = "d" => Decode(Encode(c.h)) = c.h
EncExact      == c.kind = "d" => SameValue(Encode(c.h), c.h)
DecWellFormed == c.kind = "g" => IsHex(Decode(c.g), 16) /\ FiniteNormal(Decode(c.g))
EncDecId      == c.kind = "g" /\ GSigBits(c.g) <= 53 /\ GExp(c.g) >= 1 => Encode(Decode(c.g)) = c.g
\* rounding moves the value by at most half a unit of the kept precision: re-encoding the decoded
\* double gives a mantissa within 2^(r-1) <= 4 units of the original (checked digit-wise)
DecNear == c.kind = "g" /\ GExp(c.g) >= 1 /\ GExp(c.g) <= 126 =>
             LET g2 == Encode(Decode(c.g)) IN
               \/ g2 = c.g
               \/ \E d \in {-4, -3, -2, -1, 1, 2, 3, 4} :
                     GMant(g2) = AddSmall(GMant(c.g), d) /\ GExp(g2) = GExp(c.g)
               \/ (GExp(g2) = GExp(c.g) + 1 /\ GMant(g2) = <<1>> \o Zeros(13))   \* carried into next hex digit

Emit == PrintT(<<"CASE", ToJson(
          IF c.kind = "d"
          THEN [kind |-> "d", x |-> c.h, g |-> Encode(c.h), back |-> Decode(Encode(c.h))]
          ELSE [kind |-> "g", g |-> c.g, x |-> Decode(c.g),
                sig |-> GSigBits(c.g), re |-> Encode(Decode(c.g))])>>)
=============================================================================
