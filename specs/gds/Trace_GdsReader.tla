------------------------------ MODULE Trace_GdsReader ------------------------------
(***************************************************************************)
(* I->S: the read()/seek() calls logged by an instrumented source while the *)
(* crate parses a stream.                                                   *)
(*   [e |-> "stream", id, bytes, size]   a new parse                        *)
(*   [e |-> "read", at, n, got]          one read call                      *)
(*   [e |-> "seek", from, to]            one repositioning                  *)
(*   [e |-> "end", result]               the parse returned                 *)
(* Property-level facts (reported with reason "prop:..."): offsets never    *)
(* move backwards, every call asks for at least one byte and stays inside   *)
(* the stream or ends the parse, nothing is read once ENDLIB has been read, *)
(* the bytes delivered never exceed the stream length.  Everything else     *)
(* (2+1+1+payload shape) is conformance with GdsReader.                     *)
(***************************************************************************)
EXTENDS GdsReader, TLC, Json, IOUtils

Rec == ndJsonDeserialize(IOEnv.TRACE)
VARIABLES l, bad, curid
tvars == <<rvars, l, bad, curid>>
IsEvent(e) == l <= Len(Rec) /\ Rec[l].e = e /\ l' = l + 1
Ev == Rec[l]

Report(reason) == PrintT(<<"BAD", ToJson([id |-> curid, line |-> l, reason |-> reason, phase |-> rphase, pos |-> rpos])>>)

TrStream == /\ IsEvent("stream")
            /\ bytes' = Ev.bytes /\ size' = Ev.size /\ rpos' = 0 /\ rphase' = "len" /\ need' = 2 /\ rlen' = 0
            /\ rrt' = -1 /\ rdt' = -1 /\ delivered' = 0 /\ calls' = 0 /\ bad' = "" /\ curid' = Ev.id

PropProblem(ev) ==
  IF ev.at < rpos THEN "prop:offset-moved-backwards"
  ELSE IF ev.n < 1 THEN "prop:empty-read-request"
  ELSE IF rphase = "ended" THEN "prop:read-after-ENDLIB"
  ELSE IF delivered + ev.got > size THEN "prop:more-bytes-delivered-than-stream-length"
  ELSE ""
ShapeProblem(ev) ==
  IF ev.at # rpos THEN "offset-differs-from-model"
  ELSE IF rphase = "stopped" THEN "read-after-the-model-stopped"
  ELSE IF ev.n # need THEN "request-size-differs-from-model:" \o rphase
  ELSE ""

TrRead == /\ IsEvent("read")
          /\ IF bad # "" THEN UNCHANGED <<rvars, bad, curid>>
             ELSE LET p == PropProblem(Ev)  s == ShapeProblem(Ev) IN
                  IF p # "" THEN bad' = p /\ Report(p) /\ UNCHANGED <<rvars, curid>>
                  ELSE IF s # "" THEN bad' = s /\ Report(s) /\ UNCHANGED <<rvars, curid>>
                  ELSE /\ ReadStep(Ev.n, Ev.got)
                       /\ UNCHANGED <<bad, curid>>
TrSeek == /\ IsEvent("seek")
          /\ IF bad # "" THEN TRUE ELSE Report("seek-during-parse")
          /\ bad' = IF bad # "" THEN bad ELSE "seek-during-parse"
          /\ UNCHANGED <<rvars, curid>>
TrEnd == /\ IsEvent("end")
         /\ IF bad # "" THEN TRUE
            ELSE IF ~WorkBound THEN Report("prop:work-not-bounded-by-stream-length")
            ELSE IF Ev.result = "ok" /\ rphase # "ended" THEN Report("prop:library-returned-without-reading-ENDLIB")
            ELSE IF rphase \in {"rtype", "dtype", "payload"} THEN Report("parse-ended-inside-a-record")
            ELSE TRUE
         /\ UNCHANGED <<rvars, bad, curid>>

TInit == l = 1 /\ RInit(<<>>, 0) /\ bad = "no-stream-yet" /\ curid = ""
TNext == TrStream \/ TrRead \/ TrSeek \/ TrEnd
TSpec == TInit /\ [][TNext]_tvars
Accepted == \/ TLCGet("stats").diameter - 1 = Len(Rec)
            \/ PrintT(<<"INFO", "unconsumed", TLCGet("stats").diameter, Len(Rec)>>) /\ FALSE
=============================================================================
