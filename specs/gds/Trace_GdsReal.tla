------------------------------ MODULE Trace_GdsReal ------------------------------
(***************************************************************************)
(* I->S for C15.  Each line is one recorded call pair of gds21::GdsFloat64: *)
(*   kind "d": x (double) |-> g = encode(x) |-> back = decode(g)            *)
(*   kind "g": g (normalised real) |-> x = decode(g) |-> re = encode(x)     *)
(* all as 16 hex digits.  The verdict is bit equality with GdsReal.         *)
(***************************************************************************)
EXTENDS GdsReal, TLC, Json, IOUtils

Rec == ndJsonDeserialize(IOEnv.TRACE)
VARIABLE l

Verdict(r) ==
  CASE r.kind = "d" ->
         IF ~InRange(r.x) THEN "machinery-out-of-domain"
         ELSE IF r.g # Encode(r.x) THEN
                 (IF ~Normalised(r.g) THEN "enc-unnormalised" ELSE "enc-wrong")
         ELSE IF r.back # r.x THEN "roundtrip-lost" ELSE "pass"
    [] r.kind = "g" ->
         IF ~Normalised(r.g) THEN "machinery-out-of-domain"
         ELSE IF r.x # Decode(r.g) THEN "dec-wrong"
         ELSE IF GSigBits(r.g) <= 53 /\ GExp(r.g) >= 1 /\ r.re # r.g THEN "reencode-differs"
         ELSE "pass"
    [] OTHER -> "machinery-bad-event"

TInit == l = 1
TNext == /\ l <= Len(Rec)
         /\ l' = l + 1
         /\ LET v == Verdict(Rec[l]) IN
              v = "pass" \/ PrintT(<<"BAD", ToJson([i |-> l, verdict |-> v])>>)
TSpec == TInit /\ [][TNext]_l
Accepted == \/ TLCGet("stats").diameter - 1 = Len(Rec)
            \/ PrintT(<<"INFO", "unconsumed", TLCGet("stats").diameter, Len(Rec)>>) /\ FALSE
=============================================================================
