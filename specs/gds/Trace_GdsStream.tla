------------------------------ MODULE Trace_GdsStream ------------------------------
(***************************************************************************)
(* The independent DECODER (C02).  A trace is a sequence of written         *)
(* libraries, each as                                                       *)
(*     [e |-> "lib", id, lib]       the library handed to the writer        *)
(*     [e |-> "rec", len, rt, dt, bytes]*   the byte stream it produced,    *)
(*                                  framed by header arithmetic only        *)
(*     [e |-> "eof", total]         number of bytes in the stream           *)
(* Every record is checked against GdsRecords (length field even, >= 4,     *)
(* equal to the bytes present; record/data type pair; payload size),        *)
(* must be admissible at the current point of GdsGrammar, and is decoded by *)
(* GdsCodec into the library under construction.  At eof the grammar must   *)
(* have reached ENDLIB, the lengths must add up, and the decoded library    *)
(* must equal the logged one.  A failure is printed as BAD with its reason  *)
(* and the rest of that stream is skipped (the next "lib" event resyncs).   *)
(***************************************************************************)
EXTENDS GdsGrammar, TLC, Json, IOUtils

Rec == ndJsonDeserialize(IOEnv.TRACE)
VARIABLES l, expected, nbytes, bad, curid
tvars == <<gvars, l, expected, nbytes, bad, curid>>

IsEvent(e) == l <= Len(Rec) /\ Rec[l].e = e /\ l' = l + 1
Ev == Rec[l]

TrLib == /\ IsEvent("lib")
         /\ expected' = Ev.lib /\ curid' = Ev.id /\ nbytes' = 0 /\ bad' = ""
         /\ phase' = "lib" /\ pos' = 1 /\ ekind' = "none" /\ cur' = <<>> /\ pattr' = 0
         /\ strk' = <<>> /\ lib' = EmptyLib

\* conformant string payload: no NUL inside; padding only to reach an even length
StringOK(b) == LET n == Len(b) IN
               /\ \A i \in 1..(n - 1) : b[i] # 0
               /\ n % 2 = 0

RecordProblem(ev) ==
  IF ev.len < 4 THEN "length-below-4"
  ELSE IF ev.len % 2 # 0 THEN "length-odd"
  ELSE IF ev.len # 4 + Len(ev.bytes) THEN "length-field-differs-from-bytes-present"
  ELSE IF ~KnownNum(ev.rt) \/ ev.rt \in NeverUsed THEN "record-type-not-in-the-specification"
  ELSE LET r == NameOfNum(ev.rt) IN
       IF ev.dt # RecTable[r].dt THEN "wrong-data-type-for-record"
       ELSE IF ~PayloadLenOK(r, Len(ev.bytes)) THEN "wrong-payload-size"
       ELSE IF ev.dt = DT_STR /\ ~StringOK(ev.bytes) THEN "string-padding"
       ELSE IF phase = "done" THEN "record-after-ENDLIB"
       ELSE IF r \notin NextRecords THEN "record-out-of-grammar-order"
       ELSE IF phase = "elem" /\ r \notin {"PROPATTR", "ENDEL"}
               /\ ~ElemRecordOK(ekind, cur, r, DecodeItems(ev.dt, ev.bytes)) THEN "record-content-not-admissible"
       ELSE ""

Report(reason) == PrintT(<<"BAD", ToJson([id |-> curid, line |-> l, reason |-> reason,
                                           phase |-> phase, ekind |-> ekind])>>)

TrRec == /\ IsEvent("rec")
         /\ IF bad # "" THEN UNCHANGED <<gvars, expected, nbytes, bad, curid>>
            ELSE LET why == RecordProblem(Ev) IN
                 IF why # "" THEN /\ bad' = why /\ Report(why)
                                  /\ UNCHANGED <<gvars, expected, nbytes, curid>>
                 ELSE /\ Take(NameOfNum(Ev.rt), DecodeItems(Ev.dt, Ev.bytes))
                      /\ nbytes' = nbytes + Ev.len
                      /\ UNCHANGED <<expected, bad, curid>>

\* where two libraries first differ, for the report
FirstDiff(a, b) ==
  IF a.name # b.name THEN "name" ELSE IF a.version # b.version THEN "version"
  ELSE IF a.dates # b.dates THEN "dates" ELSE IF a.units # b.units THEN "units"
  ELSE IF Len(a.structs) # Len(b.structs) THEN "number-of-structs"
  ELSE LET si == CHOOSE i \in 1..Len(a.structs) : a.structs[i] # b.structs[i]
           x == a.structs[si]  y == b.structs[si] IN
       IF x.name # y.name THEN "struct-name" ELSE IF x.dates # y.dates THEN "struct-dates"
       ELSE IF Len(x.elems) # Len(y.elems) THEN "number-of-elements"
       ELSE LET ei == CHOOSE i \in 1..Len(x.elems) : x.elems[i] # y.elems[i] IN
            "element-" \o x.elems[ei].kind

TrEof == /\ IsEvent("eof")
         /\ IF bad # "" THEN TRUE
            ELSE IF phase # "done" THEN Report("stream-does-not-end-with-ENDLIB")
            ELSE IF Ev.total # nbytes THEN Report("lengths-do-not-add-up-to-stream-length")
            ELSE IF lib # expected THEN Report("decoded-content-differs:" \o FirstDiff(lib, expected))
            ELSE TRUE
         /\ UNCHANGED <<gvars, expected, nbytes, bad, curid>>

TInit == l = 1 /\ GInit /\ expected = <<>> /\ nbytes = 0 /\ bad = "no-lib-yet" /\ curid = 0
TNext == TrLib \/ TrRec \/ TrEof
TSpec == TInit /\ [][TNext]_tvars
Accepted == \/ TLCGet("stats").diameter - 1 = Len(Rec)
            \/ PrintT(<<"INFO", "unconsumed", TLCGet("stats").diameter, Len(Rec)>>) /\ FALSE
=============================================================================
