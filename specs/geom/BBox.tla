------------------------------ MODULE BBox ------------------------------
(***************************************************************************)
(* Axis-parallel bounding boxes of the raw model (layout21raw::bbox) by     *)
(* their MEANING: a box is the set of lattice points it contains.           *)
(*   box      <<lo, hi>> with lo, hi points, or Empty                       *)
(*   Pts(b)   the lattice points of b (inside a finite window W)            *)
(* Operations are defined by their specification, not by min / max          *)
(* formulas, and the formulas are checked against them:                     *)
(*   Inter(a, b)   the box whose points are exactly Pts(a) \cap Pts(b)      *)
(*   Hull(a, b)    the least box containing Pts(a) \cup Pts(b)              *)
(*   Of(points)    the least box containing the points                     *)
(***************************************************************************)
EXTENDS Integers, FiniteSets, Sequences

Empty == <<>>
IsEmpty(b) == b = Empty
Box(lo, hi) == IF lo[1] > hi[1] \/ lo[2] > hi[2] THEN Empty ELSE <<lo, hi>>
Contains(b, p) == ~IsEmpty(b) /\ b[1][1] <= p[1] /\ p[1] <= b[2][1] /\ b[1][2] <= p[2] /\ p[2] <= b[2][2]
Pts(b, W) == { p \in W : Contains(b, p) }

Min(a, b) == IF a <= b THEN a ELSE b
Max(a, b) == IF a >= b THEN a ELSE b
\* the formulas (what an implementation computes)
Inter(a, b) == IF IsEmpty(a) \/ IsEmpty(b) THEN Empty
               ELSE Box(<<Max(a[1][1], b[1][1]), Max(a[1][2], b[1][2])>>, <<Min(a[2][1], b[2][1]), Min(a[2][2], b[2][2])>>)
Hull(a, b) == IF IsEmpty(a) THEN b ELSE IF IsEmpty(b) THEN a
              ELSE <<<<Min(a[1][1], b[1][1]), Min(a[1][2], b[1][2])>>, <<Max(a[2][1], b[2][1]), Max(a[2][2], b[2][2])>>>>
RECURSIVE OfSeq(_)
OfSeq(ps) == IF ps = <<>> THEN Empty ELSE Hull(<<ps[1], ps[1]>>, OfSeq(Tail(ps)))
Expand(b, d) == IF IsEmpty(b) THEN Empty ELSE Box(<<b[1][1] - d, b[1][2] - d>>, <<b[2][1] + d, b[2][2] + d>>)
Size(b) == <<b[2][1] - b[1][1], b[2][2] - b[1][2]>>

\* the specification the formulas must meet (W: a window containing every box in play)
InterIsIntersection(a, b, W) == Pts(Inter(a, b), W) = Pts(a, W) \cap Pts(b, W)
HullContains(a, b, W) == Pts(a, W) \cup Pts(b, W) \subseteq Pts(Hull(a, b), W)
HullIsLeast(a, b, Boxes, W) == \A c \in Boxes : (Pts(a, W) \cup Pts(b, W) \subseteq Pts(c, W)) => Pts(Hull(a, b), W) \subseteq Pts(c, W)
Lattice(a, b, c) == /\ Inter(a, b) = Inter(b, a) /\ Hull(a, b) = Hull(b, a)
                    /\ Inter(a, a) = a /\ Hull(a, a) = a
                    /\ Inter(a, Inter(b, c)) = Inter(Inter(a, b), c) /\ Hull(a, Hull(b, c)) = Hull(Hull(a, b), c)
                    /\ Inter(a, Hull(a, b)) = a /\ Hull(a, Inter(a, b)) = a
=============================================================================
