------------------------------ MODULE Contains ------------------------------
(***************************************************************************)
(* Exact lattice geometry: the meaning of "the point lies in the closed     *)
(* region the shape covers" (C13; used by C06 and C07 for labels).          *)
(* Points are <<x, y>> with integer coordinates; a polygon is the sequence  *)
(* of its vertices, closure from the last back to the first implied.        *)
(* Everything is decided with integer cross products: no division.          *)
(***************************************************************************)
EXTENDS Integers, Sequences, FiniteSets

Min(a, b) == IF a <= b THEN a ELSE b
Max(a, b) == IF a >= b THEN a ELSE b
Abs(a) == IF a >= 0 THEN a ELSE -a

Cross(o, a, b) == ((a[1] - o[1]) * (b[2] - o[2])) - ((a[2] - o[2]) * (b[1] - o[1]))

OnSeg(p, a, b) == /\ Cross(a, b, p) = 0
                  /\ Min(a[1], b[1]) <= p[1] /\ p[1] <= Max(a[1], b[1])
                  /\ Min(a[2], b[2]) <= p[2] /\ p[2] <= Max(a[2], b[2])

NumV(poly) == Len(poly)
Vtx(poly, i) == poly[((i - 1) % Len(poly)) + 1]          \* cyclic indexing, i >= 1
EdgeA(poly, i) == poly[i]
EdgeB(poly, i) == poly[(i % Len(poly)) + 1]

OnBoundary(p, poly) == \E i \in 1..Len(poly) : OnSeg(p, EdgeA(poly, i), EdgeB(poly, i))

(***************************************************************************)
(* Crossing numbers of three different rays from p.  Half-open rule: an     *)
(* edge counts when exactly one endpoint is strictly beyond the ray's line, *)
(* so a vertex the ray passes through is counted once, a vertex it merely   *)
(* touches zero or two times.  For p not on the boundary of a simple        *)
(* polygon all three parities agree (checked by TLC in MC_Contains).        *)
(***************************************************************************)
CrossRight(p, poly) == Cardinality({ i \in 1..Len(poly) :
    LET a == EdgeA(poly, i)  b == EdgeB(poly, i) IN
    /\ (a[2] > p[2]) # (b[2] > p[2])
    /\ LET s == Cross(a, b, p) IN IF b[2] > a[2] THEN s > 0 ELSE s < 0 })     \* crossing strictly right of p
CrossLeft(p, poly) == Cardinality({ i \in 1..Len(poly) :
    LET a == EdgeA(poly, i)  b == EdgeB(poly, i) IN
    /\ (a[2] > p[2]) # (b[2] > p[2])
    /\ LET s == Cross(a, b, p) IN IF b[2] > a[2] THEN s < 0 ELSE s > 0 })
CrossUp(p, poly) == Cardinality({ i \in 1..Len(poly) :
    LET a == EdgeA(poly, i)  b == EdgeB(poly, i) IN
    /\ (a[1] > p[1]) # (b[1] > p[1])
    /\ LET s == Cross(a, b, p) IN IF b[1] > a[1] THEN s < 0 ELSE s > 0 })

Inside(p, poly) == OnBoundary(p, poly) \/ (CrossRight(p, poly) % 2 = 1)

(***************************************************************************)
(* Simple polygons (the domain of the property).                            *)
(***************************************************************************)
SegsIntersect(a, b, c, d) ==       \* closed segments ab and cd share a point
  LET d1 == Cross(c, d, a)  d2 == Cross(c, d, b)
      d3 == Cross(a, b, c)  d4 == Cross(a, b, d) IN
  \/ (((d1 > 0 /\ d2 < 0) \/ (d1 < 0 /\ d2 > 0)) /\ ((d3 > 0 /\ d4 < 0) \/ (d3 < 0 /\ d4 > 0)))
  \/ OnSeg(a, c, d) \/ OnSeg(b, c, d) \/ OnSeg(c, a, b) \/ OnSeg(d, a, b)

\* adjacent edges (sharing vertex v): they may share only v
AdjacentOK(u, v, w) == ~OnSeg(u, v, w) /\ ~OnSeg(w, u, v)

Distinct(poly) == \A i, j \in 1..Len(poly) : poly[i] = poly[j] => i = j

IsSimple(poly) ==
  LET n == Len(poly) IN
  /\ n >= 3
  /\ Distinct(poly)
  /\ \A i \in 1..n : AdjacentOK(EdgeA(poly, i), EdgeB(poly, i), EdgeB(poly, (i % n) + 1))
  /\ \A i, j \in 1..n :
        (j > i + 1 /\ ~(i = 1 /\ j = n)) =>
          ~SegsIntersect(EdgeA(poly, i), EdgeB(poly, i), EdgeA(poly, j), EdgeB(poly, j))

\* twice the signed area (non-zero for a simple polygon)
RECURSIVE Area2From(_, _)
Area2From(poly, i) == IF i > Len(poly) THEN 0
                      ELSE ((EdgeA(poly, i)[1] * EdgeB(poly, i)[2]) - (EdgeB(poly, i)[1] * EdgeA(poly, i)[2]))
                           + Area2From(poly, i + 1)
Area2(poly) == Area2From(poly, 1)

(***************************************************************************)
(* Rectangles (two opposite corners, any order) and Manhattan paths.        *)
(***************************************************************************)
InRect(p, c0, c1) == /\ Min(c0[1], c1[1]) <= p[1] /\ p[1] <= Max(c0[1], c1[1])
                     /\ Min(c0[2], c1[2]) <= p[2] /\ p[2] <= Max(c0[2], c1[2])

\* squared distance from p to the closed axis-parallel segment ab
Clamp(v, lo, hi) == Max(lo, Min(hi, v))
Dist2Seg(p, a, b) ==
  LET qx == Clamp(p[1], Min(a[1], b[1]), Max(a[1], b[1]))
      qy == Clamp(p[2], Min(a[2], b[2]), Max(a[2], b[2]))
  IN ((p[1] - qx) * (p[1] - qx)) + ((p[2] - qy) * (p[2] - qy))

IsManhattan(pts) == /\ Len(pts) >= 2
                    /\ \A k \in 1..(Len(pts) - 1) : pts[k][1] = pts[k+1][1] \/ pts[k][2] = pts[k+1][2]

\* within half the width of one of its segments (beside the segment, not beyond its ends)
PathMust(p, pts, w) ==
  \E k \in 1..(Len(pts) - 1) :
     LET a == pts[k]  b == pts[k+1] IN
     IF a[1] = b[1]
     THEN 2 * Abs(p[1] - a[1]) <= w /\ Min(a[2], b[2]) <= p[2] /\ p[2] <= Max(a[2], b[2])
     ELSE 2 * Abs(p[2] - a[2]) <= w /\ Min(a[1], b[1]) <= p[1] /\ p[1] <= Max(a[1], b[1])
\* farther than half the width from all of them
PathMustNot(p, pts, w) ==
  \A k \in 1..(Len(pts) - 1) : 4 * Dist2Seg(p, pts[k], pts[k+1]) > w * w
=============================================================================
