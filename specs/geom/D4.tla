------------------------------ MODULE D4 ------------------------------
(***************************************************************************)
(* Placement algebra (C12; used by C06, C07, C14).                           *)
(* A placement is [loc, r, a]: reflect about the x-axis if r, THEN rotate    *)
(* counter-clockwise by a degrees, THEN translate by loc:                    *)
(*        T(p) = loc + Rot(a) * Refl(r) * p                                  *)
(* For right angles everything is integer: a 2x2 matrix <<<<m11,m12>>,       *)
(* <<m21,m22>>>> and an offset.  An affine map is [m, t].                    *)
(***************************************************************************)
EXTENDS Integers, Sequences

\* an angle denotes a rotation: a, a - 360 and a + 360 are the same placement (the replay writes every angle all three ways)
Angles == {0, 90, 180, 270}
Cos(a) == CASE a = 0 -> 1 [] a = 90 -> 0 [] a = 180 -> -1 [] a = 270 -> 0
Sin(a) == CASE a = 0 -> 0 [] a = 90 -> 1 [] a = 180 -> 0 [] a = 270 -> -1

RotM(a)  == << <<Cos(a), -Sin(a)>>, <<Sin(a), Cos(a)>> >>
ReflM(r) == IF r THEN << <<1, 0>>, <<0, -1>> >> ELSE << <<1, 0>>, <<0, 1>> >>
IdM == << <<1, 0>>, <<0, 1>> >>

MatMul(A, B) == << << (A[1][1]*B[1][1]) + (A[1][2]*B[2][1]), (A[1][1]*B[1][2]) + (A[1][2]*B[2][2]) >>,
                   << (A[2][1]*B[1][1]) + (A[2][2]*B[2][1]), (A[2][1]*B[1][2]) + (A[2][2]*B[2][2]) >> >>
MatVec(A, v) == << (A[1][1]*v[1]) + (A[1][2]*v[2]), (A[2][1]*v[1]) + (A[2][2]*v[2]) >>
VAdd(u, v) == << u[1] + v[1], u[2] + v[2] >>

\* the linear part of a placement: rotate after reflecting
OrientM(r, a) == MatMul(RotM(a), ReflM(r))
FromInstance(pl) == [m |-> OrientM(pl.r, pl.a), t |-> pl.loc]
Identity == [m |-> IdM, t |-> <<0, 0>>]

Apply(T, p) == VAdd(MatVec(T.m, p), T.t)
\* Cascade(parent, child): first the child's map, then the parent's
Cascade(P, C) == [m |-> MatMul(P.m, C.m), t |-> VAdd(MatVec(P.m, C.t), P.t)]

\* the map of a whole placement path <<outermost, ..., innermost>>
RECURSIVE PathMap(_)
PathMap(path) == IF path = <<>> THEN Identity
                 ELSE Cascade(FromInstance(Head(path)), PathMap(Tail(path)))

\* the eight orientation matrices
OrientMs == { OrientM(r, a) : r \in BOOLEAN, a \in Angles }
Det(A) == (A[1][1]*A[2][2]) - (A[1][2]*A[2][1])
\* inverse of an orientation matrix is its transpose
Transpose(A) == << <<A[1][1], A[2][1]>>, <<A[1][2], A[2][2]>> >>

\* (reflection, angle) of the composition of two orientations, as the code's Instance fields would need it
OrientOf(M) == CHOOSE o \in BOOLEAN \X Angles : OrientM(o[1], o[2]) = M

(***************************************************************************)
(* Pythagorean rotations: cos = c/d, sin = s/d with c*c + s*s = d*d.  The    *)
(* image of an integer point is the rational <<nx/d, ny/d>>.                 *)
(***************************************************************************)
PythImageNum(c, s, r, p) ==      \* numerators of Rot * Refl(r) * p  (denominator d)
  LET q == IF r THEN <<p[1], -p[2]>> ELSE p IN
  << (c * q[1]) - (s * q[2]), (s * q[1]) + (c * q[2]) >>
=============================================================================
