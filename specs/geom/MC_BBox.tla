------------------------------ MODULE MC_BBox ------------------------------
(* Every pair (triple for the lattice laws) of boxes on a small grid, incl. the empty box and degenerate (point, segment)   *)
(* boxes: the min / max formulas meet their set-of-points specification; each pair is emitted with the expected results   *)
(* for replay into layout21raw::BoundBox (intersection, union, contains of every grid point, expand, size, bbox of points). *)
EXTENDS BBox, TLC, Json
CONSTANT G            \* coordinates 0..G
W == (0..G) \X (0..G)
Boxes == { Box(lo, hi) : lo \in W, hi \in W }       \* includes Empty
VARIABLE c
Init == c \in Boxes \X Boxes
Next == UNCHANGED c
Spec == Init /\ [][Next]_c
A == c[1]  B == c[2]
Sound == InterIsIntersection(A, B, W) /\ HullContains(A, B, W) /\ HullIsLeast(A, B, Boxes, W)
Laws == \A x \in { Box(<<0, 0>>, <<G, 1>>), Box(<<1, 1>>, <<1, 1>>), Empty, Box(<<0, 1>>, <<2, G>>) } : Lattice(A, B, x)
SetToSeq(S) == LET RECURSIVE F(_) F(T) == IF T = {} THEN <<>> ELSE LET x == CHOOSE y \in T : TRUE IN <<x>> \o F(T \ {x}) IN F(S)
Emit == PrintT(<<"CASE", ToJson([a |-> A, b |-> B, inter |-> Inter(A, B), hull |-> Hull(A, B),
                                 a_contains |-> SetToSeq(Pts(A, W)), expand1 |-> Expand(A, 1),
                                 size |-> IF IsEmpty(A) THEN <<>> ELSE Size(A),
                                 of_corners |-> IF IsEmpty(A) \/ IsEmpty(B) THEN <<>> ELSE OfSeq(<<A[1], B[2], A[2], B[1]>>)])>>)
=============================================================================
