------------------------------ MODULE MC_Contains ------------------------------
(***************************************************************************)
(* Every simple polygon with at most MaxV vertices on the lattice           *)
(* 0..G x 0..G, as a vertex SEQUENCE (so every start vertex and both        *)
(* orientations occur), built one vertex per step; for each the             *)
(* inside-bitmap of every lattice point of the bounding box grown by one,   *)
(* computed by Contains!Inside, is emitted for replay (S->I).               *)
(* Model-level checks on every polygon: three different rays give the same  *)
(* parity off the boundary; inserting a vertex on an edge (collinear or     *)
(* repeated) and translating do not change any answer.                      *)
(***************************************************************************)
EXTENDS Contains, TLC, Json

CONSTANTS G, MaxV, Paths      \* Paths: also enumerate Manhattan paths (BOOLEAN)

Lattice == (0..G) \X (0..G)
VARIABLE poly

Last(s) == s[Len(s)]
\* the open chain stays simple: new vertex distinct, new edge meets earlier edges only at the joint
ChainOK(s, p) ==
  /\ \A i \in 1..Len(s) : s[i] # p
  /\ Len(s) >= 2 => AdjacentOK(s[Len(s) - 1], Last(s), p)
  /\ \A i \in 1..(Len(s) - 2) : ~SegsIntersect(s[i], s[i+1], Last(s), p)

Init == poly = <<>>
Add(p) == Len(poly) < MaxV /\ (poly = <<>> \/ ChainOK(poly, p)) /\ poly' = Append(poly, p)
Next == \E p \in Lattice : Add(p)
Spec == Init /\ [][Next]_poly

Window == ((-1)..(G + 1)) \X ((-1)..(G + 1))
Complete == Len(poly) >= 3 /\ IsSimple(poly)

RaysAgree == Complete =>
  \A p \in Window : ~OnBoundary(p, poly) =>
      /\ CrossRight(p, poly) % 2 = CrossLeft(p, poly) % 2
      /\ CrossRight(p, poly) % 2 = CrossUp(p, poly) % 2
AreaNonZero == Complete => Area2(poly) # 0

InsertAt(s, i, q) == SubSeq(s, 1, i) \o <<q>> \o SubSeq(s, i + 1, Len(s))
InsertInvariant == Complete =>
  \A i \in 1..Len(poly) : \A q \in Lattice :
     OnSeg(q, EdgeA(poly, i), EdgeB(poly, i)) =>
        \A p \in Window : Inside(p, InsertAt(poly, i, q)) = Inside(p, poly)
Shift(s, d) == [i \in 1..Len(s) |-> <<s[i][1] + d[1], s[i][2] + d[2]>>]
TranslateInvariant == Complete =>
  \A d \in {<<-2, -2>>, <<5, 7>>} : \A p \in Window :
     Inside(<<p[1] + d[1], p[2] + d[2]>>, Shift(poly, d)) = Inside(p, poly)

\* bitmap, row-major: y from -1 to G+1, x from -1 to G+1
Bitmap == [k \in 1..((G + 3) * (G + 3)) |->
             LET x == ((k - 1) % (G + 3)) - 1   y == ((k - 1) \div (G + 3)) - 1
             IN IF Inside(<<x, y>>, poly) THEN 1 ELSE 0]

Emit == Complete => PrintT(<<"CASE", ToJson([poly |-> poly, g |-> G, inside |-> Bitmap])>>)
=============================================================================
