------------------------------ MODULE MC_ContainsShapes ------------------------------
(* Rectangles (every pair of corners, in both orders, degenerate included) and Manhattan *)
(* paths (2..MaxP points, widths 0..MaxW) on the lattice 0..G: expected answers for S->I.  *)
EXTENDS Contains, TLC, Json

CONSTANTS G, MaxP, MaxW
Lattice == (0..G) \X (0..G)
VARIABLE c

Lo == -(1 + (MaxW \div 2) + 1)
Hi == G + 1 + (MaxW \div 2) + 1
Width == Hi - Lo + 1
Bits(P(_)) == [k \in 1..(Width * Width) |->
                 IF P(<<Lo + ((k - 1) % Width), Lo + ((k - 1) \div Width)>>) THEN 1 ELSE 0]

Rects == { [kind |-> "rect", c0 |-> a, c1 |-> b] : a \in Lattice, b \in Lattice }

RECURSIVE PathsOfLen(_)
PathsOfLen(n) == IF n = 1 THEN { <<p>> : p \in Lattice }
                 ELSE { Append(s, p) : s \in PathsOfLen(n - 1), p \in Lattice }
PathOK(s) == \A k \in 1..(Len(s) - 1) : s[k] # s[k+1] /\ (s[k][1] = s[k+1][1] \/ s[k][2] = s[k+1][2])
PathsC == { [kind |-> "path", pts |-> s, w |-> w] :
              s \in { t \in UNION { PathsOfLen(n) : n \in 2..MaxP } : PathOK(t) }, w \in 0..MaxW }

Init == c \in Rects \cup PathsC
Next == UNCHANGED c
Spec == Init /\ [][Next]_c

\* the two path predicates never contradict each other
PathConsistent == c.kind = "path" =>
   \A p \in (Lo..Hi) \X (Lo..Hi) : ~(PathMust(p, c.pts, c.w) /\ PathMustNot(p, c.pts, c.w))
\* a rectangle is the polygon of its four corners
RectIsPolygon == (c.kind = "rect" /\ c.c0[1] # c.c1[1] /\ c.c0[2] # c.c1[2]) =>
   \A p \in (Lo..Hi) \X (Lo..Hi) :
      InRect(p, c.c0, c.c1) = Inside(p, <<c.c0, <<c.c1[1], c.c0[2]>>, c.c1, <<c.c0[1], c.c1[2]>>>>)

RectIn(p) == InRect(p, c.c0, c.c1)
PMust(p) == PathMust(p, c.pts, c.w)
PMustNot(p) == PathMustNot(p, c.pts, c.w)
Emit == PrintT(<<"CASE", ToJson(
          IF c.kind = "rect"
          THEN [kind |-> "rect", c0 |-> c.c0, c1 |-> c.c1, lo |-> Lo, hi |-> Hi, inside |-> Bits(RectIn)]
          ELSE [kind |-> "path", pts |-> c.pts, w |-> c.w, lo |-> Lo, hi |-> Hi,
                must |-> Bits(PMust), mustnot |-> Bits(PMustNot)])>>)
=============================================================================
