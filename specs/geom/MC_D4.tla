------------------------------ MODULE MC_D4 ------------------------------
(***************************************************************************)
(* Flattening as a state machine: descending into one more placement        *)
(* composes its map onto the accumulated one.  All chains of depth <= Depth  *)
(* over the eight orientations x Offsets are visited; the group laws and the *)
(* equivalence "composed map = maps applied one after the other" are         *)
(* invariants; each chain with its composed integer affine map is emitted.   *)
(***************************************************************************)
EXTENDS D4, TLC, Json, FiniteSets

CONSTANTS Depth, SampleMod     \* chains of length Depth are emitted when Hash % SampleMod = 0
Offsets == { <<0, 0>>, <<-7, 5>>, <<5, 3>> }
Placements == [loc : Offsets, r : BOOLEAN, a : Angles]
Grid == (-3..3) \X (-3..3)

VARIABLES path, acc
vars == <<path, acc>>

Init == path = <<>> /\ acc = Identity
Descend(pl) == /\ Len(path) < Depth
               /\ path' = Append(path, pl)
               /\ acc' = Cascade(acc, FromInstance(pl))     \* as flatten_helper does
Next == \E pl \in Placements : Descend(pl)
Spec == Init /\ [][Next]_vars

\* ---- invariants
AccIsPathMap == acc = PathMap(path)                    \* left-nested and right-nested composition agree
RECURSIVE ApplySeq(_, _)
ApplySeq(p, pth) == IF pth = <<>> THEN p               \* innermost placement is applied first
                    ELSE Apply(FromInstance(Head(pth)), ApplySeq(p, Tail(pth)))
ComposedIsSequential == \A p \in {<<0,0>>, <<1,0>>, <<0,1>>, <<2,-3>>} : Apply(acc, p) = ApplySeq(p, path)
Closure == acc.m \in OrientMs /\ (Det(acc.m) = 1 \/ Det(acc.m) = -1)
MirrorParity == (Det(acc.m) = -1) <=> (Cardinality({ i \in 1..Len(path) : path[i].r }) % 2 = 1)
InverseIsTranspose == MatMul(acc.m, Transpose(acc.m)) = IdM
GroupLaws == /\ Cardinality(OrientMs) = 8
             /\ \A A \in OrientMs, B \in OrientMs : MatMul(A, B) \in OrientMs
             /\ \A A \in OrientMs, B \in OrientMs, C \in OrientMs :
                   MatMul(MatMul(A, B), C) = MatMul(A, MatMul(B, C))

Hash == LET h(i) == (path[i].a \div 90) + (IF path[i].r THEN 4 ELSE 0)
                    + (IF path[i].loc = <<0,0>> THEN 0 ELSE IF path[i].loc[1] < 0 THEN 8 ELSE 16)
        IN IF Len(path) = 0 THEN 0 ELSE h(1) + (5 * (IF Len(path) > 1 THEN h(2) ELSE 0))
              + (7 * (IF Len(path) > 2 THEN h(3) ELSE 0)) + (11 * (IF Len(path) > 3 THEN h(4) ELSE 0))
\* Siblings: a layout may hold several instances; each is composed onto the PARENT's map only.  At every level of the
\* chain two decoy instances of a marker cell stand before and after the chain instance; their maps are emitted too.
Decoy1 == [loc |-> <<4, -6>>, r |-> TRUE, a |-> 90]
Decoy2 == [loc |-> <<-2, 9>>, r |-> FALSE, a |-> 270]
DecoyMaps(d) == [i \in 1..Len(path) |-> Cascade(PathMap(SubSeq(path, 1, i - 1)), FromInstance(d))]
Emit == (Len(path) >= 1 /\ (Len(path) < Depth \/ Depth < 4 \/ Hash % SampleMod = 0)) =>
          PrintT(<<"CASE", ToJson([chain |-> path, m |-> acc.m, t |-> acc.t,
                                   d1 |-> Decoy1, d2 |-> Decoy2, dec1 |-> DecoyMaps(Decoy1), dec2 |-> DecoyMaps(Decoy2)])>>)
=============================================================================
