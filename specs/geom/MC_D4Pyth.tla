------------------------------ MODULE MC_D4Pyth ------------------------------
(* General angles with rational sine and cosine: exact images as numerators over the *)
(* hypotenuse; only grid points whose image is at least 1/10 away from a half-integer *)
(* are kept, so that "nearest integer within half a unit" is unambiguous.              *)
EXTENDS D4, TLC, Json

Triples == { <<3, 4, 5>>, <<4, 3, 5>>, <<5, 12, 13>>, <<12, 5, 13>>, <<8, 15, 17>>, <<15, 8, 17>>,
             \* within one degree of a right angle (0.996, 89.004, 90.996, ... degrees): an angle whose integer part is a
             \* multiple of 90 is NOT that multiple of 90
             <<13224, 230, 13226>>, <<230, 13224, 13226>> }
Signed == { <<sx * t[1], sy * t[2], t[3]>> : t \in Triples, sx \in {1, -1}, sy \in {1, -1} }
Offsets == { <<0, 0>>, <<-7, 5>> }
NearGrid == (-3..3) \X (-3..3)
\* a degree of rotation moves a point 60 units from the origin by a whole unit: far points for the near-right angles
Far == { <<200, 40>>, <<-150, 90>>, <<60, -200>>, <<0, 100>>, <<100, 0>>, <<-77, -133>> }
Grid == NearGrid \cup Far
VARIABLE c
Init == c \in [cs : Signed, r : BOOLEAN, loc : Offsets]
Next == UNCHANGED c
Spec == Init /\ [][Next]_c

Abs(x) == IF x >= 0 THEN x ELSE -x
Safe(n, d) == LET f == (2 * n) % (2 * d) IN 5 * Abs(f - d) >= d
Img(p) == PythImageNum(c.cs[1], c.cs[2], c.r, p)
Pts == { <<p[1], p[2], Img(p)[1], Img(p)[2]>> : p \in { q \in Grid : Safe(Img(q)[1], c.cs[3]) /\ Safe(Img(q)[2], c.cs[3]) } }
\* a rotation preserves length: |num|^2 = d^2 |p|^2
\* (32-bit arithmetic: small triples, near points)
LengthPreserved == c.cs[3] > 100 \/ \A p \in NearGrid : (Img(p)[1] * Img(p)[1]) + (Img(p)[2] * Img(p)[2])
                                     = c.cs[3] * c.cs[3] * ((p[1] * p[1]) + (p[2] * p[2]))
RECURSIVE SetToSeq(_)
SetToSeq(S) == IF S = {} THEN <<>> ELSE LET x == CHOOSE y \in S : TRUE IN <<x>> \o SetToSeq(S \ {x})
Emit == PrintT(<<"CASE", ToJson([c |-> c.cs[1], s |-> c.cs[2], d |-> c.cs[3], r |-> c.r, loc |-> c.loc,
                                 pts |-> SetToSeq(Pts)])>>)
=============================================================================
