------------------------------ MODULE MC_D4Pyth2 ------------------------------
(* General angles at TWO levels of a hierarchy: a leaf placed in a middle cell by (loc1, r1, angle1), the middle cell  *)
(* placed in the top cell by (loc2, r2, angle2).  With rational sines and cosines the image of a leaf point is exact:    *)
(*   loc2 + R2 * (loc1 + R1 * p)  =  loc2 + PythImageNum(c2, s2, r2, d1 * loc1 + PythImageNum(c1, s1, r1, p)) / (d1 * d2) *)
(* The harness instantiates the MIDDLE cell three times in the top cell (the same placement twice and once shifted):     *)
(* a hierarchy is a DAG, and every copy in the flattened result is the image under the placements on ITS path.            *)
(* Only points whose image is at least 1/10 away from a half-integer are kept ("nearest integer" is unambiguous).        *)
EXTENDS D4, TLC, Json

Triples == { <<3, 4, 5>>, <<4, 3, 5>>, <<5, 12, 13>>, <<12, 5, 13>>, <<8, 15, 17>>, <<15, 8, 17>> }
Signed == { <<sx * t[1], sy * t[2], t[3]>> : t \in Triples, sx \in {1, -1}, sy \in {1, -1} }
Loc1 == <<3, 5>>
Loc2 == <<10, 20>>
Grid == (-3..3) \X (-3..3)
VARIABLE c
Init == c \in [cs1 : Signed, r1 : BOOLEAN, cs2 : Signed, r2 : BOOLEAN]
Next == UNCHANGED c
Spec == Init /\ [][Next]_c

Abs(x) == IF x >= 0 THEN x ELSE -x
D == c.cs1[3] * c.cs2[3]
Safe(n) == LET f == (2 * n) % (2 * D) IN 5 * Abs(f - D) >= D
Mid(p) == LET i == PythImageNum(c.cs1[1], c.cs1[2], c.r1, p) IN <<(c.cs1[3] * Loc1[1]) + i[1], (c.cs1[3] * Loc1[2]) + i[2]>>     \* d1 * (point in the middle cell)
Img(p) == PythImageNum(c.cs2[1], c.cs2[2], c.r2, Mid(p))                                                                        \* D * (image - loc2)
Pts == { <<p[1], p[2], Img(p)[1], Img(p)[2]>> : p \in { q \in Grid : Safe(Img(q)[1]) /\ Safe(Img(q)[2]) } }
\* both maps are isometries: |Img(p) - Img(0)|^2 = D^2 |p|^2
LengthPreserved == \A p \in Grid : LET a == Img(p)[1] - Img(<<0, 0>>)[1]  b == Img(p)[2] - Img(<<0, 0>>)[2] IN
                     (a * a) + (b * b) = D * D * ((p[1] * p[1]) + (p[2] * p[2]))
\* with the identity-like first level (c1 = d1 is not among the triples) nothing to tie; with r1 = r2 = FALSE the composition is the
\* rotation by the sum of the angles: cos = c1 c2 - s1 s2, sin = s1 c2 + c1 s2 over D
SumOfAngles == (~c.r1 /\ ~c.r2) => \A p \in Grid :
                 LET cc == (c.cs1[1] * c.cs2[1]) - (c.cs1[2] * c.cs2[2])   ss == (c.cs1[2] * c.cs2[1]) + (c.cs1[1] * c.cs2[2])
                     off == PythImageNum(c.cs2[1], c.cs2[2], FALSE, <<c.cs1[3] * Loc1[1], c.cs1[3] * Loc1[2]>>)
                 IN Img(p) = <<off[1] + (cc * p[1]) - (ss * p[2]), off[2] + (ss * p[1]) + (cc * p[2])>>
RECURSIVE SetToSeq(_)
SetToSeq(S) == IF S = {} THEN <<>> ELSE LET x == CHOOSE y \in S : TRUE IN <<x>> \o SetToSeq(S \ {x})
Emit == PrintT(<<"CASE", ToJson([c1 |-> c.cs1[1], s1 |-> c.cs1[2], d1 |-> c.cs1[3], r1 |-> c.r1, loc1 |-> Loc1,
                                 c2 |-> c.cs2[1], s2 |-> c.cs2[2], d2 |-> c.cs2[3], r2 |-> c.r2, loc2 |-> Loc2,
                                 den |-> D, pts |-> SetToSeq(Pts)])>>)
=============================================================================
