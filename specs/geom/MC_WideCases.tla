---------------------------- MODULE MC_WideCases ----------------------------
(***************************************************************************)
(* C13 at chip-scale coordinates (S->I).  Contains.tla decides containment  *)
(* exactly, but its cross products fit TLC's 32-bit integers only below     *)
(* about 10^4; an implementation whose arithmetic is exact there and lossy  *)
(* above (a narrower integer, floating point) passes every small case.      *)
(* Here every simple triangle and quadrilateral of the lattice 0..GW is     *)
(* carried by invertible integer affine maps                               *)
(*        (x, y) |-> (a*x + b*y + ox, d*y + oy),   a # 0, d # 0            *)
(* to coordinates of 10^5 .. 2*10^9.  Such a map preserves simplicity and   *)
(* containment, so                                                         *)
(*   AffineAgree   WInside(M p, M t) = Inside(p, t) for every lattice p    *)
(* ties the wide predicate (WideContains / WideInt limbs) to the plain one  *)
(* on every emitted polygon; the emitted expectation additionally covers    *)
(* the four unit neighbours of every image point, where only the wide       *)
(* predicate speaks.  The second family is the near-miss triangle of        *)
(* MC_WideContains (its hypotenuse passes the centre of its bounding box at *)
(* a cross product of exactly 1 against products of 10^17..10^18): a 5 x 5  *)
(* window round that centre, the vertices and points near two corners, in  *)
(* all eight signed axis permutations and both orientations.               *)
(* Coordinate DIFFERENCES stay below 2^31 and products below 2^62, so the   *)
(* implementation's 64-bit arithmetic is exact on every case emitted.       *)
(***************************************************************************)
EXTENDS WideContains, TLC, Json

CONSTANTS GW, GQ                                       \* lattice of the triangles, lattice of the quadrilaterals (GQ <= GW)
G == (0..GW) \X (0..GW)
Q4 == (0..GQ) \X (0..GQ)
Tri == { <<a, b, c>> : a \in G, b \in G, c \in G }
Quad == { <<a, b, c, d>> : a \in Q4, b \in Q4, c \in Q4, d \in Q4 }
Base == { t \in Tri \cup Quad : IsSimple(t) }

Maps == { [a |-> 300000001,  b |-> 0,        d |-> 300000001, ox |-> 0,           oy |-> 0],
          [a |-> 300000001,  b |-> 0,        d |-> 299999999, ox |-> -1000000000, oy |-> 900000000],
          [a |-> 65537,      b |-> 0,        d |-> 500000003, ox |-> -7,          oy |-> 11],
          [a |-> 200000003,  b |-> 99999989, d |-> 150000001, ox |-> -450000000,  oy |-> -225000000],
          [a |-> -300000001, b |-> 0,        d |-> 299999999, ox |-> 450000000,   oy |-> -450000000],
          [a |-> 33554433,   b |-> 16777217, d |-> 67108865,  ox |-> 100003,      oy |-> -100003],   \* 2^25+1, 2^24+1, 2^26+1: beyond f32, products beyond f64
          [a |-> 1,          b |-> 0,        d |-> 1,         ox |-> 1073741000,  oy |-> -1073741000] }
Ap(m, p) == << (m.a * p[1]) + (m.b * p[2]) + m.ox, (m.d * p[2]) + m.oy >>
MapPoly(m, t) == [i \in 1..Len(t) |-> Ap(m, t[i])]

HypX == {65537, 100003, 4194305, 94906267, 300000001, 1000000001, 1500000001}    \* all odd; 94906267^2 is the first square beyond 2^53
\* the eight signed axis permutations, followed by a translation (identity for s = 0)
Sym(s, p) == LET q == IF s >= 4 THEN <<p[2], p[1]>> ELSE p
                 sx == IF s % 2 = 1 THEN -1 ELSE 1
                 sy == IF (s \div 2) % 2 = 1 THEN -1 ELSE 1
             IN IF s = 0 THEN p ELSE <<(sx * q[1]) - 1000, (sy * q[2]) + 777>>
HypTri(X) == << <<0, 0>>, <<X, 0>>, <<X, X + 2>> >>

VARIABLE c
\* one initial state per map (TLC's workers share them); its successors are the cases
Init == c \in { [kind |-> "start", m |-> m] : m \in Maps }
Next == /\ c.kind = "start"
        /\ c' \in { [kind |-> "affine", t |-> t, m |-> c.m] : t \in Base }
                  \cup (IF c.m.ox = 0 THEN { [kind |-> "hyp", X |-> X, rev |-> r, s |-> s] : X \in HypX, r \in BOOLEAN, s \in 0..7 } ELSE {})
Spec == Init /\ [][Next]_c

Rev(s) == [i \in 1..Len(s) |-> s[Len(s) + 1 - i]]
Poly == IF c.kind = "affine" THEN MapPoly(c.m, c.t)
        ELSE LET h == [i \in 1..3 |-> Sym(c.s, HypTri(c.X)[i])] IN IF c.rev THEN Rev(h) ELSE h

DX == <<0, 1, -1, 0, 0>>
DY == <<0, 0, 0, 1, -1>>
NQA == (GW + 1) * (GW + 1) * 5
QA(k) == LET g == (k - 1) \div 5   j == ((k - 1) % 5) + 1
             mp == Ap(c.m, <<g % (GW + 1), g \div (GW + 1)>>)
         IN <<mp[1] + DX[j], mp[2] + DY[j]>>
QH(k) == LET X == c.X IN Sym(c.s,
         IF k <= 25 THEN <<(X \div 2) + ((k - 1) % 5) - 2, ((X + 2) \div 2) + ((k - 1) \div 5) - 2>>
         ELSE IF k = 26 THEN <<0, 0>> ELSE IF k = 27 THEN <<X, 0>> ELSE IF k = 28 THEN <<X, X + 2>>
         ELSE IF k = 29 THEN <<1, 0>> ELSE IF k = 30 THEN <<1, 2>> ELSE IF k = 31 THEN <<X - 1, X>>
         ELSE <<X - 1, X + 1>>)
Qs == IF c.kind = "affine" THEN [k \in 1..NQA |-> QA(k)] ELSE [k \in 1..32 |-> QH(k)]
Expect == [k \in 1..Len(Qs) |-> IF WInside(Qs[k], Poly) THEN 1 ELSE 0]

\* model level: an invertible affine image answers like its pre-image
AffineAgree == c.kind = "affine" => \A p \in G : WInside(Ap(c.m, p), MapPoly(c.m, c.t)) = Inside(p, c.t)
\* model level: the near miss is a miss by one unit of area, whatever the vertex order
HypNearMiss == c.kind = "hyp" =>
   /\ ~WInside(Sym(c.s, <<c.X \div 2, (c.X + 2) \div 2>>), Poly)
   /\ WInside(Sym(c.s, <<(c.X \div 2) + 1, (c.X + 2) \div 2>>), Poly)
   /\ ~WInside(Sym(c.s, <<c.X - 1, c.X + 1>>), Poly) /\ WInside(Sym(c.s, <<c.X - 1, c.X>>), Poly)
\* every emitted case is wide (the plain predicate could not have decided it)
AllWide == c.kind # "start" => IsWide(Poly)

Emit == c.kind # "start" => PrintT(<<"CASE", ToJson([kind |-> c.kind, poly |-> Poly, qs |-> Qs, expect |-> Expect])>>)
=============================================================================
