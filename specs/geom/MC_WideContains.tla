--------------------------- MODULE MC_WideContains ---------------------------
(***************************************************************************)
(* Ties the wide arithmetic to the plain one and to algebra:                *)
(*  SmallAgree   SgnDiffProd = sign(a*b - c*d) for all a, b, c, d of a set  *)
(*               of values whose products fit 32 bits (limb boundaries      *)
(*               2047/2048/2049, 4095, 4096, 32767 and their negatives)      *)
(*  Identities   X*X - (X+1)(X-1) = 1, (X+1)(X-1) - X*X = -1,               *)
(*               2X*Y - X*2Y = 0, X*(X+1) vs (X+2)*(X-1) = +2 ... for X up  *)
(*               to 2^30 (values no 32-bit product reaches)                 *)
(*  InsideAgree  WInside = Inside for every triangle and every quadrilateral*)
(*               vertex list on the 4 x 4 grid queried at every grid point  *)
(***************************************************************************)
EXTENDS WideContains, TLC

Vals == {0, 1, 2, 3, 7, 2047, 2048, 2049, 4095, 4096, 20000, 32767}
SVals == Vals \cup { -v : v \in Vals }
SmallAgree == \A a \in SVals, b \in SVals, c \in SVals, d \in SVals : SgnDiffProd(a, b, c, d) = WSgn((a * b) - (c * d))

Big == {65535, 65536, 300000001, 1000000001, 1073741823, 2147483645, 4194303, 4194304, 4196351}
Identities == \A X \in Big :
  /\ SgnDiffProd(X, X, X + 1, X - 1) = 1
  /\ SgnDiffProd(X + 1, X - 1, X, X) = -1
  /\ SgnDiffProd(-X, X, -(X + 1), X - 1) = -1
  /\ SgnDiffProd(X, X + 1, X + 2, X - 1) = 1            \* X^2 + X - (X^2 + X - 2) = 2
  /\ \A Y \in {3, 2047, 1000003} : SgnDiffProd(X \div 2, 2 * Y, 2 * (X \div 2), Y) = 0
  /\ SgnDiffProd(X, 0, 0, X) = 0 /\ SgnDiffProd(X, 1, 0, X) = 1 /\ SgnDiffProd(0, X, X, 1) = -1

G == (0..3) \X (0..3)
Tri == { <<a, b, c>> : a \in G, b \in G, c \in G }
Quads == { <<a, b, c, d>> : a \in {<<0, 0>>, <<1, 0>>}, b \in G, c \in G, d \in G }
InsideAgree == /\ \A t \in Tri : \A p \in G : WInside(p, t) = Inside(p, t)
               /\ \A q \in Quads : \A p \in G : WInside(p, q) = Inside(p, q)
\* translation far out does not change the answer (the wide predicate at 10^9 against the plain one at the origin)
Off == <<1000000000, -999999000>>
Sh(p) == <<p[1] + Off[1], p[2] + Off[2]>>
FarAgree == \A t \in Tri : \A p \in G : WInside(Sh(p), <<Sh(t[1]), Sh(t[2]), Sh(t[3])>>) = Inside(p, t)
\* the triangle of the hypotenuse that passes one unit from the centre of its bounding box
HypTri(X) == << <<0, 0>>, <<X, 0>>, <<X, X + 2>> >>
NearMiss == \A X \in {300000001, 1000000001} :
               /\ ~WInside(<<X \div 2, (X + 2) \div 2>>, HypTri(X))          \* left of the hypotenuse by one unit of area
               /\ WInside(<<(X \div 2) + 1, (X + 2) \div 2>>, HypTri(X))
               /\ WInside(<<X, X + 2>>, HypTri(X)) /\ WInside(<<1, 0>>, HypTri(X)) /\ ~WInside(<<1, 2>>, HypTri(X))

VARIABLE u
Init == u = 0
Next == UNCHANGED u
Spec == Init /\ [][Next]_u
=============================================================================
