------------------------------ MODULE Trace_Contains ------------------------------
(***************************************************************************)
(* I->S for C13: each line is one random larger polygon recorded from the   *)
(* harness's generator together with query points and the answers of        *)
(* layout21raw's `contains`.  TLC first checks that the polygon is in the   *)
(* domain (IsSimple - a machinery check), then every answer against Inside. *)
(***************************************************************************)
EXTENDS Contains, TLC, Json, IOUtils

Rec == ndJsonDeserialize(IOEnv.TRACE)
VARIABLE l

Wrong(r) == { i \in 1..Len(r.qs) : (r.ans[i] = 1) # Inside(r.qs[i], r.poly) }

TInit == l = 1
TNext == /\ l <= Len(Rec)
         /\ l' = l + 1
         /\ LET r == Rec[l] IN
            IF ~IsSimple(r.poly) THEN PrintT(<<"BAD", ToJson([i |-> l, verdict |-> "machinery-not-simple"])>>)
            ELSE LET w == Wrong(r) IN
                 w = {} \/ PrintT(<<"BAD", ToJson([i |-> l, verdict |-> "wrong-answer", which |-> w])>>)
TSpec == TInit /\ [][TNext]_l
Accepted == \/ TLCGet("stats").diameter - 1 = Len(Rec)
            \/ PrintT(<<"INFO", "unconsumed", TLCGet("stats").diameter, Len(Rec)>>) /\ FALSE
=============================================================================
