---------------------------- MODULE WideContains ----------------------------
(***************************************************************************)
(* Contains.tla over the whole GDSII coordinate range.  Same definitions,   *)
(* with the sign of every cross product taken from WideInt.SgnDiffProd, so  *)
(* that nothing overflows TLC's 32-bit integers as long as coordinate       *)
(* DIFFERENCES stay below 2^31 (coordinates within +-2^30).                  *)
(* MC_WideContains checks WInside = Inside wherever both are defined.       *)
(***************************************************************************)
EXTENDS Contains, WideInt

WCrossSgn(o, a, b) == SgnDiffProd(a[1] - o[1], b[2] - o[2], a[2] - o[2], b[1] - o[1])
WOnSeg(p, a, b) == /\ WCrossSgn(a, b, p) = 0
                   /\ Min(a[1], b[1]) <= p[1] /\ p[1] <= Max(a[1], b[1])
                   /\ Min(a[2], b[2]) <= p[2] /\ p[2] <= Max(a[2], b[2])
WOnBoundary(p, poly) == \E i \in 1..Len(poly) : WOnSeg(p, EdgeA(poly, i), EdgeB(poly, i))
WCrossRight(p, poly) == Cardinality({ i \in 1..Len(poly) :
    LET a == EdgeA(poly, i)  b == EdgeB(poly, i) IN
    /\ (a[2] > p[2]) # (b[2] > p[2])
    /\ LET s == WCrossSgn(a, b, p) IN IF b[2] > a[2] THEN s > 0 ELSE s < 0 })
WInside(p, poly) == WOnBoundary(p, poly) \/ (WCrossRight(p, poly) % 2 = 1)

\* which arithmetic a shape needs
IsWide(pts) == \E i \in 1..Len(pts) : Abs(pts[i][1]) >= 16384 \/ Abs(pts[i][2]) >= 16384
=============================================================================
