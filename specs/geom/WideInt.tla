------------------------------ MODULE WideInt ------------------------------
(***************************************************************************)
(* Exact sign of a*b - c*d for integers of up to 31 bits, inside TLC's      *)
(* 32-bit arithmetic.  GDSII coordinates are 32-bit; the cross products     *)
(* that decide containment need 64.  A magnitude is split into three limbs  *)
(* of 11 bits (little-endian), products are formed limb by limb (each       *)
(* partial sum < 3 * 2^22), carries are propagated, and the two six-limb    *)
(* magnitudes are compared from the top.                                    *)
(***************************************************************************)
EXTENDS Integers, Sequences

WB == 2048                                              \* limb base 2^11
WAbs(a) == IF a >= 0 THEN a ELSE -a
WSgn(a) == IF a > 0 THEN 1 ELSE IF a < 0 THEN -1 ELSE 0
Limbs(m) == << m % WB, (m \div WB) % WB, m \div (WB * WB) >>          \* 0 <= m < 2^31: third limb < 2^9

\* the six-limb magnitude of x * y, x and y given by their limbs
MulLimbs(x, y) ==
  LET raw == [k \in 1..6 |->                            \* coefficient of WB^(k-1) before carries
                LET S == { i \in 1..3 : (k + 1 - i) \in 1..3 } IN
                (IF 1 \in S THEN x[1] * y[k] ELSE 0) + (IF 2 \in S THEN x[2] * y[k - 1] ELSE 0) + (IF 3 \in S THEN x[3] * y[k - 2] ELSE 0)]
      c1 == raw[1] \div WB               r1 == raw[1] % WB
      c2 == (raw[2] + c1) \div WB        r2 == (raw[2] + c1) % WB
      c3 == (raw[3] + c2) \div WB        r3 == (raw[3] + c2) % WB
      c4 == (raw[4] + c3) \div WB        r4 == (raw[4] + c3) % WB
      c5 == (raw[5] + c4) \div WB        r5 == (raw[5] + c4) % WB
      r6 == raw[6] + c5
  IN << r1, r2, r3, r4, r5, r6 >>

\* -1 / 0 / 1 as the magnitude p is below / equal to / above q (compare from the most significant limb)
CmpLimbs(p, q) ==
  LET RECURSIVE C(_)
      C(k) == IF k = 0 THEN 0 ELSE IF p[k] > q[k] THEN 1 ELSE IF p[k] < q[k] THEN -1 ELSE C(k - 1)
  IN C(6)

\* sign of a*b - c*d
SgnDiffProd(a, b, c, d) ==
  LET s1 == WSgn(a) * WSgn(b)   s2 == WSgn(c) * WSgn(d)
      p == MulLimbs(Limbs(WAbs(a)), Limbs(WAbs(b)))   q == MulLimbs(Limbs(WAbs(c)), Limbs(WAbs(d)))
  IN IF s1 # s2 THEN WSgn(s1 - s2)                      \* different signs (or one side zero): decided by the signs
     ELSE IF s1 = 0 THEN 0
     ELSE s1 * CmpLimbs(p, q)                           \* same non-zero sign: compare magnitudes
=============================================================================
