------------------------------ MODULE LefGrammar ------------------------------
(***************************************************************************)
(* The LEF syntax of the supported subset (LEF/DEF Language Reference 5.8)  *)
(* as an ACCEPTOR: a state machine over a token list that consumes one      *)
(* STATEMENT per step and keeps the stack of open blocks.  It is the        *)
(* counterpart of the renderer LefSyntax.tla (which goes from a library to  *)
(* tokens) and is written from the same reference, not from the crate.      *)
(*                                                                          *)
(* Tokens (from an independent tokenizer: white space, comments, quotes):   *)
(*   [c |-> "w", u |-> upper-cased text]   word (keyword or name)           *)
(*   [c |-> "n"]                           number                           *)
(*   [c |-> "s"]                           string literal                   *)
(*   [c |-> ";"]                           semicolon                        *)
(*                                                                          *)
(* A statement form is a pattern (a regular expression over tokens) valid   *)
(* in one block context, optionally opening a block.  Blocks are closed by  *)
(* END <name> (MACRO, PIN, SITE, VIA), END <keyword> (UNITS,                *)
(* PROPERTYDEFINITIONS, LIBRARY) or a bare END (PORT, OBS, DENSITY).        *)
(***************************************************************************)
EXTENDS Integers, Sequences, FiniteSets

\* ---- patterns
K(w) == [t |-> "k", w |-> w]                  \* this keyword (case-insensitive)
Ks(ws) == [t |-> "ks", ws |-> ws]             \* one of these keywords
N == [t |-> "n"]                              \* a number
W == [t |-> "w"]                              \* a name (a word; numbers are accepted as names)
S == [t |-> "s"]                              \* a string literal
V == [t |-> "v"]                              \* a property value: word, number or string
SEMI == [t |-> ";"]
Not(w) == [t |-> "not", w |-> w]              \* any token except this keyword
Sq(ps) == [t |-> "seq", ps |-> ps]
Op(p) == [t |-> "opt", p |-> p]
St(p) == [t |-> "star", p |-> p]
Pl(p) == Sq(<<p, St(p)>>)
Al(ps) == [t |-> "alt", ps |-> ps]

TokMatches(tk, p) ==
  CASE p.t = "k" -> tk.c = "w" /\ tk.u = p.w
    [] p.t = "ks" -> tk.c = "w" /\ tk.u \in p.ws
    [] p.t = "n" -> tk.c = "n"
    [] p.t = "w" -> tk.c \in {"w", "n"}
    [] p.t = "s" -> tk.c = "s"
    [] p.t = "v" -> tk.c \in {"w", "n", "s"}
    [] p.t = ";" -> tk.c = ";"
    [] p.t = "not" -> ~(tk.c = "w" /\ tk.u = p.w)
    [] OTHER -> FALSE

\* Ends(toks, p, I): the positions reachable by matching p from any position in I
RECURSIVE Ends(_, _, _)
Ends(toks, p, I) ==
  CASE p.t = "seq" -> LET RECURSIVE Fold(_, _) Fold(k, J) == IF k > Len(p.ps) \/ J = {} THEN J ELSE Fold(k + 1, Ends(toks, p.ps[k], J)) IN Fold(1, I)
    [] p.t = "opt" -> I \cup Ends(toks, p.p, I)
    [] p.t = "star" -> LET RECURSIVE Fix(_) Fix(J) == LET J2 == J \cup Ends(toks, p.p, J) IN IF J2 = J THEN J ELSE Fix(J2) IN Fix(I)
    [] p.t = "alt" -> UNION { Ends(toks, p.ps[k], I) : k \in 1..Len(p.ps) }
    [] OTHER -> { i + 1 : i \in { j \in I : j <= Len(toks) /\ TokMatches(toks[j], p) } }

\* ---- the statement forms:  [ctx, pat, open]   open = "" or the context the statement opens (named by token 2 if "name")
F(ctx, pat) == [ctx |-> ctx, pat |-> pat, open |-> "", named |-> FALSE]
B(ctx, pat, open, named) == [ctx |-> ctx, pat |-> pat, open |-> open, named |-> named]
St1(ctx, kw, args) == F(ctx, Sq(<<K(kw)>> \o args \o <<SEMI>>))
OnOff == Ks({"ON", "OFF"})
Pt == Sq(<<N, N>>)
Orient == Ks({"N", "S", "E", "W", "FN", "FS", "FE", "FW"})
Sym == St(Ks({"X", "Y", "R90"}))
PropStmt(ctx) == F(ctx, Sq(<<K("PROPERTY"), Pl(Sq(<<W, V>>)), SEMI>>))
StepPat == Sq(<<K("DO"), N, K("BY"), N, K("STEP"), N, N>>)
Shape(kw, body) == Sq(<<K(kw), Op(Sq(<<K("MASK"), N>>)), Al(<<Sq(<<K("ITERATE"), body, StepPat>>), body>>), SEMI>>)
GeomForms(ctx) == {
  F(ctx, Sq(<<K("LAYER"), W, Op(K("EXCEPTPGNET")), Op(Al(<<Sq(<<K("SPACING"), N>>), Sq(<<K("DESIGNRULEWIDTH"), N>>)>>)), SEMI>>)),
  St1(ctx, "WIDTH", <<N>>),
  F(ctx, Shape("RECT", Sq(<<Pt, Pt>>))), F(ctx, Shape("POLYGON", Sq(<<Pt, Pt, Pl(Pt)>>))), F(ctx, Shape("PATH", Pl(Pt))),
  F(ctx, Sq(<<K("VIA"), Al(<<Sq(<<K("ITERATE"), Pt, W, StepPat>>), Sq(<<Pt, W>>)>>), SEMI>>)) }
UnitKinds == { <<"TIME", "NANOSECONDS">>, <<"CAPACITANCE", "PICOFARADS">>, <<"RESISTANCE", "OHMS">>, <<"POWER", "MILLIWATTS">>,
               <<"CURRENT", "MILLIAMPS">>, <<"VOLTAGE", "VOLTS">>, <<"DATABASE", "MICRONS">>, <<"FREQUENCY", "MEGAHERTZ">> }
PropObjs == {"LIBRARY", "COMPONENT", "PIN", "MACRO", "VIA", "VIARULE", "LAYER", "NONDEFAULTRULE", "NET", "SPECIALNET", "COMPONENTPIN",
             "DESIGN", "ROW", "REGION", "GROUP"}
AntennaKeys == {"ANTENNADIFFAREA", "ANTENNAGATEAREA", "ANTENNAPARTIALMETALAREA", "ANTENNAPARTIALMETALSIDEAREA", "ANTENNAPARTIALCUTAREA",
                "ANTENNAPARTIALDIFFAREA", "ANTENNAMAXAREACAR", "ANTENNAMAXSIDEAREACAR", "ANTENNAMAXCUTCAR", "ANTENNASIZE", "ANTENNAMETALAREA", "ANTENNAMETALLENGTH"}

Forms ==
  { St1("LIB", "VERSION", <<N>>), St1("LIB", "NAMESCASESENSITIVE", <<OnOff>>), St1("LIB", "NOWIREEXTENSIONATPIN", <<OnOff>>),
    St1("LIB", "BUSBITCHARS", <<S>>), St1("LIB", "DIVIDERCHAR", <<S>>), St1("LIB", "MANUFACTURINGGRID", <<N>>),
    St1("LIB", "USEMINSPACING", <<K("OBS"), OnOff>>), St1("LIB", "CLEARANCEMEASURE", <<Ks({"MAXXY", "EUCLIDEAN"})>>), St1("LIB", "FIXEDMASK", <<>>),
    F("LIB", Sq(<<K("BEGINEXT"), S, St(Not("ENDEXT")), K("ENDEXT")>>)),
    B("LIB", K("UNITS"), "UNITS", FALSE), B("LIB", K("PROPERTYDEFINITIONS"), "PROPDEFS", FALSE),
    B("LIB", Sq(<<K("SITE"), W>>), "SITE", TRUE), B("LIB", Sq(<<K("VIA"), W, Op(K("DEFAULT"))>>), "VIA", TRUE),
    B("LIB", Sq(<<K("MACRO"), W>>), "MACRO", TRUE) }
  \cup { St1("UNITS", u[1], <<K(u[2]), N>>) : u \in UnitKinds }
  \cup { F("PROPDEFS", Sq(<<Ks(PropObjs), W, Al(<<Sq(<<Ks({"INTEGER", "REAL"}), Op(Sq(<<K("RANGE"), N, N>>)), Op(N)>>), Sq(<<K("STRING"), Op(S)>>)>>), SEMI>>)) }
  \cup { St1("SITE", "CLASS", <<Ks({"PAD", "CORE"})>>), St1("SITE", "SYMMETRY", <<Sym>>), St1("SITE", "SIZE", <<N, K("BY"), N>>) }
  \cup { St1("VIA", "RESISTANCE", <<N>>), St1("VIA", "LAYER", <<W>>),
         F("VIA", Sq(<<K("RECT"), Op(Sq(<<K("MASK"), N>>)), Pt, Pt, SEMI>>)), F("VIA", Sq(<<K("POLYGON"), Op(Sq(<<K("MASK"), N>>)), Pt, Pt, Pl(Pt), SEMI>>)),
         St1("VIA", "VIARULE", <<W>>), St1("VIA", "CUTSIZE", <<N, N>>), St1("VIA", "LAYERS", <<W, W, W>>), St1("VIA", "CUTSPACING", <<N, N>>),
         St1("VIA", "ENCLOSURE", <<N, N, N, N>>), St1("VIA", "ROWCOL", <<N, N>>), St1("VIA", "ORIGIN", <<N, N>>), St1("VIA", "OFFSET", <<N, N, N, N>>),
         PropStmt("VIA") }
  \cup { St1("MACRO", "CLASS", <<W, Op(W)>>), St1("MACRO", "FIXEDMASK", <<>>), St1("MACRO", "FOREIGN", <<W, Op(Sq(<<Pt, Op(Orient)>>))>>),
         St1("MACRO", "ORIGIN", <<Pt>>), St1("MACRO", "EEQ", <<W>>), St1("MACRO", "SIZE", <<N, K("BY"), N>>), St1("MACRO", "SYMMETRY", <<Sym>>),
         St1("MACRO", "SITE", <<W>>), St1("MACRO", "SOURCE", <<Ks({"USER", "GENERATE", "BLOCK", "NETLIST", "DIST", "TIMING"})>>), PropStmt("MACRO"),
         B("MACRO", Sq(<<K("PIN"), W>>), "PIN", TRUE), B("MACRO", K("OBS"), "OBS", FALSE), B("MACRO", K("DENSITY"), "DENSITY", FALSE) }
  \cup { St1("PIN", "DIRECTION", <<Al(<<Sq(<<K("OUTPUT"), Op(K("TRISTATE"))>>), Ks({"INPUT", "INOUT", "FEEDTHRU"})>>)>>),
         St1("PIN", "USE", <<Ks({"SIGNAL", "ANALOG", "POWER", "GROUND", "CLOCK"})>>), St1("PIN", "SHAPE", <<Ks({"ABUTMENT", "RING", "FEEDTHRU"})>>),
         St1("PIN", "ANTENNAMODEL", <<Ks({"OXIDE1", "OXIDE2", "OXIDE3", "OXIDE4"})>>),
         F("PIN", Sq(<<Ks(AntennaKeys), N, Op(Sq(<<K("LAYER"), W>>)), SEMI>>)),
         St1("PIN", "TAPERRULE", <<W>>), St1("PIN", "SUPPLYSENSITIVITY", <<W>>), St1("PIN", "GROUNDSENSITIVITY", <<W>>), St1("PIN", "MUSTJOIN", <<W>>),
         St1("PIN", "NETEXPR", <<S>>), PropStmt("PIN"), B("PIN", K("PORT"), "PORT", FALSE) }
  \cup { St1("PORT", "CLASS", <<Ks({"NONE", "CORE", "BUMP"})>>) } \cup GeomForms("PORT") \cup GeomForms("OBS")
  \cup { St1("DENSITY", "LAYER", <<W>>), St1("DENSITY", "RECT", <<N, N, N, N, N>>) }

\* how each kind of block is closed
CloseKind(ctx) == CASE ctx \in {"MACRO", "PIN", "SITE", "VIA"} -> "name"
                    [] ctx = "UNITS" -> "UNITS" [] ctx = "PROPDEFS" -> "PROPERTYDEFINITIONS"
                    [] ctx \in {"PORT", "OBS", "DENSITY"} -> "bare"
                    [] OTHER -> "LIBRARY"

(***************************************************************************)
(* The acceptor.  stack = sequence of [ctx, name]; the bottom is LIB.       *)
(***************************************************************************)
VARIABLES toks, pos, stack, gstatus      \* gstatus: "run" | "ok" | "err"
gvars == <<toks, pos, stack, gstatus>>

Top == stack[Len(stack)]
GInit(ts) == toks = ts /\ pos = 1 /\ stack = << [ctx |-> "LIB", name |-> ""] >> /\ gstatus = "run"

IsEnd(i) == i <= Len(toks) /\ toks[i].c = "w" /\ toks[i].u = "END"
\* the END that closes the innermost block, and where it ends
CloseEnds == LET ck == CloseKind(Top.ctx) IN
             IF ~IsEnd(pos) THEN {}
             ELSE IF ck = "bare" THEN {pos + 1}
             ELSE IF pos + 1 > Len(toks) THEN {}
             ELSE IF ck = "name" THEN (IF toks[pos + 1].c \in {"w", "n"} /\ toks[pos + 1].u = Top.name THEN {pos + 2} ELSE {})
             ELSE (IF toks[pos + 1].c = "w" /\ toks[pos + 1].u = ck THEN {pos + 2} ELSE {})

Candidates == { f \in Forms : f.ctx = Top.ctx /\ Ends(toks, f.pat, {pos}) # {} }
\* the longest match of the (unique by keyword) applicable form
MaxOf(Sx) == CHOOSE x \in Sx : \A y \in Sx : y <= x

Statement == /\ gstatus = "run" /\ pos <= Len(toks) /\ CloseEnds = {} /\ Candidates # {}
             /\ LET f == CHOOSE g \in Candidates : TRUE
                    e == MaxOf(Ends(toks, f.pat, {pos}))
                IN /\ pos' = e
                   /\ stack' = IF f.open = "" THEN stack
                               ELSE Append(stack, [ctx |-> f.open, name |-> IF f.named THEN toks[pos + 1].u ELSE ""])
             /\ UNCHANGED <<toks, gstatus>>
Close == /\ gstatus = "run" /\ CloseEnds # {}
         /\ pos' = MaxOf(CloseEnds)
         /\ IF Len(stack) = 1
            THEN stack' = stack /\ gstatus' = (IF MaxOf(CloseEnds) > Len(toks) THEN "ok" ELSE "err")     \* END LIBRARY must be last
            ELSE stack' = SubSeq(stack, 1, Len(stack) - 1) /\ UNCHANGED gstatus
         /\ UNCHANGED toks
\* end of input without END LIBRARY is legal at library level (LEF 5.6 and later)
Finish == /\ gstatus = "run" /\ pos > Len(toks)
          /\ gstatus' = (IF Len(stack) = 1 THEN "ok" ELSE "err") /\ UNCHANGED <<toks, pos, stack>>
Reject == /\ gstatus = "run" /\ pos <= Len(toks) /\ CloseEnds = {} /\ Candidates = {}
          /\ gstatus' = "err" /\ UNCHANGED <<toks, pos, stack>>
GNext == Statement \/ Close \/ Finish \/ Reject

\* at most one form applies at any point (the grammar is deterministic on its first keyword)
Deterministic == gstatus = "run" => Cardinality(Candidates) <= 1
StackWellFormed == Len(stack) >= 1 /\ stack[1].ctx = "LIB" /\ Len(stack) <= 5
=============================================================================
