------------------------------ MODULE LefLexer ------------------------------
(***************************************************************************)
(* The LEF lexer as a state machine over CHARACTER CLASSES, with explicit   *)
(* character index AND byte offset (the distinction is the heart of C11).   *)
(* Input: a sequence of characters, each [c |-> class, n |-> encoded bytes].*)
(*                                                                          *)
(*   NL   '\n'          WS   space / tab      SEMI ';'     QUOTE '"'        *)
(*   UWS  white space outside ASCII (U+00A0 2 bytes, U+3000 3 bytes):       *)
(*        starts a WhiteSpace token and ends a word like WS, but a run of   *)
(*        white space is only CONTINUED by ASCII blanks (lex_whitespace)    *)
(*   HASH '#'           DIGIT '0'..'9'        DOT '.'      MINUS '-'        *)
(*   ALPHA alphabetic (1, 2 or 3 bytes: a, é, 中)                           *)
(*   OTHER anything else (1 byte '(' ... 4 bytes, e.g. an emoji): not a     *)
(*         legal token start, legal inside words, strings and comments      *)
(*                                                                          *)
(* One step = one token (LexOne), as LefLexer::lex_one:                     *)
(*   NL -> NewLine (line + 1);  WS+ -> WhiteSpace;  SEMI -> SemiColon;      *)
(*   QUOTE .. QUOTE -> StringLiteral (closing quote optional at end of      *)
(*   input);  HASH .. before NL -> Comment;  DIGIT|DOT|MINUS|ALPHA followed *)
(*   by everything up to the next white space -> Word (Number or Name);     *)
(*   OTHER -> lexical error.  NewLine, WhiteSpace, Comment are not emitted. *)
(* Token spans are BYTE offsets [start, stop) into the text.                *)
(***************************************************************************)
EXTENDS Integers, Sequences

VARIABLES chars, ci, bpos, line, toks, lstatus
lvars == <<chars, ci, bpos, line, toks, lstatus>>

Cls(i) == chars[i].c
IsSpace(i) == Cls(i) \in {"NL", "WS", "UWS"}
\* first index >= i whose class satisfies stop condition, or Len+1
Classes == {"NL", "WS", "UWS", "SEMI", "QUOTE", "HASH", "DIGIT", "DOT", "MINUS", "ALPHA", "OTHER"}
RECURSIVE Scan(_, _)
Scan(i, stop) == IF i > Len(chars) THEN i ELSE IF Cls(i) \in stop THEN i ELSE Scan(i + 1, stop)
RECURSIVE Bytes(_, _)
Bytes(i, j) == IF i >= j THEN 0 ELSE chars[i].n + Bytes(i + 1, j)      \* bytes of chars i..j-1

LInit(cs) == chars = cs /\ ci = 1 /\ bpos = 0 /\ line = 1 /\ toks = <<>> /\ lstatus = "run"

Advance(j, tt, emit) ==
  /\ ci' = j /\ bpos' = bpos + Bytes(ci, j)
  /\ toks' = IF emit THEN Append(toks, [t |-> tt, start |-> bpos, stop |-> bpos + Bytes(ci, j), line |-> line]) ELSE toks
  /\ UNCHANGED <<chars, lstatus>>

LexNewline == lstatus = "run" /\ ci <= Len(chars) /\ Cls(ci) = "NL" /\ Advance(ci + 1, "NewLine", FALSE) /\ line' = line + 1
LexSpace   == lstatus = "run" /\ ci <= Len(chars) /\ Cls(ci) \in {"WS", "UWS"}
              /\ Advance(Scan(ci + 1, Classes \ {"WS"}), "WhiteSpace", FALSE) /\ UNCHANGED line
LexSemi    == lstatus = "run" /\ ci <= Len(chars) /\ Cls(ci) = "SEMI" /\ Advance(ci + 1, "SemiColon", TRUE) /\ UNCHANGED line
LexString  == lstatus = "run" /\ ci <= Len(chars) /\ Cls(ci) = "QUOTE"
              /\ LET q == Scan(ci + 1, {"QUOTE"}) IN
                 Advance(IF q <= Len(chars) THEN q + 1 ELSE q, "StringLiteral", TRUE)
              /\ UNCHANGED line          \* (a newline inside a literal does not advance the line counter)
LexComment == lstatus = "run" /\ ci <= Len(chars) /\ Cls(ci) = "HASH"
              /\ Advance(Scan(ci + 1, {"NL"}), "Comment", FALSE) /\ UNCHANGED line
LexWord    == lstatus = "run" /\ ci <= Len(chars) /\ Cls(ci) \in {"DIGIT", "DOT", "MINUS", "ALPHA"}
              /\ Advance(Scan(ci + 1, {"NL", "WS", "UWS"}), "Word", TRUE) /\ UNCHANGED line
LexFail    == lstatus = "run" /\ ci <= Len(chars) /\ Cls(ci) = "OTHER"
              /\ lstatus' = "err" /\ UNCHANGED <<chars, ci, bpos, line, toks>>
LexDone    == lstatus = "run" /\ ci > Len(chars) /\ lstatus' = "ok" /\ UNCHANGED <<chars, ci, bpos, line, toks>>

LNext == LexNewline \/ LexSpace \/ LexSemi \/ LexString \/ LexComment \/ LexWord \/ LexFail \/ LexDone

\* Number / Name decision for words over the representative characters '1' '.' '-' 'a':
\* a number is  -?( 1+ ( . 1* )? | . 1+ )
WordIsNumber(i, j) ==
  LET s == IF Cls(i) = "MINUS" THEN i + 1 ELSE i
      AllDigits(a, b) == \A k \in a..(b - 1) : Cls(k) = "DIGIT"
      dots == { k \in s..(j - 1) : Cls(k) = "DOT" }
  IN /\ s < j
     /\ \A k \in s..(j - 1) : Cls(k) \in {"DIGIT", "DOT"}
     /\ \E k \in s..(j - 1) : Cls(k) = "DIGIT"
     /\ \A k1 \in dots, k2 \in dots : k1 = k2

(***************************************************************************)
(* Properties of every token list (C11): spans lie on character boundaries, *)
(* are non-empty, strictly increasing, inside the text, and there are never *)
(* more tokens than characters.                                             *)
(***************************************************************************)
CharStarts == { Bytes(1, k) : k \in 1..(Len(chars) + 1) }
SpansOK == /\ \A k \in 1..Len(toks) : toks[k].start \in CharStarts /\ toks[k].stop \in CharStarts
                                        /\ toks[k].start < toks[k].stop /\ toks[k].stop <= Bytes(1, Len(chars) + 1)
           /\ \A k \in 1..(Len(toks) - 1) : toks[k].stop <= toks[k + 1].start
           /\ Len(toks) <= Len(chars)
=============================================================================
