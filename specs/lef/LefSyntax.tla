------------------------------ MODULE LefSyntax ------------------------------
(***************************************************************************)
(* The LEF text syntax of the supported subset (LEF/DEF Language Reference  *)
(* 5.8), as an independent RENDERER: abstract library -> token sequence.    *)
(* Nothing is taken from the crate's writer.                                *)
(*                                                                          *)
(* Tokens:  KW  keyword or enumerated value (matched case-insensitively)    *)
(*          KWU keyword rendered in upper case only                         *)
(*          ID  identifier (case-sensitive)     NUM  decimal number         *)
(*          STR string literal (value includes the quotes)   SEMI  ";"      *)
(* Turning tokens into characters (keyword case, decimal spelling,          *)
(* whitespace, newlines, comments) is a lexical choice made per case.       *)
(*                                                                          *)
(* Abstract values: optional = sequence of length 0 or 1; decimal =         *)
(* [n |-> negative?, m |-> mantissa, s |-> scale] meaning (-1)^n m 10^-s,    *)
(* normalised (no trailing zero in m unless s = 0).                         *)
(***************************************************************************)
EXTENDS Integers, Sequences

KW(s)  == [k |-> "kw", v |-> s]
KWU(s) == [k |-> "kwu", v |-> s]
ID(s)  == [k |-> "id", v |-> s]
NUM(d) == [k |-> "num", d |-> d]
STR(s) == [k |-> "str", v |-> s]
SEMI   == [k |-> "semi"]

RECURSIVE Cat(_)
Cat(ss) == IF ss = <<>> THEN <<>> ELSE Head(ss) \o Cat(Tail(ss))
Map(f(_), s) == [i \in 1..Len(s) |-> f(s[i])]
Reverse(s) == [i \in 1..Len(s) |-> s[Len(s) + 1 - i]]
Opt(x, f(_)) == IF x = <<>> THEN <<>> ELSE f(x[1])

Dec(n, m, s) == [n |-> n, m |-> m, s |-> s]
Pt(p) == <<NUM(p[1]), NUM(p[2])>>
Pts(ps) == Cat(Map(Pt, ps))
Kws(ws) == Map(KW, ws)

\* ---- statements (each a token sequence ending in SEMI unless it opens/closes a block)
St1(k, toks) == <<KW(k)>> \o toks \o <<SEMI>>

\* geometry:  {RECT|POLYGON|PATH} [MASK m] [ITERATE] pts [DO nx BY ny STEP sx sy] ;
Geom(g) == <<KW(g.k)>> \o Opt(g.mask, LAMBDA m : <<KW("MASK"), NUM(m)>>)
           \o (IF g.iterate = <<>> THEN <<>> ELSE <<KW("ITERATE")>>)
           \o Pts(g.pts)
           \o Opt(g.iterate, LAMBDA it : <<KW("DO"), NUM(it[1]), KW("BY"), NUM(it[2]), KW("STEP"), NUM(it[3]), NUM(it[4])>>)
           \o <<SEMI>>
ViaInst(v) == <<KW("VIA")>> \o Pt(v.pt) \o <<ID(v.name), SEMI>>
\* LAYER name [EXCEPTPGNET] [SPACING n | DESIGNRULEWIDTH n] ;  { WIDTH n ; | geometry | VIA pt name ; }*
LayerGeom(lg) ==
  <<KW("LAYER"), ID(lg.layer_name)>>
  \o (IF lg.except_pg_net = <<TRUE>> THEN <<KW("EXCEPTPGNET")>> ELSE <<>>)
  \o Opt(lg.spacing, LAMBDA sp : <<KW(sp.k), NUM(sp.v)>>) \o <<SEMI>>
  \o Opt(lg.width, LAMBDA w : St1("WIDTH", <<NUM(w)>>))
  \o Cat(Map(Geom, lg.geoms)) \o Cat(Map(ViaInst, lg.vias))

Port(p) == <<KW("PORT")>> \o Opt(p.class, LAMBDA c : St1("CLASS", <<KW(c)>>))
           \o Cat(Map(LayerGeom, p.layers)) \o <<KW("END")>>
\* a record with vk = "split" is not a property: it ends the PROPERTY statement and opens the next one
\* (PROPERTY n v n v ; and PROPERTY n v ; PROPERTY n v ; denote the same list)
Prop(pr) == IF pr.vk = "split" THEN <<SEMI, KW("PROPERTY")>>
            ELSE <<ID(pr.name), (IF pr.vk = "str" THEN STR(pr.value) ELSE IF pr.vk = "num" THEN [k |-> "raw", v |-> pr.value] ELSE ID(pr.value))>>
Props(ps) == IF ps = <<>> THEN <<>> ELSE <<KW("PROPERTY")>> \o Cat(Map(Prop, ps)) \o <<SEMI>>
Antenna(a) == <<KWU(a.key), NUM(a.val)>> \o Opt(a.layer, LAMBDA l : <<KW("LAYER"), ID(l)>>) \o <<SEMI>>

\* the single-occurrence statements of a PIN, as a sequence of token sequences (any order is legal)
PinStmts(p) == <<
  Opt(p.direction, LAMBDA d : IF d = "OUTPUT TRISTATE" THEN St1("DIRECTION", <<KW("OUTPUT"), KW("TRISTATE")>>)
                              ELSE St1("DIRECTION", <<KW(d)>>)),
  Opt(p.use, LAMBDA u : St1("USE", <<KW(u)>>)),
  Opt(p.shape, LAMBDA u : St1("SHAPE", <<KW(u)>>)),
  Opt(p.antenna_model, LAMBDA u : St1("ANTENNAMODEL", <<KW(u)>>)),
  Cat(Map(Antenna, p.antenna_attrs)),
  Opt(p.taper_rule, LAMBDA u : St1("TAPERRULE", <<ID(u)>>)),
  Opt(p.supply_sensitivity, LAMBDA u : St1("SUPPLYSENSITIVITY", <<ID(u)>>)),
  Opt(p.ground_sensitivity, LAMBDA u : St1("GROUNDSENSITIVITY", <<ID(u)>>)),
  Opt(p.must_join, LAMBDA u : St1("MUSTJOIN", <<ID(u)>>)),
  Opt(p.net_expr, LAMBDA u : St1("NETEXPR", <<STR(u)>>)),
  Props(p.properties),
  Cat(Map(Port, p.ports)) >>
Ordered(stmts, rev) == Cat(IF rev THEN Reverse(stmts) ELSE stmts)
Pin(p, rev) == <<KW("PIN"), ID(p.name)>> \o Ordered(PinStmts(p), rev) \o <<KW("END"), ID(p.name)>>

Class(c) == St1("CLASS", <<KW(c.k)>> \o Kws(c.tp))
Foreign(f) == St1("FOREIGN", <<ID(f.cell)>> \o Opt(f.pt, Pt) \o Opt(f.orient, LAMBDA o : <<KW(o)>>))
DensRect(r) == St1("RECT", Pt(r.p1) \o Pt(r.p2) \o <<NUM(r.val)>>)
DensLayer(l) == St1("LAYER", <<ID(l.layer_name)>>) \o Cat(Map(DensRect, l.rects))
Density(ls) == <<KW("DENSITY")>> \o Cat(Map(DensLayer, ls)) \o <<KW("END")>>
Obs(ls) == IF ls = <<>> THEN <<>> ELSE <<KW("OBS")>> \o Cat(Map(LayerGeom, ls)) \o <<KW("END")>>

MacroStmts(m, rev) == <<
  Opt(m.class, Class),
  (IF m.fixed_mask THEN St1("FIXEDMASK", <<>>) ELSE <<>>),
  Opt(m.foreign, Foreign),
  Opt(m.origin, LAMBDA p : St1("ORIGIN", Pt(p))),
  Opt(m.eeq, LAMBDA u : St1("EEQ", <<ID(u)>>)),
  Opt(m.size, LAMBDA p : St1("SIZE", <<NUM(p[1]), KW("BY"), NUM(p[2])>>)),
  Opt(m.symmetry, LAMBDA ss : St1("SYMMETRY", Kws(ss))),
  Opt(m.site, LAMBDA u : St1("SITE", <<ID(u)>>)),
  Opt(m.source, LAMBDA u : St1("SOURCE", <<KW(u)>>)),
  Cat([i \in 1..Len(m.pins) |-> Pin(m.pins[i], rev)]),
  Obs(m.obs),
  Props(m.properties),
  Opt(m.density, Density) >>
Macro(m, rev) == <<KW("MACRO"), ID(m.name)>> \o Ordered(MacroStmts(m, rev), rev) \o <<KW("END"), ID(m.name)>>

Site(s) == <<KW("SITE"), ID(s.name)>> \o St1("CLASS", <<KW(s.class)>>)
           \o Opt(s.symmetry, LAMBDA ss : St1("SYMMETRY", Kws(ss)))
           \o St1("SIZE", <<NUM(s.size[1]), KW("BY"), NUM(s.size[2])>>) \o <<KW("END"), ID(s.name)>>

ViaShape(g) == <<KW(g.k)>> \o Opt(g.mask, LAMBDA m : <<KW("MASK"), NUM(m)>>) \o Pts(g.pts) \o <<SEMI>>
ViaLayer(l) == St1("LAYER", <<ID(l.layer_name)>>) \o Cat(Map(ViaShape, l.shapes))
Nums(ds) == Map(NUM, ds)
ViaDef(v) ==
  <<KW("VIA"), ID(v.name)>> \o (IF v.default THEN <<KW("DEFAULT")>> ELSE <<>>)
  \o Opt(v.fixed, LAMBDA f : Opt(f.resistance, LAMBDA r : St1("RESISTANCE", <<NUM(r)>>)) \o Cat(Map(ViaLayer, f.layers)))
  \o Opt(v.gen, LAMBDA g :
        St1("VIARULE", <<ID(g.rule)>>) \o St1("CUTSIZE", Nums(g.cutsize))
        \o St1("LAYERS", Map(ID, g.layers)) \o St1("CUTSPACING", Nums(g.cutspacing))
        \o St1("ENCLOSURE", Nums(g.enclosure))
        \o Opt(g.rowcol, LAMBDA r : St1("ROWCOL", Nums(r)))
        \o Opt(g.origin, LAMBDA r : St1("ORIGIN", Pt(r)))
        \o Opt(g.offset, LAMBDA r : St1("OFFSET", Nums(r))))
  \o <<KW("END"), ID(v.name)>>

UnitStmts(u) == <<
  Opt(u.time_ns, LAMBDA d : St1("TIME", <<KW("NANOSECONDS"), NUM(d)>>)),
  Opt(u.capacitance_pf, LAMBDA d : St1("CAPACITANCE", <<KW("PICOFARADS"), NUM(d)>>)),
  Opt(u.resistance_ohms, LAMBDA d : St1("RESISTANCE", <<KW("OHMS"), NUM(d)>>)),
  Opt(u.power_mw, LAMBDA d : St1("POWER", <<KW("MILLIWATTS"), NUM(d)>>)),
  Opt(u.current_ma, LAMBDA d : St1("CURRENT", <<KW("MILLIAMPS"), NUM(d)>>)),
  Opt(u.voltage_volts, LAMBDA d : St1("VOLTAGE", <<KW("VOLTS"), NUM(d)>>)),
  Opt(u.database_microns, LAMBDA d : St1("DATABASE", <<KW("MICRONS"), NUM(Dec(FALSE, d, 0))>>)),
  Opt(u.frequency_mhz, LAMBDA d : St1("FREQUENCY", <<KW("MEGAHERTZ"), NUM(d)>>)) >>
Units(u, rev) == <<KW("UNITS")>> \o Ordered(UnitStmts(u), rev) \o <<KW("END"), KW("UNITS")>>

PropDef(p) == <<KW(p.obj), ID(p.name), KW(p.kind)>>
              \o Opt(p.sval, LAMBDA s : <<STR(s)>>)
              \o Opt(p.range, LAMBDA r : <<KW("RANGE"), NUM(r[1]), NUM(r[2])>>)
              \o Opt(p.val, LAMBDA d : <<NUM(d)>>) \o <<SEMI>>
PropDefs(ps) == IF ps = <<>> THEN <<>>
                ELSE <<KW("PROPERTYDEFINITIONS")>> \o Cat(Map(PropDef, ps)) \o <<KW("END"), KW("PROPERTYDEFINITIONS")>>
Ext(e) == <<KW("BEGINEXT"), STR(e.name)>> \o Map(LAMBDA w : [k |-> "raw", v |-> w], e.data) \o <<KW("ENDEXT")>>

\* library header statements (any order is legal; VERSION first so that version gates apply)
HeaderStmts(l) == <<
  Opt(l.names_case_sensitive, LAMBDA v : St1("NAMESCASESENSITIVE", <<KW(v)>>)),
  Opt(l.no_wire_extension_at_pin, LAMBDA v : St1("NOWIREEXTENSIONATPIN", <<KW(v)>>)),
  Opt(l.bus_bit_chars, LAMBDA v : St1("BUSBITCHARS", <<STR(v)>>)),
  Opt(l.divider_char, LAMBDA v : St1("DIVIDERCHAR", <<STR(v)>>)),
  Opt(l.manufacturing_grid, LAMBDA v : St1("MANUFACTURINGGRID", <<NUM(v)>>)),
  Opt(l.use_min_spacing, LAMBDA v : St1("USEMINSPACING", <<KW("OBS"), KW(v)>>)),
  Opt(l.clearance_measure, LAMBDA v : St1("CLEARANCEMEASURE", <<KW(v)>>)),
  (IF l.fixed_mask THEN St1("FIXEDMASK", <<>>) ELSE <<>>) >>

RenderLib(l, rev, endlib) ==
  Opt(l.version, LAMBDA v : St1("VERSION", <<NUM(v)>>))
  \o Ordered(HeaderStmts(l), rev)
  \o Opt(l.units, LAMBDA u : Units(u, rev))
  \o PropDefs(l.property_definitions)
  \o Cat(Map(ViaDef, l.vias)) \o Cat(Map(Site, l.sites))
  \o Cat([i \in 1..Len(l.macros) |-> Macro(l.macros[i], rev)])
  \o Cat(Map(Ext, l.extensions))
  \o (IF endlib THEN <<KW("END"), KW("LIBRARY")>> ELSE <<>>)

\* ---- empty values
NoUnits == [database_microns |-> <<>>, time_ns |-> <<>>, capacitance_pf |-> <<>>, resistance_ohms |-> <<>>, power_mw |-> <<>>,
            current_ma |-> <<>>, voltage_volts |-> <<>>, frequency_mhz |-> <<>>]
EmptyLib == [version |-> <<>>, names_case_sensitive |-> <<>>, no_wire_extension_at_pin |-> <<>>, bus_bit_chars |-> <<>>,
             divider_char |-> <<>>, units |-> <<>>, manufacturing_grid |-> <<>>, use_min_spacing |-> <<>>,
             clearance_measure |-> <<>>, fixed_mask |-> FALSE, property_definitions |-> <<>>, extensions |-> <<>>,
             sites |-> <<>>, vias |-> <<>>, macros |-> <<>>]
EmptyMacro(n) == [name |-> n, class |-> <<>>, fixed_mask |-> FALSE, foreign |-> <<>>, origin |-> <<>>, size |-> <<>>,
                  symmetry |-> <<>>, site |-> <<>>, source |-> <<>>, eeq |-> <<>>, properties |-> <<>>, density |-> <<>>,
                  obs |-> <<>>, pins |-> <<>>]
EmptyPin(n) == [name |-> n, direction |-> <<>>, use |-> <<>>, shape |-> <<>>, antenna_model |-> <<>>, antenna_attrs |-> <<>>,
                taper_rule |-> <<>>, supply_sensitivity |-> <<>>, ground_sensitivity |-> <<>>, must_join |-> <<>>,
                net_expr |-> <<>>, properties |-> <<>>, ports |-> <<>>]
EmptyLayer(n) == [layer_name |-> n, except_pg_net |-> <<>>, spacing |-> <<>>, width |-> <<>>, geoms |-> <<>>, vias |-> <<>>]
=============================================================================
