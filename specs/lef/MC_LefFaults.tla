------------------------------ MODULE MC_LefFaults ------------------------------
(***************************************************************************)
(* Fault sequences for C11: a valid LEF token list (a case of MC_LefGen,    *)
(* forward order, with END LIBRARY) followed by exactly ONE token fault:    *)
(* token deleted, duplicated, swapped with its neighbour, replaced by       *)
(* another keyword / number / semicolon / unterminated string / unknown     *)
(* word, or a non-ASCII character inserted into a name, a string literal or *)
(* a comment.  TLC enumerates every (text, fault) pair.                     *)
(***************************************************************************)
EXTENDS MC_LefGen

VARIABLE fz
Base == RenderLib(c.lib, FALSE, TRUE)

Replacements == << KW("END"), KW("MACRO"), KW("LAYER"), NUM(Dec(FALSE, 1, 0)), SEMI,
                   [k |-> "raw", v |-> "\"abc"], ID("zzz") >>
Put(t, i, rep) == SubSeq(t, 1, i - 1) \o rep \o SubSeq(t, i + 1, Len(t))
\* non-ASCII characters by index: 1 = e-acute (2 bytes), 2 = CJK ideograph (3 bytes, alphabetic),
\* 3 = emoji (4 bytes, not alphabetic); the characters themselves are supplied when the text is built

Faults(t) ==
     { [k |-> "drop", i |-> i, toks |-> Put(t, i, <<>>)] : i \in 1..Len(t) }
  \cup { [k |-> "dup", i |-> i, toks |-> Put(t, i, <<t[i], t[i]>>)] : i \in 1..Len(t) }
  \cup { [k |-> "swap", i |-> i, toks |-> Put(Put(t, i, <<t[i + 1]>>), i + 1, <<t[i]>>)] : i \in 1..(Len(t) - 1) }
  \cup { [k |-> "replace", i |-> i, toks |-> Put(t, i, <<Replacements[r]>>)] : i \in 1..Len(t), r \in 1..Len(Replacements) }
  \cup { [k |-> "nonascii", i |-> i, toks |-> Put(t, i, <<[k |-> "mark", v |-> t[i], ch |-> n]>>)] : i \in 1..Len(t), n \in 1..3 }

FInit == c \in { x \in Cases : ~x.rev /\ x.endlib } /\ fz = <<>>
Inject == fz = <<>> /\ (\E f \in Faults(Base) : fz' = f) /\ UNCHANGED c
FSpec == FInit /\ [][Inject]_<<c, fz>>
FEmit == fz # <<>> => PrintT(<<"CASE", ToJson([fault |-> fz.k, i |-> fz.i, toks |-> fz.toks])>>)
=============================================================================
