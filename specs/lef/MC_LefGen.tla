------------------------------ MODULE MC_LefGen ------------------------------
(***************************************************************************)
(* Case generator for C04/C05/C11/C16: abstract LEF libraries constructed   *)
(* per construct (every statement alone, in every form, and all together),   *)
(* rendered to tokens by LefSyntax.  One JSON case per library.             *)
(***************************************************************************)
EXTENDS LefSyntax, TLC, Json, FiniteSets

VARIABLE c

D == << Dec(FALSE, 0, 0), Dec(FALSE, 5, 1), Dec(TRUE, 5, 1), Dec(FALSE, 125, 2), Dec(FALSE, 100, 0), Dec(TRUE, 7, 0),
        Dec(FALSE, 1065, 3), Dec(FALSE, 999999, 6), Dec(FALSE, 12, 0), Dec(FALSE, 1, 4), Dec(TRUE, 33, 1), Dec(FALSE, 2, 0) >>
Dn(i) == D[((i - 1) % Len(D)) + 1]
P(i) == <<Dn(i), Dn(i + 1)>>
Orients == {"N", "S", "E", "W", "FN", "FS", "FE", "FW"}

Lib(m) == [EmptyLib EXCEPT !.macros = <<m>>]
M0 == EmptyMacro("m1")
P0 == EmptyPin("a[0]")
L0 == EmptyLayer("met1")
WithPin(p) == Lib([M0 EXCEPT !.pins = <<p>>])
WithLayer(lg) == WithPin([P0 EXCEPT !.ports = <<[class |-> <<>>, layers |-> <<lg>>]>>])
G(k, n) == [k |-> k, mask |-> <<>>, pts |-> [i \in 1..n |-> P((2 * i) + 1)], iterate |-> <<>>]

Versions == { Dec(FALSE, 53, 1), Dec(FALSE, 54, 1), Dec(FALSE, 55, 1), Dec(FALSE, 56, 1), Dec(FALSE, 57, 1), Dec(FALSE, 58, 1) }
OnOff == {"ON", "OFF"}

HeaderLibs ==
     { [EmptyLib EXCEPT !.version = <<v>>] : v \in Versions }
  \cup { [EmptyLib EXCEPT !.version = <<v>>, !.names_case_sensitive = <<o>>] : v \in {Dec(FALSE, 53, 1), Dec(FALSE, 54, 1)}, o \in OnOff }
  \cup { [EmptyLib EXCEPT !.version = <<v>>, !.no_wire_extension_at_pin = <<o>>] : v \in Versions, o \in OnOff }
  \* the same two statements WITHOUT a VERSION statement: the default version is 5.8, where both are obsolete (an error is expected)
  \cup { [EmptyLib EXCEPT !.names_case_sensitive = <<o>>] : o \in OnOff } \cup { [EmptyLib EXCEPT !.no_wire_extension_at_pin = <<o>>] : o \in OnOff }
  \cup { [EmptyLib EXCEPT !.bus_bit_chars = <<b>>] : b \in {"\"[]\"", "\"<>\""} }
  \cup { [EmptyLib EXCEPT !.divider_char = <<b>>] : b \in {"\"/\"", "\"|\""} }
  \cup { [EmptyLib EXCEPT !.manufacturing_grid = <<Dn(i)>>] : i \in {2, 7, 10} }
  \cup { [EmptyLib EXCEPT !.use_min_spacing = <<o>>] : o \in OnOff }
  \cup { [EmptyLib EXCEPT !.clearance_measure = <<o>>] : o \in {"MAXXY", "EUCLIDEAN"} }
  \cup { [EmptyLib EXCEPT !.fixed_mask = TRUE] }
  \cup { [EmptyLib EXCEPT !.version = <<Dec(FALSE, 54, 1)>>, !.names_case_sensitive = <<"ON">>, !.no_wire_extension_at_pin = <<"OFF">>,
                          !.bus_bit_chars = <<"\"[]\"">>, !.divider_char = <<"\"/\"">>, !.manufacturing_grid = <<Dn(2)>>,
                          !.use_min_spacing = <<"ON">>, !.clearance_measure = <<"MAXXY">>, !.fixed_mask = TRUE] }
  \cup { [EmptyLib EXCEPT !.extensions = <<[name |-> "\"tag\"", data |-> ws]>>] : ws \in { <<>>, <<"a">>, <<"CREATOR", "\"x y\"", ";", "1.5">>,
                                                                                                      [i \in 1..130 |-> IF i % 7 = 0 THEN "\"quoted  words here\"" ELSE "extension_data_word_x"] } }

UnitFields == {"time_ns", "capacitance_pf", "resistance_ohms", "power_mw", "current_ma", "voltage_volts", "frequency_mhz"}
UnitLibs ==
     { [EmptyLib EXCEPT !.units = <<[NoUnits EXCEPT ![f] = <<Dn(i)>>]>>] : f \in UnitFields, i \in {2, 4, 7} }
  \cup { [EmptyLib EXCEPT !.units = <<[NoUnits EXCEPT !.database_microns = <<v>>]>>]
           : v \in {100, 200, 400, 800, 1000, 2000, 4000, 8000, 10000, 20000} }
  \cup { [EmptyLib EXCEPT !.units = <<NoUnits>>] }
  \cup { [EmptyLib EXCEPT !.units = <<[database_microns |-> <<2000>>, time_ns |-> <<Dn(12)>>, capacitance_pf |-> <<Dn(2)>>,
                                       resistance_ohms |-> <<Dn(4)>>, power_mw |-> <<Dn(5)>>, current_ma |-> <<Dn(7)>>,
                                       voltage_volts |-> <<Dn(8)>>, frequency_mhz |-> <<Dn(9)>>]>>] }

ObjTypes == {"LAYER", "LIBRARY", "MACRO", "NONDEFAULTRULE", "PIN", "VIA", "VIARULE"}
PD(o, k, sv, v, r) == [obj |-> o, name |-> "prop1", kind |-> k, sval |-> sv, val |-> v, range |-> r]
PropDefLibs ==
     { [EmptyLib EXCEPT !.property_definitions = <<PD(o, "STRING", sv, <<>>, <<>>)>>] : o \in ObjTypes, sv \in {<<>>, <<"\"dflt val\"">>} }
  \cup { [EmptyLib EXCEPT !.property_definitions = <<PD(o, k, <<>>, v, r)>>]
           : o \in {"MACRO", "PIN"}, k \in {"REAL", "INTEGER"}, v \in {<<>>, <<Dn(4)>>}, r \in {<<>>, <<<<Dn(1), Dn(5)>>>>} }
  \cup { [EmptyLib EXCEPT !.property_definitions = <<PD("MACRO", "STRING", <<>>, <<>>, <<>>), PD("PIN", "REAL", <<>>, <<Dn(2)>>, <<>>),
                                                     PD("LIBRARY", "INTEGER", <<>>, <<>>, <<<<Dn(1), Dn(9)>>>>)>>] }

SiteLibs == { [EmptyLib EXCEPT !.sites = <<[name |-> "core_site", class |-> cl, symmetry |-> sy, size |-> <<Dn(2), Dn(4)>>]>>]
                : cl \in {"PAD", "CORE"}, sy \in { <<>>, <<<<"X">>>>, <<<<"X", "Y", "R90">>>>, <<<<"R90", "X">>>> } }
           \cup { [EmptyLib EXCEPT !.sites = << [name |-> "s1", class |-> "CORE", symmetry |-> <<>>, size |-> <<Dn(2), Dn(4)>>],
                                               [name |-> "s2", class |-> "PAD", symmetry |-> <<<<"Y">>>>, size |-> <<Dn(7), Dn(9)>>] >>] }

VS(k, mk, n) == [k |-> k, mask |-> mk, pts |-> [i \in 1..n |-> P((2 * i) + 2)]]
FixedVia(res, layers) == [resistance |-> res, layers |-> layers]
GenVia(rc, og, of) == [rule |-> "rule1", cutsize |-> <<Dn(2), Dn(4)>>, layers |-> <<"m1", "v1", "m2">>, cutspacing |-> <<Dn(7), Dn(10)>>,
                       enclosure |-> <<Dn(2), Dn(1), Dn(4), Dn(9)>>, rowcol |-> rc, origin |-> og, offset |-> of]
Via(d, f, g) == [name |-> "via12", default |-> d, fixed |-> f, gen |-> g]
ViaLibs ==
     { [EmptyLib EXCEPT !.vias = <<Via(d, <<FixedVia(res, ls)>>, <<>>)>>]
         : d \in BOOLEAN, res \in {<<>>, <<Dn(4)>>},
           ls \in { <<>>, <<[layer_name |-> "m1", shapes |-> <<>>]>>,
                    <<[layer_name |-> "m1", shapes |-> <<VS("RECT", <<>>, 2)>>]>>,
                    <<[layer_name |-> "m1", shapes |-> <<VS("RECT", <<Dn(1)>>, 2), VS("POLYGON", <<Dn(1)>>, 3)>>]>>,
                    <<[layer_name |-> "m1", shapes |-> <<VS("RECT", <<Dn(12)>>, 2), VS("POLYGON", <<>>, 3)>>],
                      [layer_name |-> "v1", shapes |-> <<VS("POLYGON", <<Dn(12)>>, 4)>>],
                      [layer_name |-> "m2", shapes |-> <<VS("RECT", <<>>, 2)>>]>> } }
  \cup { [EmptyLib EXCEPT !.vias = <<Via(d, <<>>, <<GenVia(rc, og, of)>>)>>]
         : d \in BOOLEAN, rc \in {<<>>, <<<<Dn(12), Dn(9)>>>>}, og \in {<<>>, <<P(3)>>}, of \in {<<>>, <<<<Dn(1), Dn(2), Dn(3), Dn(4)>>>>} }

Classes == { [k |-> "COVER", tp |-> <<>>], [k |-> "COVER", tp |-> <<"BUMP">>], [k |-> "RING", tp |-> <<>>] }
   \cup { [k |-> "BLOCK", tp |-> t] : t \in {<<>>, <<"BLACKBOX">>, <<"SOFT">>} }
   \cup { [k |-> "PAD", tp |-> t] : t \in {<<>>, <<"INPUT">>, <<"OUTPUT">>, <<"INOUT">>, <<"POWER">>, <<"SPACER">>, <<"AREAIO">>} }
   \cup { [k |-> "CORE", tp |-> t] : t \in {<<>>, <<"FEEDTHRU">>, <<"TIEHIGH">>, <<"TIELOW">>, <<"SPACER">>, <<"ANTENNACELL">>, <<"WELLTAP">>} }
   \cup { [k |-> "ENDCAP", tp |-> <<t>>] : t \in {"PRE", "POST", "TOPLEFT", "TOPRIGHT", "BOTTOMLEFT", "BOTTOMRIGHT"} }
Pr(n, v, vk) == [name |-> n, value |-> v, vk |-> vk]
\* long statements: quoted strings of 1.2, 2 and 3.6 thousand characters with blanks inside (a statement has no length limit, and
\* a quoted string is one token wherever it sits)
RECURSIVE RepS(_, _)
RepS(s, n) == IF n = 0 THEN "" ELSE s \o RepS(s, n - 1)
LongStr(n) == "\"" \o RepS("lorem ipsum ", n) \o "end\""
\* vocabulary: property names the LEF reference reserves for later versions (LEF58_...) are property names like any other
PropSets == { <<Pr("p1", LongStr(k), "str")>> : k \in {100, 169, 170, 171, 300} }
      \cup { <<Pr("LEF58_SPACING", "\"SPACING 0.1 ENDOFLINE 0.2 ;\"", "str")>>, <<Pr("LEF58_TYPE", "v1", "id"), Pr("lef58_x", "\"q\"", "str")>> } \cup { <<Pr("p1", "v1", "id")>>, <<Pr("p1", "\"a b\"", "str")>>, <<Pr("p1", "1.50", "num")>>,
              <<Pr("p1", "v1", "id"), Pr("p2", "\"s\"", "str"), Pr("p3", "-3", "num")>>,
              \* the same list spread over two and over three PROPERTY statements
              <<Pr("p1", "1", "num"), Pr("", "", "split"), Pr("p2", "\"two\"", "str"), Pr("p3", "x", "id")>>,
              <<Pr("p1", "v1", "id"), Pr("", "", "split"), Pr("p2", "v2", "id"), Pr("", "", "split"), Pr("p3", "v3", "id")>> }
DensitySets == { << >>, <<[layer_name |-> "met1", rects |-> <<>>]>>,
                 <<[layer_name |-> "met1", rects |-> <<[p1 |-> P(1), p2 |-> P(4), val |-> Dn(2)]>>],
                   [layer_name |-> "met2", rects |-> <<[p1 |-> P(2), p2 |-> P(5), val |-> Dn(5)], [p1 |-> P(3), p2 |-> P(6), val |-> Dn(1)]>>]>> }
FullLayer == [layer_name |-> "met2", except_pg_net |-> <<TRUE>>, spacing |-> <<[k |-> "SPACING", v |-> Dn(2)]>>, width |-> <<Dn(4)>>,
              geoms |-> <<G("RECT", 2), [G("POLYGON", 4) EXCEPT !.mask = <<Dn(12)>>], [G("PATH", 3) EXCEPT !.iterate = <<<<Dn(12), Dn(9), Dn(2), Dn(4)>>>>]>>,
              vias |-> <<[name |-> "via12", pt |-> P(5)]>>]
FullPin == [name |-> "VDD", direction |-> <<"OUTPUT TRISTATE">>, use |-> <<"POWER">>, shape |-> <<"ABUTMENT">>, antenna_model |-> <<"OXIDE2">>,
            antenna_attrs |-> <<[key |-> "ANTENNAGATEAREA", val |-> Dn(4), layer |-> <<"met1">>], [key |-> "ANTENNADIFFAREA", val |-> Dn(2), layer |-> <<>>]>>,
            taper_rule |-> <<"rule1">>, supply_sensitivity |-> <<"vpwr">>, ground_sensitivity |-> <<"vgnd">>, must_join |-> <<"b">>,
            net_expr |-> <<"\"power VDD\"">>, properties |-> <<Pr("pp", "7", "num")>>,
            ports |-> <<[class |-> <<"CORE">>, layers |-> <<FullLayer, [L0 EXCEPT !.geoms = <<G("RECT", 2)>>]>>], [class |-> <<>>, layers |-> <<>>]>>]
FullMacro == [name |-> "Big_Macro", class |-> <<[k |-> "CORE", tp |-> <<"TIEHIGH">>]>>, fixed_mask |-> TRUE,
              foreign |-> <<[cell |-> "fcell", pt |-> <<P(2)>>, orient |-> <<"FS">>]>>, origin |-> <<P(3)>>, size |-> <<P(4)>>,
              symmetry |-> <<<<"X", "Y">>>>, site |-> <<"core_site">>, source |-> <<>>, eeq |-> <<"eqcell">>,
              properties |-> <<Pr("p1", "v1", "id"), Pr("p2", "\"s\"", "str")>>,
              density |-> <<<<[layer_name |-> "met1", rects |-> <<[p1 |-> P(1), p2 |-> P(4), val |-> Dn(2)]>>]>>>>,
              obs |-> <<[L0 EXCEPT !.geoms = <<G("RECT", 2)>>], FullLayer>>,
              pins |-> <<FullPin, [P0 EXCEPT !.direction = <<"INPUT">>]>>]

MacroLibs ==
     { Lib(M0) }
  \cup { Lib([M0 EXCEPT !.class = <<cl>>]) : cl \in Classes }
  \cup { Lib([M0 EXCEPT !.foreign = <<[cell |-> "fc", pt |-> <<>>, orient |-> <<>>]>>]) }
  \cup { Lib([M0 EXCEPT !.foreign = <<[cell |-> "fc", pt |-> <<P(i)>>, orient |-> <<>>]>>]) : i \in {1, 3} }
  \cup { Lib([M0 EXCEPT !.foreign = <<[cell |-> "fc", pt |-> <<P(2)>>, orient |-> <<o>>]>>]) : o \in Orients }
  \cup { Lib([M0 EXCEPT !.origin = <<P(i)>>]) : i \in {1, 2, 6} }
  \cup { Lib([M0 EXCEPT !.size = <<P(i)>>]) : i \in {2, 4, 7} }
  \cup { Lib([M0 EXCEPT !.symmetry = <<sy>>]) : sy \in { <<>>, <<"X">>, <<"Y", "X">>, <<"X", "Y", "R90">>, <<"X", "Y", "X">>, <<"R90", "R90">> } }
  \cup { Lib([M0 EXCEPT !.site = <<"core_site">>]), Lib([M0 EXCEPT !.eeq = <<"other">>]), Lib([M0 EXCEPT !.fixed_mask = TRUE]) }
  \cup { [Lib([M0 EXCEPT !.source = <<s>>]) EXCEPT !.version = <<Dec(FALSE, 54, 1)>>] : s \in {"USER", "NETLIST", "DIST", "TIMING"} }
  \cup { Lib([M0 EXCEPT !.properties = ps]) : ps \in PropSets }
  \cup { Lib([M0 EXCEPT !.density = <<ds>>]) : ds \in DensitySets }
  \cup { Lib([M0 EXCEPT !.obs = <<[L0 EXCEPT !.geoms = <<G("RECT", 2)>>]>>]), Lib([M0 EXCEPT !.obs = <<L0, FullLayer>>]) }
  \cup { Lib(FullMacro) }
  \cup { [EmptyLib EXCEPT !.macros = <<M0, [FullMacro EXCEPT !.name = "m2"], EmptyMacro("m3")>>] }

AntennaKeys == {"ANTENNADIFFAREA", "ANTENNAGATEAREA", "ANTENNAPARTIALMETALAREA", "ANTENNAPARTIALMETALSIDEAREA", "ANTENNAPARTIALCUTAREA",
                "ANTENNAPARTIALDIFFAREA", "ANTENNAMAXAREACAR", "ANTENNAMAXSIDEAREACAR", "ANTENNAMAXCUTCAR"}
PinLibs ==
     { WithPin(P0) }
  \cup { WithPin([P0 EXCEPT !.direction = <<d>>]) : d \in {"INPUT", "OUTPUT", "OUTPUT TRISTATE", "INOUT", "FEEDTHRU"} }
  \cup { WithPin([P0 EXCEPT !.use = <<d>>]) : d \in {"SIGNAL", "ANALOG", "POWER", "GROUND", "CLOCK"} }
  \cup { WithPin([P0 EXCEPT !.shape = <<d>>]) : d \in {"ABUTMENT", "RING", "FEEDTHRU"} }
  \cup { WithPin([P0 EXCEPT !.antenna_model = <<d>>]) : d \in {"OXIDE1", "OXIDE2", "OXIDE3", "OXIDE4"} }
  \cup { WithPin([P0 EXCEPT !.antenna_attrs = <<[key |-> k, val |-> Dn(4), layer |-> ly]>>]) : k \in AntennaKeys, ly \in {<<>>, <<"met1">>} }
  \cup { WithPin([P0 EXCEPT !.antenna_attrs = <<[key |-> "ANTENNAGATEAREA", val |-> Dn(4), layer |-> <<"met1">>],
                                               [key |-> "ANTENNAGATEAREA", val |-> Dn(2), layer |-> <<"met2">>],
                                               [key |-> "ANTENNADIFFAREA", val |-> Dn(7), layer |-> <<>>]>>]) }
  \cup { WithPin([P0 EXCEPT !.taper_rule = <<"r">>]), WithPin([P0 EXCEPT !.supply_sensitivity = <<"vp">>]),
         WithPin([P0 EXCEPT !.ground_sensitivity = <<"vg">>]), WithPin([P0 EXCEPT !.must_join = <<"b">>]),
         WithPin([P0 EXCEPT !.net_expr = <<"\"power VDD\"">>]) }
  \cup { WithPin([P0 EXCEPT !.properties = ps]) : ps \in PropSets }
  \cup { WithPin([P0 EXCEPT !.ports = <<[class |-> cl, layers |-> <<>>]>>]) : cl \in {<<>>, <<"NONE">>, <<"CORE">>, <<"BUMP">>} }
  \cup { WithPin([P0 EXCEPT !.ports = <<[class |-> <<>>, layers |-> <<L0>>], [class |-> <<"CORE">>, layers |-> <<[L0 EXCEPT !.layer_name = "met2"], L0>>]>>]) }
  \cup { WithPin(FullPin) }
  \cup { Lib([M0 EXCEPT !.pins = <<P0, [FullPin EXCEPT !.name = "Z"], EmptyPin("clk")>>]) }

GeomLibs ==
     { WithLayer(L0), WithLayer([L0 EXCEPT !.except_pg_net = <<TRUE>>]), WithLayer([L0 EXCEPT !.width = <<Dn(4)>>]) }
  \cup { WithLayer([L0 EXCEPT !.spacing = <<[k |-> k, v |-> Dn(i)]>>]) : k \in {"SPACING", "DESIGNRULEWIDTH"}, i \in {2, 4} }
  \cup { WithLayer([L0 EXCEPT !.except_pg_net = <<TRUE>>, !.spacing = <<[k |-> "SPACING", v |-> Dn(2)]>>]) }
  \cup { WithLayer([L0 EXCEPT !.geoms = <<[G(k, n) EXCEPT !.mask = mk, !.iterate = it]>>])
           : k \in {"RECT"}, n \in {2}, mk \in {<<>>, <<Dn(12)>>, <<Dn(9)>>, <<Dn(1)>>}, it \in {<<>>, <<<<Dn(12), Dn(9), Dn(2), Dn(4)>>>>} }
  \cup { WithLayer([L0 EXCEPT !.geoms = <<[G(k, n) EXCEPT !.mask = mk, !.iterate = it]>>])
           : k \in {"POLYGON"}, n \in {3, 5}, mk \in {<<>>, <<Dn(12)>>, <<Dn(1)>>}, it \in {<<>>, <<<<Dn(12), Dn(9), Dn(2), Dn(4)>>>>} }
  \cup { WithLayer([L0 EXCEPT !.geoms = <<[G(k, n) EXCEPT !.mask = mk, !.iterate = it]>>])
           : k \in {"PATH"}, n \in {2, 4}, mk \in {<<>>, <<Dn(12)>>, <<Dn(1)>>}, it \in {<<>>, <<<<Dn(12), Dn(9), Dn(2), Dn(4)>>>>} }
  \cup { WithLayer([L0 EXCEPT !.vias = <<[name |-> "via12", pt |-> P(i)]>>]) : i \in {1, 2} }
  \cup { WithLayer([L0 EXCEPT !.geoms = <<G("RECT", 2), G("PATH", 2), G("POLYGON", 3)>>, !.vias = <<[name |-> "v", pt |-> P(3)], [name |-> "w", pt |-> P(4)]>>]) }
  \cup { WithLayer(FullLayer) }
  \* the same layer name in two LAYER statements of one port whose headers differ (plain, then with options; and the reverse)
  \cup { WithPin([P0 EXCEPT !.ports = <<[class |-> <<>>, layers |-> ls]>>])
           : ls \in { << [L0 EXCEPT !.geoms = <<G("RECT", 2)>>], [L0 EXCEPT !.except_pg_net = <<TRUE>>, !.spacing = <<[k |-> "SPACING", v |-> Dn(2)]>>, !.geoms = <<G("RECT", 2)>>] >>,
                       << [L0 EXCEPT !.spacing = <<[k |-> "DESIGNRULEWIDTH", v |-> Dn(4)]>>, !.geoms = <<G("RECT", 2)>>], [L0 EXCEPT !.geoms = <<G("PATH", 2)>>],
                          [L0 EXCEPT !.except_pg_net = <<TRUE>>, !.geoms = <<G("POLYGON", 3)>>] >> } }

AllLibs == HeaderLibs \cup UnitLibs \cup PropDefLibs \cup SiteLibs \cup ViaLibs \cup MacroLibs \cup PinLibs \cup GeomLibs

\* version below 5.6 requires END LIBRARY
NeedsEnd(l) == l.version # <<>> /\ l.version[1].m < 56
\* NAMESCASESENSITIVE and NOWIREEXTENSIONATPIN are valid up to version 5.4 only (the default version is 5.8)
Obsolete(l) == (l.names_case_sensitive # <<>> \/ l.no_wire_extension_at_pin # <<>>)
               /\ (l.version = <<>> \/ l.version[1].m > 54)
\* Composed libraries: one random choice from every family merged into ONE library (header statements, units, property
\* definitions, a site, a via and three macros), NCompose of them (TLC's RandomElement, reproducible under -seed).
\* Statement interactions (what follows what, which END closes which block) are exercised here; the per-construct
\* libraries above say which construct is misread when something fails.
CONSTANT NCompose
NoSource(ms, tag) == [i \in 1..Len(ms) |-> [ms[i] EXCEPT !.source = <<>>, !.name = tag \o ms[i].name]]
Compose(i) ==
  LET h == RandomElement(HeaderLibs)  u == RandomElement(UnitLibs)  pd == RandomElement(PropDefLibs)
      st == RandomElement(SiteLibs)   v == RandomElement(ViaLibs)
      a == RandomElement(MacroLibs)   b == RandomElement(PinLibs)   g == RandomElement(GeomLibs)
  IN [h EXCEPT !.units = u.units, !.property_definitions = pd.property_definitions, !.sites = st.sites, !.vias = v.vias,
               !.macros = NoSource(a.macros, "A_") \o NoSource(b.macros, "B_") \o NoSource(g.macros, "G_")]
Composed == { [lib |-> Compose(i), rev |-> (i % 2 = 0), endlib |-> TRUE] : i \in 1..NCompose }
Cases == { [lib |-> l, rev |-> r, endlib |-> e] : l \in AllLibs, r \in BOOLEAN, e \in BOOLEAN } \cup Composed

Init == c \in Cases
Next == UNCHANGED c
Spec == Init /\ [][Next]_c

\* sanity of the renderer: blocks are balanced - as many END as block openers
IsKw(t, w) == t.k = "kw" /\ t.v = w
Count(toks, w) == Cardinality({ i \in 1..Len(toks) : IsKw(toks[i], w) })
Balanced == c.lib.property_definitions # <<>> \/
            LET t == RenderLib(c.lib, c.rev, c.endlib) IN
            Count(t, "END") = Count(t, "MACRO") + Count(t, "PIN") + Count(t, "PORT") + (Count(t, "OBS") - Len(c.lib.use_min_spacing)) + Count(t, "DENSITY")
                              + Count(t, "UNITS") \div 2 + Count(t, "PROPERTYDEFINITIONS") \div 2 + Len(c.lib.sites) + Len(c.lib.vias)
                              + (IF c.endlib THEN 1 ELSE 0)

Emit == PrintT(<<"CASE", ToJson([lib |-> c.lib, toks |-> RenderLib(c.lib, c.rev, c.endlib), rev |-> c.rev, endlib |-> c.endlib,
                                 expect_err |-> ((NeedsEnd(c.lib) /\ ~c.endlib) \/ Obsolete(c.lib))])>>)
=============================================================================
