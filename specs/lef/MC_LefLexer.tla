------------------------------ MODULE MC_LefLexer ------------------------------
(* Every character string up to MaxLen over the class alphabet; the token list or lexical  *)
(* error the lexer model produces is emitted for replay into lef21's lexer (S->I).          *)
EXTENDS LefLexer, TLC, Json

CONSTANT MaxLen
Alphabet == { [c |-> "NL", n |-> 1], [c |-> "WS", n |-> 1], [c |-> "SEMI", n |-> 1], [c |-> "QUOTE", n |-> 1], [c |-> "HASH", n |-> 1],
              [c |-> "DIGIT", n |-> 1], [c |-> "DOT", n |-> 1], [c |-> "MINUS", n |-> 1], [c |-> "ALPHA", n |-> 1],
              [c |-> "ALPHA", n |-> 2], [c |-> "ALPHA", n |-> 3], [c |-> "OTHER", n |-> 1], [c |-> "OTHER", n |-> 4],
              [c |-> "UWS", n |-> 2], [c |-> "UWS", n |-> 3] }
VARIABLE building     \* TRUE while the input is still being extended
Init == LInit(<<>>) /\ building = TRUE
Extend == /\ building /\ Len(chars) < MaxLen
          /\ \E a \in Alphabet : chars' = Append(chars, a)
          /\ UNCHANGED <<ci, bpos, line, toks, lstatus, building>>
Start == building /\ building' = FALSE /\ UNCHANGED lvars
Lex == ~building /\ LNext /\ UNCHANGED building
Next == Extend \/ Start \/ Lex
Spec == Init /\ [][Next]_<<lvars, building>>

Spans == SpansOK
\* the byte offset is always the byte length of the consumed characters
PosConsistent == bpos = Bytes(1, ci)
TokOut == [k \in 1..Len(toks) |->
            [t |-> IF toks[k].t = "Word"
                   THEN (IF WordIsNumber(CHOOSE i \in 1..Len(chars) : Bytes(1, i) = toks[k].start,
                                         CHOOSE j \in 1..(Len(chars) + 1) : Bytes(1, j) = toks[k].stop) THEN "Number" ELSE "Name")
                   ELSE toks[k].t,
             start |-> toks[k].start, stop |-> toks[k].stop, line |-> toks[k].line]]
Emit == (~building /\ lstatus # "run") =>
          PrintT(<<"CASE", ToJson([chars |-> chars, status |-> lstatus, toks |-> TokOut])>>)
=============================================================================
