SPECIFICATION TSpec
INVARIANTS GrammarDeterministic GrammarStack
CHECK_DEADLOCK FALSE
