--------------------------- MODULE Trace_LefGrammar ---------------------------
(* I->S for the LEF text layer: each line of the trace is the token list of one LEF text (written by the crate's     *)
(* writer, or rendered from LefSyntax under a lexical variant, or deliberately damaged); the acceptor LefGrammar     *)
(* runs over each list statement by statement.  A text it does not accept is printed as BAD with the position, the   *)
(* open blocks and the next tokens; a text marked `expect = "reject"` that IS accepted is printed as BAD as well.    *)
EXTENDS LefGrammar, TLC, Json, IOUtils

Rec == ndJsonDeserialize(IOEnv.TRACE)
VARIABLE l
tvars == <<gvars, l>>

TInit == l = 1 /\ IF Len(Rec) >= 1 THEN GInit(Rec[1].toks) ELSE GInit(<<>>)
Around == [i \in 1..(IF pos + 5 <= Len(toks) THEN 6 ELSE (Len(toks) - pos) + 1) |->
              LET tk == toks[pos + i - 1] IN IF tk.c = "w" THEN tk.u ELSE tk.c]
Verdict == IF gstatus = "err" /\ Rec[l].expect = "accept"
           THEN PrintT(<<"BAD", ToJson([id |-> Rec[l].id, what |-> "rejected", pos |-> pos, ntoks |-> Len(toks),
                                        open |-> [i \in 1..Len(stack) |-> stack[i].ctx], next |-> Around])>>)
           ELSE IF gstatus = "ok" /\ Rec[l].expect = "reject"
           THEN PrintT(<<"BAD", ToJson([id |-> Rec[l].id, what |-> "accepted-damaged-text", pos |-> pos, ntoks |-> Len(toks), open |-> <<>>, next |-> <<>>])>>)
           ELSE TRUE
Step == l <= Len(Rec) /\ gstatus = "run" /\ GNext /\ UNCHANGED l
NextFile == /\ l <= Len(Rec) /\ gstatus # "run" /\ Verdict
            /\ l' = l + 1
            /\ IF l + 1 <= Len(Rec) THEN /\ toks' = Rec[l + 1].toks /\ pos' = 1 /\ stack' = << [ctx |-> "LIB", name |-> ""] >> /\ gstatus' = "run"
               ELSE /\ PrintT(<<"INFO", "all-texts-consumed", l>>) /\ UNCHANGED gvars
TNext == Step \/ NextFile
TSpec == TInit /\ [][TNext]_tvars
GrammarDeterministic == (l <= Len(Rec)) => Deterministic
GrammarStack == StackWellFormed
=============================================================================
