------------------------------ MODULE Determinism ------------------------------
(***************************************************************************)
(* C20 at design level.  A conversion walks its input and appends to an     *)
(* ORDERED output.  Wherever the input holds an unordered map (Rust         *)
(* HashMap: abstract-port shapes per layer, blockages per layer), the       *)
(* iteration order is an environment choice - in the model an explicit      *)
(* \E over permutations; in the code the per-map, per-process hash seed.    *)
(*                                                                          *)
(* An exporter is described by how it visits a map:                         *)
(*   "hash"    in iteration order of the map      (environment chooses)     *)
(*   "sorted"  in ascending key order             (no choice)               *)
(* The output of one run is the sequence of visited keys (their values      *)
(* follow the keys, so the key sequence determines the output).             *)
(* Determinism: all runs of one exporter on one input give the same output. *)
(***************************************************************************)
EXTENDS Integers, Sequences, FiniteSets

CONSTANTS Keys,        \* the keys of the map in the input, e.g. layers 1..3
          Mode         \* "hash" | "sorted"

VARIABLES out1, out2, stage
dvars == <<out1, out2, stage>>

Perms(S) == { f \in [1..Cardinality(S) -> S] : \A i, j \in 1..Cardinality(S) : f[i] = f[j] => i = j }
Sorted(S) == CHOOSE f \in Perms(S) : \A i, j \in 1..Cardinality(S) : i < j => f[i] < f[j]
Visit(order) == order          \* the exporter appends one group of output per visited key

DInit == out1 = <<>> /\ out2 = <<>> /\ stage = 0
\* two independent runs (two processes / two maps): each gets its own iteration order
Run1 == /\ stage = 0 /\ stage' = 1 /\ UNCHANGED out2
        /\ IF Mode = "sorted" THEN out1' = Visit(Sorted(Keys)) ELSE \E p \in Perms(Keys) : out1' = Visit(p)
Run2 == /\ stage = 1 /\ stage' = 2 /\ UNCHANGED out1
        /\ IF Mode = "sorted" THEN out2' = Visit(Sorted(Keys)) ELSE \E p \in Perms(Keys) : out2' = Visit(p)
DNext == Run1 \/ Run2
DSpec == DInit /\ [][DNext]_dvars

Deterministic == stage = 2 => out1 = out2
\* every key is visited exactly once whatever the order (nothing is lost by sorting)
Complete == stage = 2 => /\ { out1[i] : i \in 1..Len(out1) } = Keys /\ Len(out1) = Cardinality(Keys)
=============================================================================
