------------------------------ MODULE SerdeModel ------------------------------
(***************************************************************************)
(* C18, the part that is Layout21's own: the serde ATTRIBUTES on the fields  *)
(* of gds21 and lef21 data types decide whether a value survives             *)
(* serialisation, whatever the text format.                                  *)
(*                                                                           *)
(*   serialise:    a field is omitted iff  skip_serializing  or              *)
(*                 skip_serializing_if = "<pred>" and pred(value)            *)
(*   deserialise:  an omitted field becomes Default::default() if the field  *)
(*                 is #[serde(default)], None if its type is Option<..>, and *)
(*                 is an error ("missing field") otherwise                   *)
(*                                                                           *)
(* The field table is EXTRACTED FROM THE SOURCES (tools/extract_serde.py)    *)
(* and read here; value classes per type class:                              *)
(*   bool {false,true}   Option {none,some}   Vec {empty,nonempty}   plain   *)
(* (Unsupported placeholders are outside the value space of C18.)            *)
(* Lossless(row, v)  ==  Deser(row, Ser(row, v)) = v                         *)
(***************************************************************************)
EXTENDS TLC, Json, IOUtils, Sequences, Integers

Table == JsonDeserialize(IOEnv.SERDE_TABLE)

Classes(tc) == CASE tc = "bool" -> {"false", "true"}
                 [] tc = "Option" -> {"none", "some"}
                 [] tc = "Vec" -> {"empty", "nonempty"}
                 [] tc = "plain" -> {"value"}
                 [] OTHER -> {}                      \* Unit / Option<Unsupported>: outside the value space
DefaultOf(tc) == CASE tc = "bool" -> "false" [] tc = "Option" -> "none" [] tc = "Vec" -> "empty" [] OTHER -> "no-default"

KnownPreds == {"is_false", "Option::is_none", "Vec::is_empty", "std::ops::Not::not"}
PredName(row) == SubSeq(row.skip, 4, Len(row.skip))      \* after "if:"
Skipped(row, v) ==
  CASE row.skip = "never" -> FALSE
    [] row.skip = "always" -> TRUE
    [] PredName(row) \in {"is_false", "std::ops::Not::not"} -> v = "false"
    [] PredName(row) = "Option::is_none" -> v = "none"
    [] PredName(row) = "Vec::is_empty" -> v = "empty"
    [] OTHER -> FALSE
Ser(row, v) == IF Skipped(row, v) THEN "absent" ELSE v
Deser(row, s) == IF s # "absent" THEN s
                 ELSE IF row.default THEN DefaultOf(row.tclass)
                 ELSE IF row.tclass = "Option" THEN "none"
                 ELSE "error:missing-field"
Lossless(row, v) == Deser(row, Ser(row, v)) = v

VARIABLE c
Cases == { <<i, v>> : i \in 1..Len(Table), v \in {"false", "true", "none", "some", "empty", "nonempty", "value"} }
Init == c \in { x \in Cases : x[2] \in Classes(Table[x[1]].tclass) }
Next == UNCHANGED c
Spec == Init /\ [][Next]_c

\* a skip predicate this model does not understand: it is assumed to skip nothing here (the value replay decides)
PredsKnown == LET row == Table[c[1]] IN (row.skip \in {"never", "always"}) \/ PredName(row) \in KnownPreds
Emit == LET row == Table[c[1]] IN
        PrintT(<<"CASE", ToJson([crate |-> row.crate, struct |-> row.struct, field |-> row.field, class |-> c[2],
                                 lossless |-> Lossless(row, c[2]), back |-> Deser(row, Ser(row, c[2])),
                                 unknown_pred |-> ~PredsKnown, pred |-> row.skip])>>)
=============================================================================
