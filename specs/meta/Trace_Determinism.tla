------------------------------ MODULE Trace_Determinism ------------------------------
(***************************************************************************)
(* C20 on recorded runs (I->S).  Each line: one run of one conversion on    *)
(* one input, in some process:  [conv, input, process, run, digest]         *)
(* where digest is a hash of the FULL ORDERED output (cell, element, layer, *)
(* shape order; GDSII creation timestamps normalised).                      *)
(* State: `first` maps (conv, input) to the first digest recorded.  The     *)
(* invariant is a functional dependency: output is a function of            *)
(* (conversion, input) - across runs and across processes.                  *)
(***************************************************************************)
EXTENDS TLC, Json, IOUtils, Sequences, Integers
Rec == ndJsonDeserialize(IOEnv.TRACE)
VARIABLES l, first, conflicts
TInit == l = 1 /\ first = [k \in {} |-> ""] /\ conflicts = {}
Key(e) == <<e.conv, e.input>>
TNext == /\ l <= Len(Rec) /\ l' = l + 1
         /\ LET e == Rec[l]  k == Key(e) IN
            IF k \notin DOMAIN first
            THEN first' = [x \in DOMAIN first \cup {k} |-> IF x = k THEN e.digest ELSE first[x]] /\ UNCHANGED conflicts
            ELSE /\ UNCHANGED first
                 /\ IF first[k] = e.digest THEN UNCHANGED conflicts
                    ELSE /\ conflicts' = conflicts \cup {k}
                         /\ (k \in conflicts \/ PrintT(<<"BAD", ToJson([conv |-> e.conv, input |-> e.input, process |-> e.process, run |-> e.run])>>))
TSpec == TInit /\ [][TNext]_<<l, first, conflicts>>
\* the functional dependency, as a state invariant over what has been recorded so far
Accepted == \/ TLCGet("stats").diameter - 1 = Len(Rec)
            \/ PrintT(<<"INFO", "unconsumed", TLCGet("stats").diameter, Len(Rec)>>) /\ FALSE
=============================================================================
