--------------------------- MODULE DepOrderAbs ---------------------------
(***************************************************************************)
(* The property (C17) as a one-step state machine over the predicates of    *)
(* DepOrderProps, so that implementation-shaped specifications can be       *)
(* checked to REFINE it (DepOrderDFS!Abs, Placer).                          *)
(***************************************************************************)
EXTENDS Naturals, Sequences, FiniteSets, DepOrderProps
VARIABLES adeps, aitems, result

AbsInit(D, I) == adeps = D /\ aitems = I /\ result = [k |-> "none"]

Produce == /\ result.k = "none"
           /\ result'.k = "ok"
           /\ DOMAIN result' = {"k", "order"}
           /\ ~Cyclic(adeps, aitems)
           /\ ValidOrder(adeps, aitems, result'.order)
           /\ UNCHANGED <<adeps, aitems>>

Fail == /\ result.k = "none"
        /\ Cyclic(adeps, aitems)
        /\ result' = [k |-> "err"]
        /\ UNCHANGED <<adeps, aitems>>

AbsNext == Produce \/ Fail
=============================================================================
