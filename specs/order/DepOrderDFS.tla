--------------------------- MODULE DepOrderDFS ---------------------------
(***************************************************************************)
(* The MECHANISM: layout21utils::DepOrderer as the code runs it.            *)
(*                                                                          *)
(*   order(items):  for item in items { push(item)? }  Ok(stack)            *)
(*   push(item):    if !seen(item) {                                        *)
(*                     if pending(item) { return fail() }        CycleFail  *)
(*                     pending += item                            Enter     *)
(*                     process(item)?     -- pushes each dep in order       *)
(*                     pending -= item; seen += item; stack.push  Exit      *)
(*                  }                                             Skip      *)
(*                                                                          *)
(* One action per branch.  The Rust call stack is the variable `frames`     *)
(* (node, index of the next dependency to push).                            *)
(***************************************************************************)
EXTENDS Naturals, Sequences, FiniteSets, DepOrderProps

VARIABLES deps,      \* Nodes -> Seq(Nodes)
          items,     \* listing order handed to order()
          item,      \* index of the next top-level item
          frames,    \* open push() frames
          seen, pending, out,
          status     \* "run" | "ok" | "err"

dvars == <<deps, items, item, frames, seen, pending, out, status>>

Top == frames[Len(frames)]
Nodes == DOMAIN deps

\* ---- the three branches of push(n); `fr` is the caller's frame stack after
\*      it has advanced its own dependency index
Skip(n, fr)  == /\ n \in seen
                /\ frames' = fr
                /\ UNCHANGED <<seen, pending, out, status>>
CycleFail(n, fr) == /\ n \notin seen /\ n \in pending
                    /\ status' = "err" /\ frames' = fr
                    /\ UNCHANGED <<seen, pending, out>>
Enter(n, fr) == /\ n \notin seen /\ n \notin pending
                /\ pending' = pending \cup {n}
                /\ frames' = Append(fr, [node |-> n, next |-> 1])
                /\ UNCHANGED <<seen, out, status>>

\* ---- who calls push
AtTop == status = "run" /\ frames = <<>> /\ item <= Len(items)
TopSkip  == AtTop /\ Skip(items[item], frames) /\ item' = item + 1 /\ UNCHANGED <<deps, items>>
\* never enabled: pending = {} whenever frames = <<>>
TopCycle == AtTop /\ CycleFail(items[item], frames) /\ item' = item + 1 /\ UNCHANGED <<deps, items>>
TopEnter == AtTop /\ Enter(items[item], frames) /\ item' = item + 1 /\ UNCHANGED <<deps, items>>

InProcess == status = "run" /\ frames # <<>> /\ Top.next <= Len(deps[Top.node])
NextDep  == deps[Top.node][Top.next]
Advanced == [frames EXCEPT ![Len(frames)].next = @ + 1]
DepSkip  == InProcess /\ Skip(NextDep, Advanced) /\ UNCHANGED <<deps, items, item>>
DepCycle == InProcess /\ CycleFail(NextDep, Advanced) /\ UNCHANGED <<deps, items, item>>
DepEnter == InProcess /\ Enter(NextDep, Advanced) /\ UNCHANGED <<deps, items, item>>

AtExit == status = "run" /\ frames # <<>> /\ Top.next > Len(deps[Top.node])
Exit == /\ AtExit
        /\ pending' = pending \ {Top.node}
        /\ seen' = seen \cup {Top.node}
        /\ out' = Append(out, Top.node)
        /\ frames' = SubSeq(frames, 1, Len(frames) - 1)
        /\ UNCHANGED <<deps, items, item, status>>

Finish == /\ status = "run" /\ frames = <<>> /\ item > Len(items)
          /\ status' = "ok"
          /\ UNCHANGED <<deps, items, item, frames, seen, pending, out>>

DInitWith(D, I) == /\ deps = D /\ items = I /\ item = 1 /\ frames = <<>>
                   /\ seen = {} /\ pending = {} /\ out = <<>> /\ status = "run"

DNext == TopSkip \/ TopCycle \/ TopEnter \/ DepSkip \/ DepCycle \/ DepEnter \/ Exit \/ Finish

(***************************************************************************)
(* Invariants of the mechanism.                                             *)
(***************************************************************************)
FrameNodes == { frames[i].node : i \in 1..Len(frames) }

Bounded ==            \* "does not recurse without bound": depth <= |Nodes|
  /\ Len(frames) <= Cardinality(Nodes)
  /\ status = "run" => pending = FrameNodes
  /\ \A i, j \in 1..Len(frames) : frames[i].node = frames[j].node => i = j
SeenIsOut == seen = Range(out) /\ NoDup(out) /\ seen \cap pending = {}
PrefixOK  ==          \* everything emitted so far already satisfies the order predicate
  \A i \in 1..Len(out) : \A d \in DepSet(deps, out[i]) : \E j \in 1..(i-1) : out[j] = d

OkProp  == status = "ok"  => /\ ~Cyclic(deps, items)
                             /\ ValidOrder(deps, items, out)
                             /\ ValidOrderRef(deps, items, out)
ErrProp == status = "err" => Cyclic(deps, items)
\* and conversely a reachable cycle is always reported (with OkProp: ok => ~Cyclic)

(***************************************************************************)
(* Refinement mapping onto the property.                                    *)
(***************************************************************************)
AbsResult == IF status = "ok" THEN [k |-> "ok", order |-> out]
             ELSE IF status = "err" THEN [k |-> "err"]
             ELSE [k |-> "none"]
Abs == INSTANCE DepOrderAbs WITH adeps <- deps, aitems <- items, result <- AbsResult
=============================================================================
