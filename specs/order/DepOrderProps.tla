--------------------------- MODULE DepOrderProps ---------------------------
(***************************************************************************)
(* The PROPERTY (C17): what every dependency ordering of Layout21 must      *)
(* deliver, independently of how it is computed.                            *)
(*                                                                          *)
(* A graph is a function  deps : Nodes -> Seq(Nodes)  (the ordered list of  *)
(* direct dependencies of each node; duplicates allowed - a cell may        *)
(* instantiate the same cell twice) and a sequence  items  (the listing     *)
(* order the caller hands over).                                            *)
(*                                                                          *)
(* An ordering call has exactly one outcome:                                *)
(*    ok(order)   order is duplicate-free, contains exactly the nodes       *)
(*                reachable from items, every node after all of its deps;   *)
(*                only possible when no cycle is reachable                  *)
(*    err         only when a cycle (incl. a self-reference) is reachable   *)
(***************************************************************************)
EXTENDS Naturals, Sequences, FiniteSets

Range(s) == { s[i] : i \in 1..Len(s) }

\* Position of x in duplicate-free sequence s (0 if absent)
Pos(s, x) == IF x \in Range(s) THEN CHOOSE i \in 1..Len(s) : s[i] = x ELSE 0

NoDup(s) == \A i, j \in 1..Len(s) : s[i] = s[j] => i = j

DepSet(deps, n) == Range(deps[n])

(* Nodes reachable from the set S (including S), least fixpoint *)
RECURSIVE ReachFrom(_, _)
ReachFrom(deps, S) ==
  LET S2 == S \cup UNION { DepSet(deps, n) : n \in S }
  IN IF S2 = S THEN S ELSE ReachFrom(deps, S2)

Reach(deps, items) == ReachFrom(deps, Range(items))

(* n lies on a cycle: n reachable from one of its own dependencies *)
OnCycle(deps, n) == n \in ReachFrom(deps, DepSet(deps, n))

Cyclic(deps, items) == \E n \in Reach(deps, items) : OnCycle(deps, n)

(* The ok-predicate.  Written so that it can be evaluated in time linear in  *)
(* the size of the graph: reachability of every listed node is established   *)
(* from the order itself (a listed node is an item or a dependency of a      *)
(* node listed LATER, which is reachable by induction from the end).         *)
DepsFirst(deps, order) ==
  \A i \in 1..Len(order) : \A d \in DepSet(deps, order[i]) :
      \E j \in 1..(i-1) : order[j] = d

OnlyReachable(deps, items, order) ==
  \A i \in 1..Len(order) :
      \/ order[i] \in Range(items)
      \/ \E j \in (i+1)..Len(order) : order[i] \in DepSet(deps, order[j])

Complete(items, order) == Range(items) \subseteq Range(order)

ValidOrder(deps, items, order) ==
  /\ NoDup(order)
  /\ Complete(items, order)
  /\ DepsFirst(deps, order)            \* also gives closure under deps
  /\ OnlyReachable(deps, items, order)

(* Reference reading of the same predicate through Reach: used by TLC on    *)
(* small graphs to check that the linear-time form above says the same.     *)
ValidOrderRef(deps, items, order) ==
  /\ NoDup(order)
  /\ Range(order) = Reach(deps, items)
  /\ \A n \in Range(order) : \A d \in DepSet(deps, n) : Pos(order, d) < Pos(order, n)

(***************************************************************************)
(* Witnesses, for graphs too large to search: an acyclicity witness is a    *)
(* rank function that strictly decreases along every edge; a cycle witness  *)
(* is a path from an item that finally steps back onto itself.              *)
(***************************************************************************)
RankWitness(deps, nodes, rank) ==
  \A n \in nodes : \A d \in DepSet(deps, n) : rank[d] < rank[n]

CycleWitness(deps, items, path) ==
  /\ Len(path) >= 1
  /\ path[1] \in Range(items)
  /\ \A k \in 1..(Len(path)-1) : path[k+1] \in DepSet(deps, path[k])
  /\ \E j \in 1..Len(path) : path[j] \in DepSet(deps, path[Len(path)])

=============================================================================
