SPECIFICATION MCSpec
CONSTANTS N = 3  K = 2  Mode = "seq"  Loops = TRUE
INVARIANTS Bounded SeenIsOut PrefixOK OkProp ErrProp Emit
PROPERTY Refines
CHECK_DEADLOCK FALSE
