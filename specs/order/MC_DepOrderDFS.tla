--------------------------- MODULE MC_DepOrderDFS ---------------------------
(* Bounded instance: every graph in scope, every behaviour of the mechanism, *)
(* the property as invariants and as a refinement; one JSON case per graph   *)
(* for replay into layout21utils::DepOrderer (S->I).                         *)
EXTENDS DepOrderDFS, TLC, Json

CONSTANTS N,      \* nodes 1..N, listed in the order 1..N
          K,      \* Mode "seq": max length of a dependency list
          Mode,   \* "set": deps[n] = any subset in ascending order (all labelled digraphs)
                  \* "seq": deps[n] = any sequence of length <= K (order and duplicates matter)
          Loops   \* allow self-dependencies

NodesC == 1..N
RECURSIVE SetToSeq(_)
SetToSeq(S) == IF S = {} THEN <<>>
               ELSE LET m == CHOOSE x \in S : \A y \in S : x <= y
                    IN <<m>> \o SetToSeq(S \ {m})
SeqsUpTo(S, k) == UNION { [1..n -> S] : n \in 0..k }

Pairs == { p \in NodesC \X NodesC : Loops \/ p[1] # p[2] }

\* "set": one initial state per labelled digraph (TLC enumerates SUBSET lazily)
InitSet == \E E \in SUBSET Pairs :
             DInitWith([n \in NodesC |-> SetToSeq({ m \in NodesC : <<n, m>> \in E })],
                       [i \in NodesC |-> i])
\* "seq": one initial state per assignment of dependency sequences
InitSeq == \E D \in [NodesC -> SeqsUpTo(NodesC, K)] :
             /\ Loops \/ \A n \in NodesC : n \notin Range(D[n])
             /\ DInitWith(D, [i \in NodesC |-> i])
\* "part": every labelled digraph with every PARTIAL listing - any duplicate-free sequence of nodes, in any order, of any
\* length 0..N: nodes can be reachable without being listed, and listed in an order unrelated to their numbers
Listings == { l \in SeqsUpTo(NodesC, N) : \A i, j \in 1..Len(l) : l[i] = l[j] => i = j }
InitPart == \E E \in SUBSET Pairs, l \in Listings :
             DInitWith([n \in NodesC |-> SetToSeq({ m \in NodesC : <<n, m>> \in E })], l)
MCInit == IF Mode = "set" THEN InitSet ELSE IF Mode = "part" THEN InitPart ELSE InitSeq

MCSpec == MCInit /\ [][DNext]_dvars

Refines == Abs!AbsInit(deps, items) /\ [][Abs!AbsNext]_<<deps, items, AbsResult>>

Emit == status # "run" =>
          PrintT(<<"CASE", ToJson([deps |-> deps, items |-> items, status |-> status, out |-> out])>>)
=============================================================================
