--------------------------- MODULE Trace_DepOrderAbs ---------------------------
(***************************************************************************)
(* I->S, property level.  Every line of the trace is one completed call of  *)
(* one of Layout21's orderers on a recorded graph:                          *)
(*   [id, deps, items, status ("ok"|"err"|"panic"|"abort"|"timeout"),       *)
(*    order, wit]                                                           *)
(* The verdict is the predicate of DepOrderProps, nothing else: any         *)
(* dependencies-first order is accepted.  `wit` lets graphs with hundreds   *)
(* of nodes be decided without search (rank function = acyclic, path with   *)
(* back edge = cyclic); a witness that does not check is a machinery error. *)
(* A failed verdict does not stop the validation: it is printed as BAD and  *)
(* the next line is consumed, so one defect does not hide the rest.         *)
(***************************************************************************)
EXTENDS DepOrderProps, TLC, Json, IOUtils

Rec == ndJsonDeserialize(IOEnv.TRACE)
VARIABLE l

Verdict(r) ==
  LET deps == r.deps  items == r.items  nodes == DOMAIN r.deps IN
  CASE r.status = "ok" ->
         IF ValidOrder(deps, items, r.order) THEN "pass" ELSE "bad-order"
    [] r.status = "err" ->
         ( CASE r.wit.k = "cycle" ->
                  IF CycleWitness(deps, items, r.wit.path) THEN "pass" ELSE "machinery-bad-witness"
             [] r.wit.k = "rank" ->
                  IF RankWitness(deps, nodes, r.wit.rank) THEN "bad-err-on-acyclic"
                  ELSE "machinery-bad-witness"
             [] OTHER -> IF Cyclic(deps, items) THEN "pass" ELSE "bad-err-on-acyclic" )
    [] OTHER -> "bad-crash"

TInit == l = 1
TNext == /\ l <= Len(Rec)
         /\ l' = l + 1
         /\ LET v == Verdict(Rec[l]) IN
              v = "pass" \/ PrintT(<<"BAD", ToJson([id |-> Rec[l].id, verdict |-> v])>>)
TSpec == TInit /\ [][TNext]_l

Accepted == \/ TLCGet("stats").diameter - 1 = Len(Rec)
            \/ PrintT(<<"INFO", "unconsumed", TLCGet("stats").diameter, Len(Rec)>>) /\ FALSE
=============================================================================
