SPECIFICATION TSpec
INVARIANTS Bounded SeenIsOut PrefixOK
POSTCONDITION Accepted
CHECK_DEADLOCK FALSE
