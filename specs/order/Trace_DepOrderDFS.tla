--------------------------- MODULE Trace_DepOrderDFS ---------------------------
(***************************************************************************)
(* I->S, mechanism level.  Events recorded from layout21utils::DepOrderer:  *)
(*   Graph(deps, items)   a new call of order(items)                        *)
(*   Enter(n)             push(n) reached process(n)                        *)
(*   Skip(n) / Cycle(n)   push(n) from inside process returned without      *)
(*                        calling process: Ok / Err                         *)
(*   Exit(n)              process(n) pushed all dependencies and returned   *)
(*   Done(status, out)    order() returned                                  *)
(* Each event must be the corresponding action of DepOrderDFS in the        *)
(* current model state.  Top-level pushes of already-seen items are not     *)
(* observable; they are composed into the next top-level Enter / Done.      *)
(***************************************************************************)
EXTENDS DepOrderDFS, TLC, Json, IOUtils

Rec == ndJsonDeserialize(IOEnv.TRACE)
VARIABLE l
tvars == <<dvars, l>>

IsEvent(e) == l <= Len(Rec) /\ Rec[l].e = e /\ l' = l + 1
Ev == Rec[l]

TrGraph == /\ IsEvent("Graph")
           /\ deps' = Ev.deps /\ items' = Ev.items /\ item' = 1 /\ frames' = <<>>
           /\ seen' = {} /\ pending' = {} /\ out' = <<>> /\ status' = "run"

\* first top-level item not yet seen (0 if none)
NextUnseen == IF \E j \in item..Len(items) : items[j] \notin seen
              THEN CHOOSE j \in item..Len(items) :
                     items[j] \notin seen /\ \A k \in item..(j-1) : items[k] \in seen
              ELSE 0

TrTopEnter == /\ IsEvent("Enter") /\ status = "run" /\ frames = <<>>
              /\ NextUnseen # 0 /\ items[NextUnseen] = Ev.n
              /\ Enter(Ev.n, frames)          \* TopPush(Skip)* . TopPush(Enter)
              /\ item' = NextUnseen + 1
              /\ UNCHANGED <<deps, items>>

TrDepEnter == IsEvent("Enter") /\ InProcess /\ NextDep = Ev.n /\ Enter(Ev.n, Advanced)
              /\ UNCHANGED <<deps, items, item>>
TrDepSkip  == IsEvent("Skip")  /\ InProcess /\ NextDep = Ev.n /\ Skip(Ev.n, Advanced)
              /\ UNCHANGED <<deps, items, item>>
TrDepCycle == IsEvent("Cycle") /\ InProcess /\ NextDep = Ev.n /\ CycleFail(Ev.n, Advanced)
              /\ UNCHANGED <<deps, items, item>>
TrExit == IsEvent("Exit") /\ AtExit /\ Top.node = Ev.n /\ Exit

TrDone == /\ IsEvent("Done")
          /\ \/ Ev.status = "err" /\ status = "err"
             \/ /\ Ev.status = "ok" /\ status = "run" /\ frames = <<>> /\ NextUnseen = 0
                /\ Ev.out = out
          /\ UNCHANGED dvars

TInit == l = 1 /\ DInitWith(<<>>, <<>>)
TNext == TrGraph \/ TrTopEnter \/ TrDepEnter \/ TrDepSkip \/ TrDepCycle \/ TrExit \/ TrDone
TSpec == TInit /\ [][TNext]_tvars

\* the invariants of the mechanism are evaluated at every step of every recorded run
Accepted == \/ TLCGet("stats").diameter - 1 = Len(Rec)
            \/ PrintT(<<"INFO", "unmatched", TLCGet("stats").diameter, Len(Rec)>>) /\ FALSE
=============================================================================
