------------------------------ MODULE GdsSemantics ------------------------------
(***************************************************************************)
(* What a GDSII library MEANS as flat geometry (C06), from the GDSII manual:*)
(*   BOUNDARY / BOX  a closed polygon on (layer, datatype)                  *)
(*   PATH            a centre line with a width on (layer, datatype)        *)
(*   SREF            the referenced structure, reflected about the x-axis   *)
(*                   (if the STRANS flag is set), THEN rotated counter-     *)
(*                   clockwise by ANGLE, THEN translated to XY              *)
(*   AREF            cols x rows such placements at                         *)
(*                     o + i (c - o)/cols + j (w - o)/rows,                 *)
(*                   XY = <<o, c, w>> given in the coordinates of the       *)
(*                   containing structure (pitches are NOT rotated again)   *)
(*   TEXT            a label; inside (closed region) a shape on the same    *)
(*                   layer NUMBER it names that shape's net, otherwise it   *)
(*                   is an annotation                                       *)
(* Abstract structures: [name, elems]; element kinds below.  Orientations   *)
(* are right angles (D4); everything is integer.                            *)
(***************************************************************************)
EXTENDS D4, WideContains        \* Contains + the same predicates over the whole 32-bit coordinate range

Struct(lib, n) == CHOOSE s \in { lib[i] : i \in 1..Len(lib) } : s.name = n
Defined(lib, n) == \E i \in 1..Len(lib) : lib[i].name = n
Names(lib) == { lib[i].name : i \in 1..Len(lib) }
RefsOf(s) == { s.elems[i].name : i \in { j \in 1..Len(s.elems) : s.elems[j].k \in {"sref", "aref"} } }

MapPts(T, pts) == [i \in 1..Len(pts) |-> Apply(T, pts[i])]
RECURSIVE CatAll(_)
CatAll(ss) == IF ss = <<>> THEN <<>> ELSE Head(ss) \o CatAll(Tail(ss))

\* open polygon of a closed GDS point list (last = first)
Open(pts) == SubSeq(pts, 1, Len(pts) - 1)

ArefPlacements(e) ==       \* column-major: i = column, j = row
  LET dx == <<(e.c[1] - e.o[1]) \div e.cols, (e.c[2] - e.o[2]) \div e.cols>>
      dy == <<(e.w[1] - e.o[1]) \div e.rows, (e.w[2] - e.o[2]) \div e.rows>>
  IN [n \in 1..(e.cols * e.rows) |->
        LET i == (n - 1) \div e.rows   j == (n - 1) % e.rows IN
        [loc |-> <<e.o[1] + (i * dx[1]) + (j * dy[1]), e.o[2] + (i * dx[2]) + (j * dy[2])>>, r |-> e.refl, a |-> e.angle]]

RECURSIVE FlatCell(_, _, _, _)
FlatCell(lib, n, T, fuel) ==       \* fuel bounds the recursion; MustErr covers cyclic libraries
  IF fuel = 0 THEN <<>> ELSE
  LET s == Struct(lib, n) IN
  CatAll([i \in 1..Len(s.elems) |->
    LET e == s.elems[i] IN
    CASE e.k = "boundary" -> <<[k |-> "polygon", layer |-> e.layer, dt |-> e.dt, pts |-> MapPts(T, Open(e.pts)), width |-> 0]>>
      [] e.k = "box"      -> <<[k |-> "polygon", layer |-> e.layer, dt |-> e.dt, pts |-> MapPts(T, Open(e.pts)), width |-> 0]>>
      [] e.k = "path"     -> <<[k |-> "path", layer |-> e.layer, dt |-> e.dt, pts |-> MapPts(T, e.pts), width |-> e.width]>>
      [] e.k = "sref"     -> FlatCell(lib, e.name, Cascade(T, FromInstance([loc |-> e.at, r |-> e.refl, a |-> e.angle])), fuel - 1)
      [] e.k = "aref"     -> CatAll([p \in 1..(e.cols * e.rows) |->
                                 FlatCell(lib, e.name, Cascade(T, FromInstance(ArefPlacements(e)[p])), fuel - 1)])
      [] OTHER            -> <<>>])
Flatten(lib, n) == FlatCell(lib, n, Identity, Len(lib) + 1)

\* ---- labels of one structure (own elements only)
OwnShapes(s) == { i \in 1..Len(s.elems) : s.elems[i].k \in {"boundary", "box", "path"} }
Texts(s) == { i \in 1..Len(s.elems) : s.elems[i].k = "text" }
Hits(s, t, i) ==      \* text t lies inside own shape i, on the same layer number
  LET e == s.elems[i]  q == s.elems[t].at IN
  /\ e.layer = s.elems[t].layer
  /\ IF e.k = "path" THEN PathMust(q, e.pts, e.width)
     ELSE IF IsWide(Open(e.pts)) THEN WInside(q, Open(e.pts)) ELSE Inside(q, Open(e.pts))
Annotations(s) == { t \in Texts(s) : \A i \in OwnShapes(s) : ~Hits(s, t, i) }
\* labels naming shape i (the generator never puts two different strings on one shape)
LabelsOf(s, i) == { s.elems[t].str : t \in { u \in Texts(s) : Hits(s, u, i) } }

\* ---- libraries for which the import must be an ERROR
RECURSIVE ReachS(_, _, _)
ReachS(lib, S, fuel) == IF fuel = 0 THEN S ELSE
  LET S2 == S \cup UNION { RefsOf(Struct(lib, n)) : n \in { m \in S : Defined(lib, m) } } IN
  IF S2 = S THEN S ELSE ReachS(lib, S2, fuel - 1)
Dangling(lib) == \E i \in 1..Len(lib) : \E n \in RefsOf(lib[i]) : ~Defined(lib, n)
CyclicRefs(lib) == \E i \in 1..Len(lib) : lib[i].name \in ReachS(lib, RefsOf(lib[i]), Len(lib) + 1)
BadArray(lib) == \E i \in 1..Len(lib) : \E j \in 1..Len(lib[i].elems) :
                   lib[i].elems[j].k = "aref" /\ (lib[i].elems[j].cols <= 0 \/ lib[i].elems[j].rows <= 0)
EmptyXY(lib) == \E i \in 1..Len(lib) : \E j \in 1..Len(lib[i].elems) :
                   lib[i].elems[j].k \in {"boundary", "path"} /\ lib[i].elems[j].pts = <<>>
Magnified(lib) == \E i \in 1..Len(lib) : \E j \in 1..Len(lib[i].elems) :
                   lib[i].elems[j].k \in {"sref", "aref"} /\ lib[i].elems[j].mag # "none"
MustErr(lib) == Dangling(lib) \/ CyclicRefs(lib) \/ BadArray(lib) \/ EmptyXY(lib) \/ Magnified(lib)
=============================================================================
