------------------------------ MODULE Layers ------------------------------
(***************************************************************************)
(* The layer registry of the raw model (layout21raw::Layers, ::Layer) as a  *)
(* state machine.  Every converter (GDSII, LEF, protobuf) resolves layers    *)
(* through it; C06, C07, C14 and C16 depend on its answers.                  *)
(*                                                                          *)
(*   slots   sequence of layers in insertion order; a key IS the index       *)
(*           layer = [num, name (0/1-length sequence), purps, pnums]         *)
(*             purps : purpose number -> purpose    (functions as sets of    *)
(*             pnums : purpose -> purpose number     pairs, last write wins) *)
(*   nums    layer number -> key   (last Add with that number wins)          *)
(*   names   layer name   -> key   (last Add with that name wins)            *)
(*                                                                          *)
(* Operations (one action each, as the public methods):                      *)
(*   Add(num, name, pairs)     new slot with its purposes, re-binds num and  *)
(*                             name; Other(k) / Named(_, k) must sit at k    *)
(*                             (error otherwise, nothing registered)         *)
(*   GetOrInsert(num, pn)      key of num (created if unbound), purpose pn   *)
(*                             of that layer (Other(pn) recorded if unbound) *)
(* Queries: KeyNum, KeyName, NextNum (least unbound number >= 0).            *)
(***************************************************************************)
EXTENDS Integers, Sequences, FiniteSets

VARIABLES slots, nums, names
lvars == <<slots, nums, names>>

\* finite maps as sets of pairs with unique first component
Dom(m) == { p[1] : p \in m }
Get(m, k) == (CHOOSE p \in m : p[1] = k)[2]
Put(m, k, v) == { p \in m : p[1] # k } \cup { <<k, v>> }

IsNumbered(p) == p[1] \in {"Other", "Named"}        \* purposes are <<tag, number>>, number 0 for the enumerated ones
EmptyLayer(num, name) == [num |-> num, name |-> name, purps |-> {}, pnums |-> {}]

LInit == slots = <<>> /\ nums = {} /\ names = {}

\* a layer is given its purposes BEFORE it is registered (Layer::add_pairs, add_purpose): numbered purposes
\* Other(k) / Named(_, k) must sit at their own number; one bad pair fails the whole construction
PurposeOK(pn, p) == IsNumbered(p) => p[2] = pn
PairsOK(pairs) == \A i \in 1..Len(pairs) : PurposeOK(pairs[i][1], pairs[i][2])
RECURSIVE WithPairs(_, _)
WithPairs(layer, pairs) ==
  IF pairs = <<>> THEN layer
  ELSE WithPairs([layer EXCEPT !.purps = Put(@, pairs[1][1], pairs[1][2]), !.pnums = Put(@, pairs[1][2], pairs[1][1])], Tail(pairs))
Add(num, name, pairs) ==
  IF PairsOK(pairs)
  THEN /\ slots' = Append(slots, WithPairs(EmptyLayer(num, name), pairs))
       /\ nums' = Put(nums, num, Len(slots) + 1)
       /\ names' = IF name = <<>> THEN names ELSE Put(names, name[1], Len(slots) + 1)
  ELSE UNCHANGED lvars

\* result of get_or_insert and the state after it
GoiKey(num) == IF num \in Dom(nums) THEN Get(nums, num) ELSE Len(slots) + 1
GoiPurpose(num, pn) ==
  IF num \in Dom(nums) /\ pn \in Dom(slots[Get(nums, num)].purps) THEN Get(slots[Get(nums, num)].purps, pn) ELSE <<"Other", pn>>
GetOrInsert(num, pn) ==
  LET k == GoiKey(num)
      base == IF num \in Dom(nums) THEN slots ELSE Append(slots, EmptyLayer(num, <<>>))
      p == GoiPurpose(num, pn)
  IN /\ slots' = IF pn \in Dom(base[k].purps) THEN base
                 ELSE [base EXCEPT ![k].purps = Put(@, pn, p), ![k].pnums = Put(@, p, pn)]
     /\ nums' = Put(nums, num, k)
     /\ UNCHANGED names

KeyNum(num) == IF num \in Dom(nums) THEN <<Get(nums, num)>> ELSE <<>>
KeyName(n) == IF n \in Dom(names) THEN <<Get(names, n)>> ELSE <<>>
NextNum == CHOOSE k \in 0..(Cardinality(Dom(nums)) + 1) : k \notin Dom(nums) /\ \A j \in 0..(k - 1) : j \in Dom(nums)

(***************************************************************************)
(* Invariants.                                                              *)
(***************************************************************************)
KeysValid == /\ \A p \in nums : p[2] \in 1..Len(slots) /\ slots[p[2]].num = p[1]
             /\ \A p \in names : p[2] \in 1..Len(slots) /\ slots[p[2]].name = <<p[1]>>
\* every number / name ever added is bound, and to the LATEST slot carrying it
LatestWins == /\ \A i \in 1..Len(slots) : slots[i].num \in Dom(nums) /\ Get(nums, slots[i].num) >= i
              /\ \A i \in 1..Len(slots) : slots[i].name # <<>> => Get(names, slots[i].name[1]) >= i
\* a layer's two purpose maps are inverse to each other where both are defined
PurposeMapsAgree == \A i \in 1..Len(slots) : \A q \in slots[i].pnums : q[2] \in Dom(slots[i].purps)
NumberedPurposesMatch == \A i \in 1..Len(slots) : \A q \in slots[i].purps : PurposeOK(q[1], q[2])
=============================================================================
