------------------------------ MODULE LefRaw ------------------------------
(***************************************************************************)
(* LEF -> raw abstract (C16).  LEF distances are decimals in microns; the    *)
(* raw model holds integers in units of 1/10000 micron (the importer's       *)
(* fixed choice: Units::Angstrom).  A decimal (-1)^n m 10^-s maps to         *)
(* m 10^(4-s) when s <= 4, to m / 10^(s-4) when that division is exact, and  *)
(* to an ERROR otherwise - never to a rounded value.  x and y independently. *)
(*                                                                           *)
(* One abstract cell per macro: outline (0,0) (sx,0) (sx,sy) (0,sy) from     *)
(* SIZE; per pin the shapes of all its ports grouped by layer NAME, in       *)
(* statement order within a layer; obstructions grouped by layer name.       *)
(***************************************************************************)
EXTENDS LefSyntax, FiniteSets

Pow10(k) == CASE k = 0 -> 1 [] k = 1 -> 10 [] k = 2 -> 100 [] k = 3 -> 1000 [] k = 4 -> 10000
              [] k = 5 -> 100000 [] k = 6 -> 1000000 [] k = 7 -> 10000000 [] k = 8 -> 100000000
UnitsPerMicronExp == 4
Integral(d) == d.s <= UnitsPerMicronExp \/ d.m % Pow10(d.s - UnitsPerMicronExp) = 0
Scaled(d) == LET v == IF d.s <= UnitsPerMicronExp THEN d.m * Pow10(UnitsPerMicronExp - d.s)
                      ELSE d.m \div Pow10(d.s - UnitsPerMicronExp)
             IN IF d.n THEN -v ELSE v
ScalePt(p) == <<Scaled(p[1]), Scaled(p[2])>>

\* every decimal that has to be scaled in a layer-geometry block
GeomDecs(g) == UNION { {g.pts[i][1], g.pts[i][2]} : i \in 1..Len(g.pts) }
LayerDecs(lg) == UNION { GeomDecs(lg.geoms[i]) : i \in 1..Len(lg.geoms) }
                 \cup (IF \E i \in 1..Len(lg.geoms) : lg.geoms[i].k = "PATH" THEN { lg.width[1] } ELSE {})
PinLayers(p) == Cat([i \in 1..Len(p.ports) |-> p.ports[i].layers])
MacroDecs(m) == { m.size[1][1], m.size[1][2] }
                \cup UNION { UNION { LayerDecs(PinLayers(m.pins[i])[j]) : j \in 1..Len(PinLayers(m.pins[i])) } : i \in 1..Len(m.pins) }
                \cup UNION { LayerDecs(m.obs[j]) : j \in 1..Len(m.obs) }
MustErr(lib) == \E i \in 1..Len(lib.macros) : \E d \in MacroDecs(lib.macros[i]) : ~Integral(d)

Shape(g, lg) ==
  CASE g.k = "RECT" -> [k |-> "rect", pts |-> <<ScalePt(g.pts[1]), ScalePt(g.pts[2])>>, width |-> 0]
    [] g.k = "POLYGON" -> [k |-> "polygon", pts |-> Map(ScalePt, g.pts), width |-> 0]
    [] g.k = "PATH" -> [k |-> "path", pts |-> Map(ScalePt, g.pts), width |-> Scaled(lg.width[1])]
LayerShapes(lg) == [i \in 1..Len(lg.geoms) |-> Shape(lg.geoms[i], lg)]
\* shapes of a sequence of layer blocks, grouped by layer name, block order kept within a name
LayerNames(lgs) == { lgs[i].layer_name : i \in 1..Len(lgs) }
Grouped(lgs) == [l \in LayerNames(lgs) |->
                   Cat([i \in 1..Len(lgs) |-> IF lgs[i].layer_name = l THEN LayerShapes(lgs[i]) ELSE <<>>])]

ImportMacro(m) ==
  LET sx == Scaled(m.size[1][1])  sy == Scaled(m.size[1][2]) IN
  [name |-> m.name, outline |-> << <<0, 0>>, <<sx, 0>>, <<sx, sy>>, <<0, sy>> >>,
   ports |-> [i \in 1..Len(m.pins) |-> [net |-> m.pins[i].name, shapes |-> Grouped(PinLayers(m.pins[i]))]],
   blockages |-> Grouped(m.obs)]
ImportLib(lib) == [cells |-> Map(ImportMacro, lib.macros)]
=============================================================================
