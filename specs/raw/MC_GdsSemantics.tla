------------------------------ MODULE MC_GdsSemantics ------------------------------
(* GDSII libraries for C06: hierarchies in every listing order with every right-angle      *)
(* orientation, arrays, every rectangle point order, polygons, paths, boxes, labels in,    *)
(* on and outside shapes, and malformed libraries; with the flat geometry, nets and        *)
(* annotations that GdsSemantics assigns to each structure.                                *)
EXTENDS GdsSemantics, TLC, Json, FiniteSets

VARIABLE c

Close(p) == Append(p, p[1])
Rot(p, k) == [i \in 1..Len(p) |-> p[((i + k - 1) % Len(p)) + 1]]
Rev(p) == [i \in 1..Len(p) |-> p[Len(p) + 1 - i]]
RectPts == << <<1, 2>>, <<4, 2>>, <<4, 3>>, <<1, 3>> >>
LPts == << <<0, 0>>, <<4, 0>>, <<4, 1>>, <<1, 1>>, <<1, 3>>, <<0, 3>> >>
B(l, d, p) == [k |-> "boundary", layer |-> l, dt |-> d, pts |-> Close(p)]
Bx(l, d, p) == [k |-> "box", layer |-> l, dt |-> d, pts |-> Close(p)]
Pa(l, d, w, p) == [k |-> "path", layer |-> l, dt |-> d, width |-> w, pts |-> p]
Sr(n, at, r, a) == [k |-> "sref", name |-> n, at |-> at, refl |-> r, angle |-> a, mag |-> "none"]
Ar(n, o, cc, ww, cols, rows, r, a) == [k |-> "aref", name |-> n, o |-> o, c |-> cc, w |-> ww, cols |-> cols, rows |-> rows,
                                       refl |-> r, angle |-> a, mag |-> "none"]
Tx(l, at, s) == [k |-> "text", layer |-> l, tt |-> 0, at |-> at, str |-> s]
S(n, es) == [name |-> n, elems |-> es]

Leaf == S("leaf", << B(1, 0, RectPts), B(2, 5, LPts), Pa(3, 0, 2, << <<0, 0>>, <<5, 0>>, <<5, 4>> >>), Bx(4, 1, Rot(RectPts, 2)) >>)
Orient == BOOLEAN \X Angles
Perms3 == { <<1, 2, 3>>, <<1, 3, 2>>, <<2, 1, 3>>, <<2, 3, 1>>, <<3, 1, 2>>, <<3, 2, 1>> }
Permute(s, p) == [i \in 1..Len(p) |-> s[p[i]]]

Hier == { Permute(<< S("top", << Sr("mid", <<-7, 5>>, o1[1], o1[2]), B(7, 0, RectPts) >>),
                     S("mid", << B(9, 1, Rot(RectPts, 1)), Sr("leaf", <<3, 11>>, o2[1], o2[2]) >>), Leaf >>, p)
           : o1 \in Orient, o2 \in Orient, p \in {<<1, 2, 3>>, <<3, 2, 1>>, <<2, 3, 1>>} }
   \cup { Permute(<< S("top", << Sr("leaf", <<0, 0>>, FALSE, 0), Sr("leaf", <<20, 0>>, TRUE, 90), Sr("mid", <<0, 30>>, FALSE, 180) >>),
                     S("mid", << Sr("leaf", <<1, 1>>, TRUE, 270) >>), Leaf >>, p) : p \in Perms3 }
RectOrders == { << S("r", << B(1, 0, Rot(RectPts, k)) >>) >> : k \in 0..3 }
         \cup { << S("r", << B(1, 0, Rot(Rev(RectPts), k)) >>) >> : k \in 0..3 }
         \cup { << S("r", << B(1, 0, Rot(LPts, k)), Bx(2, 2, Rot(Rev(RectPts), k)) >>) >> : k \in 0..5 }
\* boundaries that are NOT rectangles although they have four vertices (three axis-parallel sides and a slanted one,
\* parallelogram, kite), a triangle, a 45-degree octagon: every start vertex, both directions; one label inside the bounding
\* box but outside the polygon (must stay an annotation) and one inside (must name the shape)
Quads == [ trap45 |-> << <<0,0>>, <<0,6>>, <<4,6>>, <<4,4>> >>,
           trapgen |-> << <<0,0>>, <<20,0>>, <<20,5>>, <<7,5>> >>,
           para |-> << <<0,0>>, <<4,0>>, <<6,3>>, <<2,3>> >>,
           kite |-> << <<0,0>>, <<5,0>>, <<5,5>>, <<3,2>> >>,
           tri |-> << <<0,0>>, <<7,0>>, <<0,5>> >>,
           octagon |-> << <<2,0>>, <<4,0>>, <<6,2>>, <<6,4>>, <<4,6>>, <<2,6>>, <<0,4>>, <<0,2>> >> ]
QuadIn  == [ trap45 |-> <<1,4>>, trapgen |-> <<15,3>>, para |-> <<3,1>>, kite |-> <<4,1>>, tri |-> <<1,1>>, octagon |-> <<3,3>> ]
QuadOut == [ trap45 |-> <<3,1>>, trapgen |-> <<2,4>>, para |-> <<5,1>>, kite |-> <<2,4>>, tri |-> <<6,4>>, octagon |-> <<0,0>> ]
NonRect == UNION { { << S("q", << B(3, 0, Rot(Quads[n], k)), Tx(3, QuadIn[n], "inside"), Tx(3, QuadOut[n], "outside") >>) >>
                       : k \in 0..(Len(Quads[n]) - 1) }
                   \cup { << S("q", << B(3, 0, Rot(Rev(Quads[n]), k)), Tx(3, QuadOut[n], "outside") >>) >> : k \in 0..(Len(Quads[n]) - 1) }
                   : n \in DOMAIN Quads }
QuadPointsOK == \A n \in DOMAIN Quads :
                  LET xs == { Quads[n][i][1] : i \in 1..Len(Quads[n]) }  ys == { Quads[n][i][2] : i \in 1..Len(Quads[n]) } IN
                  /\ Inside(QuadIn[n], Quads[n]) /\ ~Inside(QuadOut[n], Quads[n])
                  /\ \E a, b \in xs : a <= QuadOut[n][1] /\ QuadOut[n][1] <= b
                  /\ \E a, b \in ys : a <= QuadOut[n][2] /\ QuadOut[n][2] <= b
Arrays == { << S("top", << Ar("leaf", <<10, 20>>, <<10 + (7 * nc), 20>>, <<10, 20 + (5 * nr)>>, nc, nr, o[1], o[2]) >>), Leaf >>
              : nc \in 1..3, nr \in 1..3, o \in Orient }
     \cup { << Leaf, S("top", << Ar("leaf", <<0, 0>>, <<-12, 0>>, <<0, 22>>, 2, 2, TRUE, 0) >>) >> }
     \* lattice given rotated by 90 degrees, as a rotated array is written in GDSII
     \cup { << S("top", << Ar("leaf", <<10, 20>>, <<10, 20 + (7 * 2)>>, <<10 - (5 * 3), 20>>, 2, 3, FALSE, 90) >>), Leaf >> }
Labels == { << S("lab", << B(1, 0, RectPts), B(1, 3, Rot(LPts, 2)), Pa(2, 0, 2, << <<10, 10>>, <<20, 10>> >>),
                           Tx(1, q, "NetA"), Tx(2, <<15, 11>>, "pathnet"), Tx(5, <<2, 2>>, "elsewhere") >>) >>
              : q \in { <<2, 2>>, <<1, 2>>, <<4, 3>>, <<2, 3>>, <<5, 5>>, <<0, 2>>, <<3, 1>>, <<9, 9>> } }
     \cup { << S("lab", << B(1, 0, RectPts), B(1, 0, << <<10, 0>>, <<12, 0>>, <<12, 2>>, <<10, 2>> >>),
                           Tx(1, <<2, 2>>, "vdd"), Tx(1, <<11, 1>>, "VDD"), Tx(1, <<50, 50>>, "floating") >>) >> }
\* a crowded layer: 70 small squares, one wide path and a label that lies inside the path's width but off its centre line
\* (whatever a converter does differently for layers with many shapes, the label still names the path)
Crowded == { << S("crowd", [k \in 1..72 |-> IF k <= 70 THEN B(5, 0, << <<100 + (4 * k), 100>>, <<102 + (4 * k), 100>>, <<102 + (4 * k), 102>>, <<100 + (4 * k), 102>> >>)
                                          ELSE IF k = 71 THEN Pa(5, 0, 4, << <<0, 0>>, <<10, 0>> >>) ELSE Tx(5, <<5, 1>>, "VDD")]) >> }
Mal == { << S("a", << Sr("missing", <<0, 0>>, FALSE, 0) >>) >>,
         << S("a", << Sr("a", <<0, 0>>, FALSE, 0) >>) >>,
         << S("a", << Sr("b", <<0, 0>>, FALSE, 0) >>), S("b", << B(1, 0, RectPts), Sr("a", <<1, 1>>, TRUE, 90) >>) >>,
         << S("a", << Ar("b", <<0, 0>>, <<10, 0>>, <<0, 10>>, 0, 2, FALSE, 0) >>), S("b", << B(1, 0, RectPts) >>) >>,
         << S("a", << Ar("b", <<0, 0>>, <<10, 0>>, <<0, 10>>, 2, -1, FALSE, 0) >>), S("b", << B(1, 0, RectPts) >>) >>,
         << S("a", << Ar("missing", <<0, 0>>, <<10, 0>>, <<0, 10>>, 2, 2, FALSE, 0) >>) >>,
         << S("a", << [k |-> "boundary", layer |-> 1, dt |-> 0, pts |-> <<>>] >>) >>,
         << S("a", << [k |-> "path", layer |-> 1, dt |-> 0, width |-> 2, pts |-> <<>>], Tx(1, <<0, 0>>, "n") >>) >>,
         << S("a", << [Sr("b", <<0, 0>>, FALSE, 0) EXCEPT !.mag = "mag2"] >>), S("b", << B(1, 0, RectPts) >>) >>,
         << S("a", << [Sr("b", <<0, 0>>, FALSE, 0) EXCEPT !.mag = "absmag"] >>), S("b", << B(1, 0, RectPts) >>) >>,
         << S("a", << [Sr("b", <<0, 0>>, FALSE, 0) EXCEPT !.mag = "absangle"] >>), S("b", << B(1, 0, RectPts) >>) >>,
         << S("a", << [Ar("b", <<0, 0>>, <<10, 0>>, <<0, 10>>, 2, 2, FALSE, 0) EXCEPT !.mag = "mag2"] >>), S("b", << B(1, 0, RectPts) >>) >> }
\* MAG = 1.0 written explicitly is not a magnification
Mag1 == { << S("a", << [Sr("b", <<3, 4>>, TRUE, 90) EXCEPT !.mag = "mag1"] >>), S("b", << B(1, 0, RectPts) >>) >> }

\* paths the containment predicate does not cover (single point, diagonal) with a label on their layer:
\* only totality is required of the import (Ok or Err), the label may go either way
Lenient == { << S("a", << Pa(1, 0, 2, << <<0, 0>>, <<5, 5>> >>), Tx(1, <<2, 2>>, "n") >>) >>,
             << S("a", << Pa(1, 0, 2, << <<3, 3>> >>), Tx(1, <<3, 3>>, "n") >>) >> }
\* wide fan-out: a parent listed FIRST (and last) that references four otherwise unrelated structures, by SREF and AREF
Kid(n, l) == S(n, << B(l, 0, RectPts) >>)
FanTop == S("fan_top", << Sr("kid_c", <<0, 0>>, FALSE, 0), Ar("kid_a", <<0, 20>>, <<14, 20>>, <<0, 30>>, 2, 1, FALSE, 0),
                          Sr("kid_d", <<30, 0>>, TRUE, 90), Sr("kid_b", <<60, 0>>, FALSE, 180), Sr("kid_c", <<90, 0>>, FALSE, 0) >>)
Fanout == { << FanTop, Kid("kid_a", 1), Kid("kid_b", 2), Kid("kid_c", 3), Kid("kid_d", 4) >>,
            << Kid("kid_d", 4), Kid("kid_b", 2), FanTop, Kid("kid_a", 1), Kid("kid_c", 3) >>,
            << Kid("kid_a", 1), Kid("kid_b", 2), Kid("kid_c", 3), Kid("kid_d", 4), FanTop >> }
\* the far end of the 32-bit coordinate range: a triangle whose hypotenuse passes within one unit of area of two labels, one
\* on each side (cross products of 64 bits: GdsSemantics.Hits switches to WideContains)
WideLibs == { << S("w", << B(3, 0, << <<0, 0>>, <<X, 0>>, <<X, X + 2>> >>), Tx(3, <<(X \div 2) + 1, (X + 2) \div 2>>, "inside"),
                         Tx(3, <<X \div 2, (X + 2) \div 2>>, "outside") >>) >> : X \in {300000001, 1000000001} }
        \cup { << S("w", << B(3, 0, << <<-X, -5>>, <<0, -5>>, <<0, X - 3>> >>), Tx(3, <<-1, X - 5>>, "inside"), Tx(3, <<-2, X - 4>>, "outside") >>) >> : X \in {300000001} }
\* names far longer than the format's traditional 32 characters, sharing a long common prefix (names are content)
LongP == "structure_with_a_long_hierarchical_name_of_more_than_thirtytwo_characters_"
LongNames == { << Kid(LongP \o "a", 1), Kid(LongP \o "b", 2),
                  S(LongP \o "top", << Sr(LongP \o "a", <<0, 0>>, FALSE, 0), Sr(LongP \o "b", <<30, 0>>, TRUE, 90) >>) >> }
\* Deep random hierarchies (NDeep of them, TLC's RandomElement, reproducible under -seed): four levels, every level with
\* its own shapes, a reference and an array of the level below in random orientations at random places, structures
\* listed in a random order.  The expected flattened bags are computed by Flatten like for every other library.
CONSTANT NDeep
Places == { <<0, 0>>, <<-7, 5>>, <<13, 2>>, <<40, -30>>, <<-25, -25>> }
Perms4 == { p \in [1..4 -> 1..4] : \A i, j \in 1..4 : p[i] = p[j] => i = j }
Deep(i) ==
  LET o1 == RandomElement(Orient)  o2 == RandomElement(Orient)  o3 == RandomElement(Orient)  o4 == RandomElement(Orient)
      a1 == RandomElement(Places)  a2 == RandomElement(Places)  a3 == RandomElement(Places)
      nc == RandomElement(1..3)    nr == RandomElement(1..2)
      l1 == S("lvl1", << Sr("leaf", a1, o1[1], o1[2]), B(5, 0, RectPts) >>)
      l2 == S("lvl2", << Ar("lvl1", a2, <<a2[1] + (9 * nc), a2[2]>>, <<a2[1], a2[2] + (11 * nr)>>, nc, nr, o2[1], o2[2]), B(6, 1, Rot(LPts, i % 6)) >>)
      l3 == S("lvl3", << Sr("lvl2", a3, o3[1], o3[2]), Sr("leaf", a1, o4[1], o4[2]), Pa(7, 0, 2, << <<0, 0>>, <<0, 6>>, <<4, 6>> >>) >>)
  IN Permute(<< l3, l2, l1, Leaf >>, RandomElement(Perms4))
DeepLibs == { Deep(i) : i \in 1..NDeep }
Libs == Hier \cup RectOrders \cup NonRect \cup Fanout \cup LongNames \cup WideLibs \cup DeepLibs \cup Crowded \cup Arrays \cup Labels \cup Mal \cup Mag1 \cup Lenient
Init == c \in Libs
Next == UNCHANGED c
Spec == Init /\ [][Next]_c

SetToSeq(Sx) == LET RECURSIVE F(_) F(T) == IF T = {} THEN <<>> ELSE LET x == CHOOSE y \in T : TRUE IN <<x>> \o F(T \ {x}) IN F(Sx)
CellOut(s) == [name |-> s.name, flat |-> Flatten(c, s.name),
               nets |-> [i \in 1..Len(s.elems) |-> IF i \in OwnShapes(s) THEN SetToSeq(LabelsOf(s, i)) ELSE <<>>],
               annots |-> SetToSeq({ [str |-> s.elems[t].str, at |-> s.elems[t].at] : t \in Annotations(s) })]
RealMagnified(l) == \E i \in 1..Len(l) : \E j \in 1..Len(l[i].elems) :
                      l[i].elems[j].k \in {"sref", "aref"} /\ l[i].elems[j].mag \in {"mag2", "absmag", "absangle"}
MustErrC == Dangling(c) \/ CyclicRefs(c) \/ BadArray(c) \/ EmptyXY(c) \/ RealMagnified(c)
\* flattening conserves shapes: the bag of a hierarchy has (own shapes + those of referenced cells) many entries
CountOK == MustErrC \/ c \in Lenient \/ \A i \in 1..Len(c) : Len(Flatten(c, c[i].name)) >= Cardinality(OwnShapes(c[i]))
Emit == PrintT(<<"CASE", ToJson([lib |-> c, must_err |-> MustErrC, lenient |-> c \in Lenient,
                                 cells |-> IF MustErrC \/ c \in Lenient THEN <<>> ELSE [i \in 1..Len(c) |-> CellOut(c[i])]])>>)
=============================================================================
