------------------------------ MODULE MC_Layers ------------------------------
(* Every sequence of MaxOps registry operations over a small domain; the complete answers of the model after   *)
(* every operation are emitted for replay into layout21raw::Layers (S->I), invariants checked in every state. *)
EXTENDS Layers, TLC, Json

CONSTANT MaxOps
VARIABLE hist
NumsD == {1, 2, 3}
NamesD == { <<>>, <<"a">>, <<"b">> }
PNumsD == {0, 5}

SetToSeq(S) == LET RECURSIVE F(_) F(T) == IF T = {} THEN <<>> ELSE LET x == CHOOSE y \in T : \A z \in T : y[1] <= z[1] IN <<x>> \o F(T \ {x}) IN F(S)
\* what an observer can ask after an operation (primed state)
Answers == [keynum |-> [n \in NumsD |-> KeyNum(n)]', keyname |-> [a |-> KeyName("a"), b |-> KeyName("b")]', nextnum |-> NextNum',
            nslots |-> Len(slots)',
            purposes |-> [i \in 1..Len(slots') |-> SetToSeq(slots'[i].purps)]]

Init == LInit /\ hist = <<>>
Dr == <<"Drawing", 0>>  Pn == <<"Pin", 0>>
PairsD == { <<>>, << <<0, Dr>> >>, << <<0, Dr>>, <<5, Pn>> >>, << <<5, <<"Other", 5>>>> >>, << <<0, <<"Other", 5>>>> >>,
            << <<0, Dr>>, <<0, Pn>> >>, << <<5, <<"Named", 5>>>>, <<0, <<"Named", 5>>>> >> }
DoAdd(num, name, pairs) == Add(num, name, pairs)
                           /\ hist' = Append(hist, [op |-> "add", num |-> num, name |-> name, pairs |-> pairs, ok |-> PairsOK(pairs),
                                                    key |-> Len(slots) + 1, ans |-> Answers])
DoGoi(num, pn) == GetOrInsert(num, pn)
                  /\ hist' = Append(hist, [op |-> "get_or_insert", num |-> num, pn |-> pn, key |-> GoiKey(num), p |-> GoiPurpose(num, pn), ans |-> Answers])
Next == /\ Len(hist) < MaxOps
        /\ \/ \E num \in {1, 2}, name \in NamesD, pairs \in PairsD : DoAdd(num, name, pairs)
           \/ \E num \in NumsD, pn \in PNumsD : DoGoi(num, pn)
Spec == Init /\ [][Next]_<<lvars, hist>>

\* get_or_insert is idempotent: asking again changes nothing and answers the same
GoiIdempotent == \A num \in NumsD, pn \in PNumsD :
                   (num \in Dom(nums) /\ pn \in Dom(slots[Get(nums, num)].purps)) =>
                      /\ GoiKey(num) = Get(nums, num)
                      /\ GoiPurpose(num, pn) = Get(slots[Get(nums, num)].purps, pn)
Emit == Len(hist) = MaxOps => PrintT(<<"CASE", ToJson([hist |-> hist])>>)
=============================================================================
