------------------------------ MODULE MC_LefRaw ------------------------------
(* LEF macros with sizes, pins, ports, obstructions and all three shape kinds over decimal   *)
(* classes (0..7 fractional digits, negatives, x # y), with the abstract that LefRaw says    *)
(* the import must produce, or the fact that it must be an error.                            *)
EXTENDS LefRaw, TLC, Json

VARIABLE c
\* coordinates: (mantissa, scale) classes; index i and i+1 always differ
C == << Dec(FALSE, 0, 0), Dec(FALSE, 1, 0), Dec(FALSE, 15, 1), Dec(TRUE, 5, 1), Dec(FALSE, 1065, 2), Dec(FALSE, 1065, 3),
        Dec(FALSE, 999999, 4), Dec(TRUE, 12, 0), Dec(FALSE, 1, 4), Dec(FALSE, 225, 2), Dec(TRUE, 33, 3), Dec(FALSE, 5, 0),
        Dec(FALSE, 12345, 4), Dec(FALSE, 120, 5), Dec(FALSE, 1000000, 6), Dec(TRUE, 7, 2) >>
Bad == << Dec(FALSE, 5, 5), Dec(FALSE, 1234567, 7), Dec(TRUE, 1, 6), Dec(FALSE, 15, 5) >>
Cn(i) == C[((i - 1) % Len(C)) + 1]
Q(i) == <<Cn(i), Cn(i + 1)>>
M(sz) == [EmptyMacro("cell_a") EXCEPT !.size = <<sz>>]
Lib1(m) == [EmptyLib EXCEPT !.macros = <<m>>]
Geo(k, i, n) == [k |-> k, mask |-> <<>>, pts |-> [j \in 1..n |-> Q(i + (2 * j))], iterate |-> <<>>]
Lyr(name, w, gs) == [EmptyLayer(name) EXCEPT !.width = w, !.geoms = gs]
Pin1(name, ports) == [EmptyPin(name) EXCEPT !.ports = ports]
Prt(ls) == [class |-> <<>>, layers |-> ls]

SizeCases == { Lib1(M(<<Cn(i), Cn(j)>>)) : i \in 2..Len(C), j \in 2..Len(C) }
BadSize == { Lib1(M(<<Bad[i], Cn(3)>>)) : i \in 1..Len(Bad) } \cup { Lib1(M(<<Cn(3), Bad[i]>>)) : i \in 1..Len(Bad) }
ShapeCases ==
     { Lib1([M(Q(2)) EXCEPT !.pins = <<Pin1("A", <<Prt(<<Lyr("met1", <<>>, <<Geo("RECT", i, 2)>>)>>)>>)>>]) : i \in 1..16 }
  \cup { Lib1([M(Q(2)) EXCEPT !.pins = <<Pin1("A", <<Prt(<<Lyr("met1", <<>>, <<Geo("POLYGON", i, n)>>)>>)>>)>>]) : i \in {1, 4, 9}, n \in {3, 4, 6} }
  \cup { Lib1([M(Q(2)) EXCEPT !.pins = <<Pin1("A", <<Prt(<<Lyr("met2", <<Cn(w)>>, <<Geo("PATH", i, n)>>)>>)>>)>>]) : i \in {2, 7}, n \in {2, 3}, w \in {2, 3, 9, 10, 12} }
  \cup { Lib1([M(Q(2)) EXCEPT !.obs = <<Lyr("met1", <<>>, <<Geo("RECT", i, 2)>>)>>]) : i \in 1..8 }
BadShape ==
     { Lib1([M(Q(2)) EXCEPT !.pins = <<Pin1("A", <<Prt(<<Lyr("met1", <<>>, <<[Geo("RECT", 1, 2) EXCEPT !.pts[b[1]][b[2]] = Bad[i]]>>)>>)>>)>>])
         : i \in 1..Len(Bad), b \in {<<1, 1>>, <<1, 2>>, <<2, 1>>, <<2, 2>>} }
  \cup { Lib1([M(Q(2)) EXCEPT !.pins = <<Pin1("A", <<Prt(<<Lyr("met2", <<Bad[i]>>, <<Geo("PATH", 2, 2)>>)>>)>>)>>]) : i \in 1..Len(Bad) }
  \cup { Lib1([M(Q(2)) EXCEPT !.obs = <<Lyr("met1", <<>>, <<[Geo("POLYGON", 3, 3) EXCEPT !.pts[2][2] = Bad[i]]>>)>>]) : i \in 1..Len(Bad) }
Structure ==
  { Lib1([M(Q(5)) EXCEPT
      !.pins = << Pin1("A", <<Prt(<<Lyr("met1", <<>>, <<Geo("RECT", 1, 2), Geo("POLYGON", 2, 3)>>), Lyr("met2", <<Cn(2)>>, <<Geo("PATH", 3, 3)>>)>>),
                              Prt(<<Lyr("met1", <<>>, <<Geo("RECT", 6, 2)>>)>>)>>),
                  Pin1("vdd", <<Prt(<<Lyr("met3", <<>>, <<Geo("RECT", 8, 2)>>)>>)>>),
                  Pin1("nopins", <<>>) >>,
      !.obs = << Lyr("met1", <<>>, <<Geo("RECT", 4, 2)>>), Lyr("via1", <<>>, <<Geo("RECT", 5, 2)>>),
                 Lyr("met1", <<>>, <<Geo("POLYGON", 7, 4)>>) >>]),
    \* layer names are case-sensitive identifiers: names that differ only in capitalisation are different layers
    Lib1([M(Q(3)) EXCEPT
      !.pins = << Pin1("B", <<Prt(<<Lyr("M1", <<>>, <<Geo("RECT", 1, 2)>>), Lyr("m1", <<>>, <<Geo("RECT", 3, 2)>>), Lyr("MET1", <<>>, <<Geo("RECT", 5, 2)>>)>>)>>) >>,
      !.obs = << Lyr("Boundary", <<>>, <<Geo("RECT", 4, 2)>>), Lyr("met1", <<>>, <<Geo("RECT", 6, 2)>>), Lyr("Met1", <<>>, <<Geo("RECT", 7, 2)>>) >>]),
    \* vocabulary: layer names the LEF reference uses for layer TYPES and special layers (OVERLAP, MASTERSLICE, CUT, ROUTING,
    \* OUTLINE) are layer names like any other inside a macro: a shape on them is a shape, not an outline
    Lib1([M(Q(3)) EXCEPT
      !.pins = << Pin1("B", <<Prt(<<Lyr("OVERLAP", <<>>, <<Geo("RECT", 1, 2)>>), Lyr("CUT", <<>>, <<Geo("RECT", 3, 2)>>)>>)>>) >>,
      !.obs = << Lyr("OVERLAP", <<>>, <<Geo("RECT", 4, 2)>>), Lyr("MASTERSLICE", <<>>, <<Geo("POLYGON", 6, 4)>>), Lyr("OUTLINE", <<>>, <<Geo("RECT", 7, 2)>>),
                 Lyr("ROUTING", <<>>, <<Geo("RECT", 2, 2)>>) >>]),
    [EmptyLib EXCEPT !.macros = << M(Q(2)), [M(Q(4)) EXCEPT !.name = "cell_b", !.obs = <<Lyr("m", <<>>, <<Geo("RECT", 2, 2)>>)>>] >>] }

\* Random macros (NRand; TLC's RandomElement, reproducible under -seed): every number a random decimal with 0..7 fractional
\* digits (so roughly a third of the macros hold a value that is not a whole number of database units and must be refused)
CONSTANT NRand
\* (operators with a parameter: TLC evaluates a parameterless definition once and would reuse the one random value)
RD(j) == Dec(RandomElement(BOOLEAN), RandomElement(0..99999), RandomElement(0..4))          \* always a whole number of units
RBad(j) == Dec(RandomElement(BOOLEAN), (10 * RandomElement(0..9999)) + RandomElement(1..9), RandomElement(5..7))   \* never
RDpos(j) == Dec(FALSE, RandomElement(1..99999), RandomElement(0..4))
RGeo(k, n) == [k |-> k, mask |-> <<>>, pts |-> [j \in 1..n |-> <<RD(j), RD(j + n)>>], iterate |-> <<>>]
\* one macro in three gets exactly one bad coordinate, somewhere
Spoil(g) == LET j == RandomElement(1..Len(g.pts)) IN [g EXCEPT !.pts[j][RandomElement(1..2)] = RBad(j)]
MaybeSpoil(g, on) == IF on THEN Spoil(g) ELSE g
RandMacro(i) ==
  LET bad == RandomElement(1..9) IN      \* 1..3: which geometry is spoiled; 4..9: none
  [M(<<RDpos(i), RDpos(i + 1)>>) EXCEPT
     !.pins = << Pin1("P", <<Prt(<<Lyr("met1", <<>>, <<MaybeSpoil(RGeo("RECT", 2), bad = 1), MaybeSpoil(RGeo("POLYGON", RandomElement(3..5)), bad = 2)>>),
                                   Lyr("met2", <<RDpos(i + 2)>>, <<RGeo("PATH", RandomElement(2..4))>>)>>)>>) >>,
     !.obs = << Lyr(RandomElement({"met1", "via1"}), <<>>, <<MaybeSpoil(RGeo("RECT", 2), bad = 3)>>) >>]
RandLibs == { Lib1(RandMacro(i)) : i \in 1..NRand }
Libs == SizeCases \cup BadSize \cup ShapeCases \cup BadShape \cup Structure \cup RandLibs
Init == c \in Libs
Next == UNCHANGED c
Spec == Init /\ [][Next]_c

\* x and y of every scaled point come from their own coordinate
ScaleSound == c = c /\ \A i \in 1..Len(C) : Integral(Cn(i)) /\ Scaled(Cn(i)) < 100000000 /\ Scaled(Cn(i)) > -100000000
BadAreBad == c = c /\ \A i \in 1..Len(Bad) : ~Integral(Bad[i])
Emit == PrintT(<<"CASE", ToJson([lib |-> c, toks |-> RenderLib(c, FALSE, TRUE), must_err |-> MustErr(c),
                                 expect |-> IF MustErr(c) THEN [cells |-> <<>>] ELSE ImportLib(c)])>>)
=============================================================================
