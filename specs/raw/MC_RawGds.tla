------------------------------ MODULE MC_RawGds ------------------------------
(* Raw libraries for C07: every rectangle corner order, rectilinear / 45-degree / general polygons (L, U, T,   *)
(* staircase, octagon, diamond, triangles incl. slivers) from every start vertex in both directions,           *)
(* Manhattan paths with several widths, nets in several casings, two layers x two purposes, four units,        *)
(* instances in all eight orientations nested three deep.  For each polygon the model also states whether     *)
(* ANY lattice point lies inside it (if none does, no label location exists and an export error is warranted). *)
EXTENDS RawGds, TLC, Json, FiniteSets

VARIABLE c
Rot(p, k) == [i \in 1..Len(p) |-> p[((i + k - 1) % Len(p)) + 1]]
Rev(p) == [i \in 1..Len(p) |-> p[Len(p) + 1 - i]]
Polys == [ L |-> << <<0,0>>, <<4,0>>, <<4,1>>, <<1,1>>, <<1,3>>, <<0,3>> >>,
           U |-> << <<0,0>>, <<0,10>>, <<2,10>>, <<2,2>>, <<8,2>>, <<8,10>>, <<10,10>>, <<10,0>> >>,
           T |-> << <<0,4>>, <<6,4>>, <<6,6>>, <<4,6>>, <<4,12>>, <<2,12>>, <<2,6>>, <<0,6>> >>,
           stair |-> << <<0,0>>, <<6,0>>, <<6,2>>, <<4,2>>, <<4,4>>, <<2,4>>, <<2,6>>, <<0,6>> >>,
           octagon |-> << <<2,0>>, <<4,0>>, <<6,2>>, <<6,4>>, <<4,6>>, <<2,6>>, <<0,4>>, <<0,2>> >>,
           diamond |-> << <<3,0>>, <<6,3>>, <<3,6>>, <<0,3>> >>,
           tri |-> << <<0,0>>, <<7,0>>, <<0,5>> >>,
           sliver |-> << <<0,0>>, <<10,1>>, <<10,2>> >>,
           needle |-> << <<0,0>>, <<7,1>>, <<14,1>> >>,
           quad |-> << <<0,0>>, <<9,2>>, <<7,8>>, <<-2,5>> >>,
           chevron |-> << <<0,0>>, <<1,0>>, <<3,3>>, <<1,4>>, <<0,4>>, <<2,2>> >>,
           \* four vertices, NOT rectangles: three axis-parallel sides and a slanted one (45 degrees / general), a parallelogram,
           \* a square standing on a corner of its bounding box, an axis-parallel "bow tie"-free kite
           trap45 |-> << <<0,0>>, <<0,6>>, <<4,6>>, <<4,4>> >>,
           trapgen |-> << <<0,0>>, <<20,0>>, <<20,5>>, <<7,5>> >>,
           para |-> << <<0,0>>, <<4,0>>, <<6,3>>, <<2,3>> >>,
           kite |-> << <<0,0>>, <<5,0>>, <<5,5>>, <<3,2>> >> ]
PolyVariants == UNION { { Rot(Polys[n], k) : k \in 0..(Len(Polys[n]) - 1) } \cup { Rot(Rev(Polys[n]), k) : k \in 0..(Len(Polys[n]) - 1) }
                        : n \in DOMAIN Polys }
RectVariants == { << <<0,0>>, <<4,2>> >>, << <<4,2>>, <<0,0>> >>, << <<0,2>>, <<4,0>> >>, << <<4,0>>, <<0,2>> >>,
                  << <<0,0>>, <<2,5>> >>, << <<-3,-7>>, <<3,7>> >>, << <<1,1>>, <<2,2>> >>, << <<0,0>>, <<1,8>> >> }
PathVariants == { << <<0,0>>, <<6,0>> >>, << <<6,0>>, <<0,0>> >>, << <<0,0>>, <<0,7>> >>, << <<0,0>>, <<5,0>>, <<5,4>> >>,
                  << <<0,0>>, <<5,0>>, <<5,4>>, <<9,4>> >>, << <<2,2>>, <<2,9>>, <<-4,9>> >>,
                  \* a ring drawn as one path: it ends where it starts, and the last point is content
                  << <<0,0>>, <<9,0>>, <<9,9>>, <<0,9>>, <<0,0>> >>, << <<6,6>>, <<6,0>>, <<0,0>>, <<0,6>>, <<6,6>> >> }
Nets == << "", "a", "VDD", "MiXed" >>
E(l, p, k, pts, w, net) == [layer |-> l, purpose |-> p, k |-> k, pts |-> pts, width |-> w, net |-> net]
Cell(n, insts, elems) == [name |-> n, insts |-> insts, elems |-> elems]
I(cn, loc, r, a) == [name |-> "i_" \o cn, cell |-> cn, loc |-> loc, refl |-> r, angle |-> a]
Lib(u, cells) == [name |-> "rawlib", units |-> u, cells |-> cells]
Idx(S, x) == Cardinality({ y \in S : \E i \in 1..Len(y) : TRUE }) \* unused

\* deterministic choice of net / layer / purpose per shape: covered, not multiplied
H(pts) == (pts[1][1] * 3) + (pts[1][2] * 5) + (Len(pts) * 7) + pts[Len(pts)][1] + 40
NetOf(pts) == Nets[(H(pts) % 4) + 1]
LayerOf(pts) == 1 + (H(pts) % 2)
PurpOf(pts) == IF (H(pts) \div 2) % 2 = 0 THEN "Drawing" ELSE "Pin"

OneShape ==
     { Lib("Nano", << Cell("c", <<>>, << E(LayerOf(p), PurpOf(p), "polygon", p, 0, n) >>) >>) : p \in PolyVariants, n \in {"", "Net1"} }
  \cup { Lib("Nano", << Cell("c", <<>>, << E(LayerOf(p), PurpOf(p), "rect", p, 0, n) >>) >>) : p \in RectVariants, n \in {"", "a", "VDD", "MiXed"} }
  \cup { Lib("Nano", << Cell("c", <<>>, << E(LayerOf(p), PurpOf(p), "path", p, w, n) >>) >>) : p \in PathVariants, w \in {0, 1, 2, 7}, n \in {"", "pn"} }
UnitsCases == { Lib(u, << Cell("c", <<>>, << E(1, "Drawing", "rect", << <<0,0>>, <<4,2>> >>, 0, "n") >>) >>) : u \in {"Micro", "Nano", "Angstrom", "Pico"} }
Multi == { Lib("Nano", << Cell("c", <<>>, << E(1, "Drawing", "rect", << <<0,0>>, <<4,2>> >>, 0, "vdd"),
                                            E(1, "Drawing", "polygon", [i \in 1..8 |-> <<Polys.U[i][1] + 50, Polys.U[i][2] + 50>>], 0, ""),
                                            E(1, "Pin", "rect", << <<20,0>>, <<24,2>> >>, 0, "VSS"),
                                            E(2, "Drawing", "rect", << <<0,0>>, <<4,2>> >>, 0, "other"),
                                            E(2, "Pin", "path", << <<30,30>>, <<40,30>> >>, 2, "") >>) >>) }
     \cup { Lib("Nano", << Cell("c", <<>>, << E(1, "Drawing", "polygon", [i \in 1..8 |-> <<Polys.U[i][1] + 100, Polys.U[i][2]>>], 0, "u1"),
                                            E(1, "Drawing", "rect", << <<103,3>>, <<107,9>> >>, 0, "inner") >>) >>) }
Orient == BOOLEAN \X {-1, 0, 90, 180, 270}      \* -1: no angle given (None)
LeafC == Cell("leaf", <<>>, << E(1, "Drawing", "rect", << <<1,2>>, <<4,3>> >>, 0, "x"), E(2, "Drawing", "path", << <<0,0>>, <<5,0>>, <<5,4>> >>, 2, "") >>)
Hier == { Lib("Nano", << LeafC, Cell("mid", << I("leaf", <<3, 11>>, o2[1], o2[2]) >>, << E(1, "Pin", "rect", << <<0,0>>, <<2,2>> >>, 0, "") >>),
                         Cell("top", << I("mid", <<-7, 5>>, o1[1], o1[2]), I("leaf", <<40, 40>>, o2[1], o1[2]) >>, <<>>) >>)
            : o1 \in Orient, o2 \in Orient }
     \cup { Lib("Nano", << Cell("top", << I("leaf", <<0, 0>>, FALSE, 0) >>, <<>>), LeafC >>) }    \* user listed before its dependency

\* wide fan-out: a parent listed first (and in the middle) instantiating four otherwise unrelated cells
KidC(n, l) == Cell(n, <<>>, << E(l, "Drawing", "rect", << <<0,0>>, <<4,2>> >>, 0, "") >>)
FanTopC == Cell("fan_top", << I("kid_c", <<0, 0>>, FALSE, -1), I("kid_a", <<0, 20>>, TRUE, -1), I("kid_d", <<30, 0>>, TRUE, 90),
                             I("kid_b", <<60, 0>>, FALSE, 180) >>, <<>>)
Fanout == { Lib("Nano", << FanTopC, KidC("kid_a", 1), KidC("kid_b", 2), KidC("kid_c", 1), KidC("kid_d", 2) >>),
            Lib("Nano", << KidC("kid_d", 2), KidC("kid_b", 2), FanTopC, KidC("kid_a", 1), KidC("kid_c", 1) >>) }
\* names far longer than the format's traditional 32 characters, sharing a long common prefix (names are content)
LongP == "cell_with_a_long_hierarchical_name_of_more_than_thirtytwo_characters_"
LongNames == { Lib("Nano", << KidC(LongP \o "a", 1), KidC(LongP \o "b", 2),
                              Cell(LongP \o "top", << I(LongP \o "a", <<0, 0>>, FALSE, -1), I(LongP \o "b", <<0, 20>>, TRUE, 90) >>, <<>>) >>) }
\* the far end of the coordinate range (GDSII coordinates are 32-bit): triangles whose hypotenuse passes within one unit of
\* area of the centre of their bounding box, convex quadrilaterals and rectangles, at 3 * 10^8 and 10^9; the cross products
\* that decide "the label lies inside" need 64 bits (RawGds.InsideShape switches to WideContains)
WideX == {300000001, 1000000001}
Wide == { Lib("Nano", << Cell("w", <<>>, << E(1, "Drawing", "polygon", pts, 0, "vdd") >>) >>) :
            pts \in UNION { { << <<0, 0>>, <<X, 0>>, <<X, X + 2>> >>, << <<X, X + 2>>, <<0, 0>>, <<X, 0>> >>, << <<0, 0>>, <<X, X + 2>>, <<X, 0>> >>,
                              << <<-X, -5>>, <<0, -5>>, <<0, X - 3>> >>, << <<0, 0>>, <<X + 2, X>>, <<0, X>> >>,
                              << <<0, 0>>, <<X, 1>>, <<X + 1, X>>, <<1, X - 1>> >> } : X \in WideX } }
   \cup { Lib("Nano", << Cell("w", <<>>, << E(2, "Pin", "rect", << <<-X, 3 - X>>, <<X, X>> >>, 0, "big") >>) >>) : X \in WideX }
\* Random libraries (NDeep of them, TLC's RandomElement, reproducible under -seed): four cells in a random listing order,
\* each with a random polygon / rectangle / path (disjoint by construction: separate layers or far apart), instances
\* of the cells below in random orientations (incl. "no angle"), random units
CONSTANT NDeep
PolySeq == LET RECURSIVE F(_) F(T) == IF T = {} THEN <<>> ELSE LET x == CHOOSE y \in T : TRUE IN <<x>> \o F(T \ {x}) IN F(PolyVariants)
RectSeq == LET RECURSIVE F(_) F(T) == IF T = {} THEN <<>> ELSE LET x == CHOOSE y \in T : TRUE IN <<x>> \o F(T \ {x}) IN F(RectVariants)
PathSeq == LET RECURSIVE F(_) F(T) == IF T = {} THEN <<>> ELSE LET x == CHOOSE y \in T : TRUE IN <<x>> \o F(T \ {x}) IN F(PathVariants)
Shift(p, dx) == [k \in 1..Len(p) |-> <<p[k][1] + dx, p[k][2]>>]
RandCell(n, kids) ==
  LET pg == PolySeq[RandomElement(1..Len(PolySeq))]  rc == RectSeq[RandomElement(1..Len(RectSeq))]  pa == PathSeq[RandomElement(1..Len(PathSeq))]
      w == RandomElement({0, 2, 7})
  IN Cell(n, [k \in 1..Len(kids) |-> LET o == RandomElement(Orient) IN I(kids[k], <<RandomElement(-20..20), RandomElement(-20..20)>>, o[1], o[2])],
          << E(1, "Drawing", "polygon", pg, 0, RandomElement({"", "n1", "VDD"})), E(2, "Drawing", "rect", rc, 0, RandomElement({"", "x"})),
             E(1, "Pin", "path", Shift(pa, 100), w, RandomElement({"", "pn"})), E(2, "Pin", "polygon", Shift(pg, 200), 0, "") >>)
Perms4 == { p \in [1..4 -> 1..4] : \A i, j \in 1..4 : p[i] = p[j] => i = j }
DeepRaw(i) == LET pm == RandomElement(Perms4)
                  cs == << RandCell("d_top", <<"d_mid", "d_low", "d_mid">>), RandCell("d_mid", <<"d_low", "d_leaf">>), RandCell("d_low", <<"d_leaf">>), RandCell("d_leaf", <<>>) >>
              IN Lib(RandomElement({"Micro", "Nano", "Angstrom"}), [k \in 1..4 |-> cs[pm[k]]])
DeepLibs == { DeepRaw(i) : i \in 1..NDeep }
Libs == OneShape \cup UnitsCases \cup Multi \cup Hier \cup Fanout \cup LongNames \cup Wide \cup DeepLibs
Init == c \in Libs
Next == UNCHANGED c
Spec == Init /\ [][Next]_c

\* does any lattice point lie in the closed shape?  (bounding box scan)
HasInsidePoint(e) ==
  LET o == IF e.k = "path" THEN e.pts ELSE Outline(e)
      xs == { o[i][1] : i \in 1..Len(o) }  ys == { o[i][2] : i \in 1..Len(o) }
      x0 == CHOOSE x \in xs : \A y \in xs : x <= y   x1 == CHOOSE x \in xs : \A y \in xs : x >= y
      y0 == CHOOSE x \in ys : \A y \in ys : x <= y   y1 == CHOOSE x \in ys : \A y \in ys : x >= y
  IN \E q \in (x0..x1) \X (y0..y1) : InsideShape(q, e)
\* every vertex of a shape is inside it, so a label location always exists
VerticesInside == \A ci \in 1..Len(c.cells) : \A ei \in 1..Len(c.cells[ci].elems) :
                    LET e == c.cells[ci].elems[ei] IN \A i \in 1..Len(e.pts) : e.k = "rect" \/ InsideShape(e.pts[i], e)
\* domain of C07: shapes on one layer NUMBER share no lattice point (labels are free-floating in GDSII)
BBoxPts(e) == LET o == IF e.k = "rect" THEN RectCorners(e.pts) ELSE e.pts
                  xs == { o[i][1] : i \in 1..Len(o) }  ys == { o[i][2] : i \in 1..Len(o) }
                  w == IF e.k = "path" THEN e.width ELSE 0
                  xlo == (CHOOSE x \in xs : \A y \in xs : x <= y) - w   xhi == (CHOOSE x \in xs : \A y \in xs : x >= y) + w
                  ylo == (CHOOSE x \in ys : \A y \in ys : x <= y) - w   yhi == (CHOOSE x \in ys : \A y \in ys : x >= y) + w
              IN (xlo..xhi) \X (ylo..yhi)
Disjoint == \A ci \in 1..Len(c.cells) : \A i, j \in 1..Len(c.cells[ci].elems) :
              LET a == c.cells[ci].elems[i]  b == c.cells[ci].elems[j] IN
              (i < j /\ a.layer = b.layer) => ~\E q \in BBoxPts(a) : InsideShape(q, a) /\ InsideShape(q, b)
ShapesSimple == \A ci \in 1..Len(c.cells) : \A ei \in 1..Len(c.cells[ci].elems) :
                  LET e == c.cells[ci].elems[ei] IN (e.k = "polygon" /\ ~IsWide(e.pts)) => IsSimple(e.pts)     \* the wide ones are triangles and convex quadrilaterals
Emit == PrintT(<<"CASE", ToJson([lib |-> c])>>)
=============================================================================
