------------------------------ MODULE MC_RawProto ------------------------------
(* Raw libraries for C14: cell DAGs in several listing orders, all shape kinds with and without nets on several   *)
(* (layer, purpose) pairs, instance reflection x right-angle rotation, annotations, abstracts with ports and        *)
(* blockages, the three units of the schema (and Pico, outside it).  Emits the library and the message the          *)
(* relation RawProto assigns to it.                                                                                 *)
EXTENDS RawProto, TLC, Json

VARIABLE c
E(l, p, k, pts, w, net) == [layer |-> l, purpose |-> p, k |-> k, pts |-> pts, width |-> w, net |-> net]
I(n, cn, loc, r, a) == [name |-> n, cell |-> cn, loc |-> loc, refl |-> r, angle |-> a]
Cell(n, insts, elems, annots) == [name |-> n, has_layout |-> TRUE, insts |-> insts, elems |-> elems, annots |-> annots, abs |-> <<>>]
AbsCell(n, a) == [name |-> n, has_layout |-> FALSE, insts |-> <<>>, elems |-> <<>>, annots |-> <<>>, abs |-> <<a>>]
Lib(u, cells) == [name |-> "protolib", units |-> u, cells |-> cells]
R1 == << <<0, 0>>, <<4, 2>> >>   R2 == << <<9, 7>>, <<3, -1>> >>
Pg == << <<0, 0>>, <<4, 0>>, <<4, 1>>, <<1, 1>>, <<1, 3>>, <<0, 3>> >>
Pa == << <<0, 0>>, <<5, 0>>, <<5, 4>> >>
Leaf == Cell("leaf", <<>>, << E(1, "Drawing", "rect", R1, 0, "a"), E(2, "Pin", "polygon", Pg, 0, ""), E(1, "Drawing", "path", Pa, 2, "n2"),
                              E(1, "Pin", "rect", R2, 0, ""), E(2, "Pin", "path", Pa, 0, ""), E(1, "Drawing", "polygon", Pg, 0, "pnet") >>,
             << [str |-> "note", at |-> <<3, 4>>] >>)
Orient == BOOLEAN \X {-1, 0, 90, 180, 270}
Perm(s, p) == [i \in 1..Len(p) |-> s[p[i]]]
Perms3 == { <<1, 2, 3>>, <<1, 3, 2>>, <<2, 1, 3>>, <<2, 3, 1>>, <<3, 1, 2>>, <<3, 2, 1>> }

InstCases == { Lib("Nano", << Cell("top", << I("i0", "leaf", <<-7, 5>>, o[1], o[2]) >>, <<>>, <<>>), Leaf >>) : o \in Orient }
Dags == { Lib("Nano", Perm(<< Cell("top", << I("a", "mid", <<1, 2>>, FALSE, 90), I("b", "leaf", <<3, 4>>, TRUE, -1), I("c", "mid", <<5, 6>>, TRUE, 270) >>,
                                        << E(2, "Drawing", "rect", R1, 0, "") >>, <<>>),
                                   Cell("mid", << I("x", "leaf", <<0, 0>>, FALSE, 180) >>, <<>>, << [str |-> "m", at |-> <<0, 0>>] >>), Leaf >>, p)) : p \in Perms3 }
    \* diamonds: the shared cell is reachable by paths of different length; both instance orders, every listing order
    \cup { Lib("Nano", Perm(<< Cell("top", Perm(<< I("a", "mid", <<1, 2>>, FALSE, -1), I("b", "leaf", <<3, 4>>, FALSE, -1) >>, q), <<>>, <<>>),
                              Cell("mid", << I("x", "leaf", <<0, 0>>, FALSE, -1) >>, <<>>, <<>>), Leaf >>, p))
             : p \in Perms3, q \in { <<1, 2>>, <<2, 1>> } }
    \* fan-out: a parent listed first / in the middle with four otherwise unrelated children
    \cup { Lib("Nano", Perm(<< Cell("fan", << I("c", "k3", <<0, 0>>, FALSE, -1), I("a", "k1", <<5, 0>>, FALSE, -1), I("d", "k4", <<9, 0>>, TRUE, 90),
                                              I("b", "k2", <<0, 7>>, FALSE, -1), I("c2", "k3", <<0, 9>>, FALSE, -1) >>, <<>>, <<>>),
                              Cell("k1", <<>>, << E(1, "Drawing", "rect", R1, 0, "") >>, <<>>), Cell("k2", <<>>, << E(2, "Drawing", "rect", R1, 0, "") >>, <<>>),
                              Cell("k3", <<>>, << E(1, "Pin", "rect", R1, 0, "") >>, <<>>), Cell("k4", <<>>, << E(2, "Pin", "rect", R1, 0, "") >>, <<>>) >>, p))
             : p \in { <<1, 2, 3, 4, 5>>, <<5, 3, 1, 2, 4>>, <<2, 3, 4, 5, 1>> } }
    \cup { Lib("Micro", << Cell("d", << I("i", "c", <<0, 0>>, FALSE, -1) >>, <<>>, <<>>), Cell("c", << I("i", "b", <<0, 0>>, FALSE, -1) >>, <<>>, <<>>),
                          Cell("b", << I("i", "a", <<0, 0>>, FALSE, -1) >>, <<>>, <<>>), Cell("a", <<>>, << E(1, "Drawing", "rect", R1, 0, "") >>, <<>>) >>) }
\* vocabulary: the schema has a separate place for a library's name (the domain); a cell NAME that happens to start with the
\* library's name and a dot, or that looks like a path, is a name like any other (and a different cell from its suffix)
LeafQ == [Leaf EXCEPT !.name = "protolib.leaf"]
Qualified == { Lib("Nano", Perm(<< Cell("top", << I("a", "protolib.leaf", <<1, 2>>, FALSE, -1), I("b", "leaf", <<3, 4>>, TRUE, 90) >>, <<>>, <<>>),
                                  LeafQ, Cell("leaf", <<>>, << E(2, "Pin", "rect", R1, 0, "") >>, <<>>) >>, p)) : p \in Perms3 }
        \cup { Lib("Nano", << [Leaf EXCEPT !.name = "protolib.only"], Cell("protolib.top", << I("a", "protolib.only", <<0, 0>>, FALSE, -1) >>, <<>>, <<>>) >>),
               Lib("Nano", << [Leaf EXCEPT !.name = "lib/sub.cell"], Cell("t", << I("a", "lib/sub.cell", <<0, 0>>, FALSE, -1) >>, <<>>, <<>>) >>) }
\* views named differently from their cells: an unrelated name, and the name of ANOTHER cell of the library
WithL(cl, ln) == [k \in (DOMAIN cl) \cup {"lname"} |-> IF k = "lname" THEN ln ELSE cl[k]]
ViewNames == { Lib("Nano", Perm(<< WithL(Cell("top", << I("a", "mid", <<1, 2>>, FALSE, 90), I("b", "leaf", <<3, 4>>, TRUE, -1) >>, <<>>, <<>>), "leaf"),
                                  WithL(Cell("mid", << I("x", "leaf", <<0, 0>>, FALSE, 180) >>, <<>>, <<>>), "mid_layout_v2"), WithL(Leaf, "top") >>, p)) : p \in Perms3 }
ShapeCases == { Lib(u, << Cell("s", <<>>, es, <<>>) >>) : u \in {"Micro", "Nano", "Angstrom"},
                  es \in { <<>>, << E(1, "Drawing", "rect", R2, 0, "") >>, << E(2, "Pin", "polygon", Pg, 0, "N") >>,
                           << E(1, "Pin", "path", Pa, 7, "p") >>,
                           \* point lists that end where they start (a polygon closed explicitly, a ring drawn as one path),
                           \* a triangle, a two-point path: every point is content
                           << E(1, "Drawing", "polygon", << <<0, 0>>, <<10, 0>>, <<10, 10>>, <<0, 0>> >>, 0, "closed"),
                              E(2, "Drawing", "path", << <<0, 0>>, <<9, 0>>, <<9, 9>>, <<0, 9>>, <<0, 0>> >>, 2, "ring"),
                              E(2, "Pin", "polygon", << <<0, 0>>, <<7, 0>>, <<0, 5>> >>, 0, ""), E(1, "Pin", "path", << <<3, 3>>, <<3, 8>> >>, 0, "") >>,
                           \* a point repeated in place (a zero-length edge): still a point of the list
                           << E(1, "Drawing", "polygon", << <<0, 0>>, <<10, 0>>, <<10, 10>>, <<10, 10>>, <<0, 10>> >>, 0, "dup"),
                              E(2, "Drawing", "path", << <<0, 0>>, <<100, 0>>, <<100, 0>>, <<100, 50>> >>, 10, "clk") >>,
                           << E(1, "Drawing", "rect", R1, 0, "a"), E(2, "Drawing", "rect", R1, 0, "b"), E(1, "Drawing", "rect", R2, 0, "c"),
                              E(1, "Pin", "path", Pa, 1, ""), E(2, "Drawing", "polygon", Pg, 0, "") >> } }
LS(l, shapes) == [layer |-> l, shapes |-> shapes]
Sh(k, pts, w) == [k |-> k, pts |-> pts, width |-> w, net |-> ""]
Outl == << <<0, 0>>, <<10, 0>>, <<10, 8>>, <<0, 8>> >>
AbsCases == { Lib("Nano", << AbsCell("ab", [outline |-> Outl, ports |-> ps, blockages |-> bs]) >>)
                : ps \in { <<>>, << [net |-> "A", shapes |-> << LS(1, << Sh("rect", R1, 0) >>) >>] >>,
                           << [net |-> "A", shapes |-> << LS(1, << Sh("rect", R1, 0), Sh("polygon", Pg, 0) >>), LS(2, << Sh("path", Pa, 2) >>) >>],
                              [net |-> "vdd", shapes |-> <<>>] >> },
                  bs \in { <<>>, << LS(1, << Sh("rect", R2, 0) >>) >>,
                           << LS(1, << Sh("rect", R2, 0) >>), LS(2, << Sh("polygon", Pg, 0) >>), LS(3, << Sh("rect", R1, 0), Sh("rect", R2, 0) >>) >> } }
        \cup { Lib("Nano", << [AbsCell("both", [outline |-> Outl, ports |-> <<>>, blockages |-> <<>>]) EXCEPT !.has_layout = TRUE,
                                 !.elems = << E(1, "Drawing", "rect", R1, 0, "") >>] >>) }
PicoCase == { Lib("Pico", << Cell("s", <<>>, <<>>, <<>>) >>) }

\* Random libraries (NRand of them; TLC's RandomElement, reproducible under -seed): five cells in a random listing order,
\* random instance lists over the cells below (repeats allowed), random shapes / nets / layers / purposes, an abstract
\* on some cells, annotations
CONSTANT NRand
Perms5 == { p \in [1..5 -> 1..5] : \A i, j \in 1..5 : p[i] = p[j] => i = j }
Names5 == << "r_top", "r_a", "r_b", "r_c", "r_leaf" >>
RandShape(i) == LET k == RandomElement({"rect", "polygon", "path"}) IN
                E(RandomElement({1, 2}), RandomElement({"Drawing", "Pin"}), k,
                  IF k = "rect" THEN RandomElement({R1, R2}) ELSE IF k = "polygon" THEN RandomElement({Pg, << <<0, 0>>, <<7, 0>>, <<0, 5>> >>}) ELSE RandomElement({Pa, << <<3, 3>>, <<3, 8>> >>}),
                  IF k = "path" THEN RandomElement({0, 1, 7}) ELSE 0, RandomElement({"", "n", "VDD"}))
RandInsts(below) == [k \in 1..RandomElement(0..3) |-> LET o == RandomElement(Orient) IN
                       I("i" \o ToString(k), below[RandomElement(1..Len(below))], <<RandomElement(-9..9), RandomElement(-9..9)>>, o[1], o[2])]
RandCellP(n, below) ==
  LET base == Cell(n, IF below = <<>> THEN <<>> ELSE RandInsts(below), [k \in 1..RandomElement(0..3) |-> RandShape(k)],
                   IF RandomElement(BOOLEAN) THEN << [str |-> "t", at |-> <<RandomElement(0..5), 2>>] >> ELSE <<>>)
  IN IF RandomElement(1..4) = 1
     THEN [base EXCEPT !.abs = << [outline |-> Outl, ports |-> << [net |-> "A", shapes |-> << LS(RandomElement({1, 2}), << Sh("rect", R1, 0) >>) >>] >>,
                                  blockages |-> << LS(3, << Sh("rect", R2, 0) >>) >>] >>]
     ELSE base
RandLib(i) == LET cs == << RandCellP("r_top", <<"r_a", "r_b", "r_c", "r_leaf">>), RandCellP("r_a", <<"r_b", "r_c", "r_leaf">>), RandCellP("r_b", <<"r_c", "r_leaf">>),
                          RandCellP("r_c", <<"r_leaf">>), RandCellP("r_leaf", <<>>) >>
                  pm == RandomElement(Perms5)
              IN Lib(RandomElement({"Micro", "Nano", "Angstrom"}), [k \in 1..5 |-> cs[pm[k]]])
RandLibs == { RandLib(i) : i \in 1..NRand }
Libs == InstCases \cup Dags \cup Qualified \cup ViewNames \cup ShapeCases \cup AbsCases \cup PicoCase \cup RandLibs
Init == c \in Libs
Next == UNCHANGED c
Spec == Init /\ [][Next]_c

OrderIsValid == ExportOrderOK(c.cells, ExportOrder(c.cells))
Emit == PrintT(<<"CASE", ToJson([lib |-> c, proto |-> ToProto(c), deps |-> DepsOf(c.cells), in_schema |-> c.units # "Pico"])>>)
=============================================================================
