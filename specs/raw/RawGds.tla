------------------------------ MODULE RawGds ------------------------------
(***************************************************************************)
(* raw layout -> GDSII (C07): what the exporter owes for each cell, stated   *)
(* over abstract values.                                                     *)
(*   raw cell  [name, insts, elems]                                          *)
(*     inst    [cell, loc, refl, angle]          angle in {0, 90, 180, 270}  *)
(*     elem    [layer, purpose, label, k, pts, width, net]                   *)
(*             layer/purpose = the GDS numbers assigned by the Layers table, *)
(*             label = number of that layer's Label purpose, net "" = none,  *)
(*             k in {"rect", "polygon", "path"}; rect pts = two corners      *)
(*   gds elem  [k, layer, dt, pts, width, name, at, refl, angle, str]        *)
(* Obligations:                                                              *)
(*   - one SREF per instance: target name, location, reflection, angle       *)
(*   - one BOUNDARY per rectangle / polygon, CLOSED (first point repeated),   *)
(*     one PATH per path, OPEN (points as given) with its width;             *)
(*     on (layer number, purpose number)                                     *)
(*   - for every shape with a net one TEXT carrying the net on (layer,       *)
(*     Label purpose) at a point INSIDE that shape (closed region)           *)
(*   - nothing else                                                          *)
(***************************************************************************)
EXTENDS WideContains      \* Contains + the same predicates over the whole 32-bit coordinate range

RectCorners(p) == << <<p[1][1], p[1][2]>>, <<p[2][1], p[1][2]>>, <<p[2][1], p[2][2]>>, <<p[1][1], p[2][2]>> >>
Outline(e) == IF e.k = "rect" THEN RectCorners(e.pts) ELSE e.pts
CyclicEq(a, b) ==      \* same closed polygon up to starting vertex (direction kept)
  /\ Len(a) = Len(b)
  /\ \E k \in 0..(Len(a) - 1) : \A i \in 1..Len(a) : a[i] = b[((i + k - 1) % Len(a)) + 1]
InsideShape(q, e) == IF e.k = "path" THEN PathMust(q, e.pts, e.width)
                     ELSE IF IsWide(Outline(e)) THEN WInside(q, Outline(e))      \* cross products beyond 32 bits: limb arithmetic
                     ELSE Inside(q, Outline(e))

\* does GDS element g realise raw element e ?
ShapeProblem(e, g) ==
  IF e.k = "path" THEN
       IF g.k # "path" THEN "path-not-exported-as-PATH"
       ELSE IF g.pts # e.pts THEN
            (IF Len(g.pts) = Len(e.pts) + 1 /\ g.pts[Len(g.pts)] = g.pts[1] THEN "prop:open-path-exported-closed" ELSE "path-points-differ")
       ELSE IF g.width # e.width THEN "prop:path-width-differs" ELSE ""
  ELSE IF g.k # "boundary" THEN "polygon-not-exported-as-BOUNDARY"
       ELSE IF Len(g.pts) < 2 \/ g.pts[1] # g.pts[Len(g.pts)] THEN "prop:boundary-not-closed"
       ELSE IF ~CyclicEq(SubSeq(g.pts, 1, Len(g.pts) - 1), Outline(e)) THEN "prop:polygon-points-differ"
       ELSE ""
LayerProblem(e, g) == IF g.layer # e.layer THEN "prop:wrong-layer-number"
                      ELSE IF g.dt # e.purpose THEN "prop:wrong-purpose-number" ELSE ""
LabelProblem(e, t) ==
  IF t.k # "text" THEN "prop:label-missing"
  ELSE IF t.str # e.net THEN "prop:label-string-differs"
  ELSE IF t.layer # e.layer \/ t.dt # e.label THEN "prop:label-on-wrong-layer-or-purpose"
  ELSE IF ~InsideShape(t.at, e) THEN "prop:label-outside-its-shape"
  ELSE ""
NormAngle(a) == IF a < 0 THEN 0 ELSE a % 360          \* -1 stands for "no angle given" = 0 degrees
InstProblem(i, g) ==
  IF g.k # "sref" THEN "instance-not-exported-as-SREF"
  ELSE IF g.name # i.cell THEN "prop:wrong-target-cell"
  ELSE IF g.at # i.loc THEN "prop:wrong-location"
  ELSE IF g.refl # i.refl THEN "prop:reflection-differs"
  ELSE IF NormAngle(g.angle) # NormAngle(i.angle) THEN "prop:angle-differs"
  ELSE ""

First(ps) == IF \E i \in 1..Len(ps) : ps[i] # "" THEN ps[CHOOSE i \in 1..Len(ps) : ps[i] # "" /\ \A j \in 1..(i-1) : ps[j] = ""] ELSE ""

\* positional reading of the exporter's element list: instances first, then each element followed by its label
RECURSIVE ElemProblems(_, _, _, _)
ElemProblems(es, gs, i, j) ==
  IF i > Len(es) THEN (IF j <= Len(gs) THEN "extra-gds-elements" ELSE "")
  ELSE IF j > Len(gs) THEN "prop:element-missing"
  ELSE LET e == es[i]
           p1 == First(<<ShapeProblem(e, gs[j]), LayerProblem(e, gs[j])>>) IN
       IF p1 # "" THEN p1
       ELSE IF e.net = "" THEN ElemProblems(es, gs, i + 1, j + 1)
       ELSE IF j + 1 > Len(gs) THEN "prop:label-missing"
       ELSE LET p2 == LabelProblem(e, gs[j + 1]) IN
            IF p2 # "" THEN p2 ELSE ElemProblems(es, gs, i + 1, j + 2)

ExportProblem(cell, gs) ==
  IF Len(gs) < Len(cell.insts) THEN "prop:instance-missing"
  ELSE LET ip == First([i \in 1..Len(cell.insts) |-> InstProblem(cell.insts[i], gs[i])]) IN
       IF ip # "" THEN ip ELSE ElemProblems(cell.elems, gs, 1, Len(cell.insts) + 1)
=============================================================================
