------------------------------ MODULE RawProto ------------------------------
(***************************************************************************)
(* raw layout <-> protobuf layout schema (vlsir.raw), C14: the field        *)
(* relation as a function on abstract values, and the ordering obligation.  *)
(*                                                                          *)
(*   Library   domain <-> name, units, cells                                *)
(*   Cell      name, layout?, abstract?                                     *)
(*   Layout    name, instances, annotations, shapes grouped per             *)
(*             (layer number, purpose number) in first-seen order; inside a *)
(*             group rectangles, polygons, paths each in element order      *)
(*   Instance  name, cell (local reference), origin_location, reflect_vert, *)
(*             rotation_clockwise_degrees <-> angle (None = 0)              *)
(*   Rectangle lower_left + width + height    Polygon vertices   Path       *)
(*             points + width; each with its net ("" = none)                *)
(*   Abstract  name, outline, ports (net, shapes per layer on the Pin       *)
(*             purpose), blockages per layer on the Obstruction purpose     *)
(* Exported cells are listed dependencies first (DepOrderProps).            *)
(***************************************************************************)
EXTENDS Integers, Sequences, FiniteSets, DepOrderProps

\* the layer table used by the generated libraries: layer number -> purpose name -> number
PurpNum(l, p) ==
  CASE p = "Drawing" -> 0
    [] l = 1 -> (CASE p = "Pin" -> 1 [] p = "Label" -> 2 [] p = "Obstruction" -> 3)
    [] l = 2 -> (CASE p = "Pin" -> 5 [] p = "Label" -> 7 [] p = "Obstruction" -> 9)
    [] l = 3 -> (CASE p = "Pin" -> 4 [] p = "Label" -> 6 [] p = "Obstruction" -> 8)
    [] l = 4 -> (CASE p = "Pin" -> 11 [] p = "Label" -> 12 [] p = "Obstruction" -> 13)

Min2(a, b) == IF a <= b THEN a ELSE b
Abs2(a) == IF a >= 0 THEN a ELSE -a
SelectSeq2(s, T(_)) == LET RECURSIVE F(_) F(i) == IF i > Len(s) THEN <<>> ELSE (IF T(s[i]) THEN <<s[i]>> ELSE <<>>) \o F(i + 1) IN F(1)
MapS(f(_), s) == [i \in 1..Len(s) |-> f(s[i])]

PRect(net, pts) == [net |-> net, ll |-> <<Min2(pts[1][1], pts[2][1]), Min2(pts[1][2], pts[2][2])>>,
                    w |-> Abs2(pts[1][1] - pts[2][1]), h |-> Abs2(pts[1][2] - pts[2][2])]
PPoly(net, pts) == [net |-> net, pts |-> pts]
PPath(net, pts, w) == [net |-> net, pts |-> pts, w |-> w]

\* shapes (records with k, pts, width, net) -> one LayerShapes message for key <<layer, purpose number>>
LayerShapes(key, shapes) ==
  [layer |-> key,
   rects |-> MapS(LAMBDA e : PRect(e.net, e.pts), SelectSeq2(shapes, LAMBDA e : e.k = "rect")),
   polys |-> MapS(LAMBDA e : PPoly(e.net, e.pts), SelectSeq2(shapes, LAMBDA e : e.k = "polygon")),
   paths |-> MapS(LAMBDA e : PPath(e.net, e.pts, e.width), SelectSeq2(shapes, LAMBDA e : e.k = "path"))]

KeyOf(e) == <<e.layer, PurpNum(e.layer, e.purpose)>>
\* distinct keys in first-seen order
RECURSIVE FirstSeen(_, _)
FirstSeen(es, seen) == IF es = <<>> THEN <<>>
                       ELSE IF KeyOf(Head(es)) \in seen THEN FirstSeen(Tail(es), seen)
                       ELSE <<KeyOf(Head(es))>> \o FirstSeen(Tail(es), seen \cup {KeyOf(Head(es))})
LayoutShapes(es) == MapS(LAMBDA key : LayerShapes(key, SelectSeq2(es, LAMBDA e : KeyOf(e) = key)), FirstSeen(es, {}))

PInst(i) == [name |-> i.name, cell |-> i.cell, loc |-> i.loc, refl |-> i.refl, rot |-> IF i.angle < 0 THEN 0 ELSE i.angle]
\* a view carries a name of its own (optional field "lname"; by default the cell's name); references go by the CELL's name
LName(c) == IF "lname" \in DOMAIN c THEN c.lname ELSE c.name
PLayout(c) == [name |-> LName(c), instances |-> MapS(PInst, c.insts), annotations |-> c.annots, shapes |-> LayoutShapes(c.elems)]
\* abstract: shapes per layer number; `byl` is a sequence of [layer, shapes] (order unspecified in the raw model: a map)
PAbsLayer(purpose, ls) == LayerShapes(<<ls.layer, PurpNum(ls.layer, purpose)>>, MapS(LAMBDA s : [s EXCEPT !.net = ""], ls.shapes))
PAbstract(c, a) == [name |-> LName(c), outline |-> PPoly("", a.outline),
                    ports |-> MapS(LAMBDA p : [net |-> p.net, shapes |-> MapS(LAMBDA ls : PAbsLayer("Pin", ls), p.shapes)], a.ports),
                    blockages |-> MapS(LAMBDA ls : PAbsLayer("Obstruction", ls), a.blockages)]
PCell(c) == [name |-> c.name, layout |-> IF c.has_layout THEN <<PLayout(c)>> ELSE <<>>,
             abs |-> IF c.abs = <<>> THEN <<>> ELSE <<PAbstract(c, c.abs[1])>>]

\* ---- ordering obligation: cell i -> indices of the cells it instantiates
Index(cells, n) == CHOOSE i \in 1..Len(cells) : cells[i].name = n
DepsOf(cells) == [i \in 1..Len(cells) |-> MapS(LAMBDA x : Index(cells, x.cell), cells[i].insts)]
\* any dependencies-first order of the library's cells is a correct export order
ExportOrderOK(cells, order) == ValidOrder(DepsOf(cells), [i \in 1..Len(cells) |-> i], order)
\* the order this model exports in (depth first, listing order) - one admissible choice
RECURSIVE Visit(_, _, _, _)
Visit(cells, n, done, fuel) ==     \* returns the sequence of newly finished indices
  IF n \in done \/ fuel = 0 THEN <<>>
  ELSE LET ds == DepsOf(cells)[n]
           RECURSIVE Each(_, _)
           Each(k, d) == IF k > Len(ds) THEN <<>>
                         ELSE LET v == Visit(cells, ds[k], d, fuel - 1) IN v \o Each(k + 1, d \cup Range(v))
           sub == Each(1, done)
       IN sub \o <<n>>
RECURSIVE OrderFrom(_, _, _)
OrderFrom(cells, i, done) == IF i > Len(cells) THEN <<>>
                             ELSE LET v == Visit(cells, i, done, Len(cells) + 1) IN v \o OrderFrom(cells, i + 1, done \cup Range(v))
ExportOrder(cells) == OrderFrom(cells, 1, {})

ToProto(lib) == [domain |-> lib.name, units |-> lib.units,
                 cells |-> MapS(LAMBDA i : PCell(lib.cells[i]), ExportOrder(lib.cells))]
=============================================================================
