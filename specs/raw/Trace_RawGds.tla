------------------------------ MODULE Trace_RawGds ------------------------------
(* I->S for C07: each line is one exported cell: the raw cell (abstract) and the GDS elements  *)
(* the crate produced for it; the verdict is RawGds!ExportProblem.                              *)
EXTENDS RawGds, TLC, Json, IOUtils
Rec == ndJsonDeserialize(IOEnv.TRACE)
VARIABLE l
TInit == l = 1
TNext == /\ l <= Len(Rec) /\ l' = l + 1
         /\ LET p == ExportProblem(Rec[l].cell, Rec[l].gds) IN
              p = "" \/ PrintT(<<"BAD", ToJson([id |-> Rec[l].id, reason |-> p])>>)
TSpec == TInit /\ [][TNext]_l
Accepted == \/ TLCGet("stats").diameter - 1 = Len(Rec)
            \/ PrintT(<<"INFO", "unconsumed", TLCGet("stats").diameter, Len(Rec)>>) /\ FALSE
=============================================================================
