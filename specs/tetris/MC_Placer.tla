------------------------------ MODULE MC_Placer ------------------------------
(* Placement programs for C09: every single relation (4 sides x 2 orthogonal alignments x 4 reflections of the placed   *)
(* x 4 of the reference x 3 separation kinds x 3 size pairs), chains and trees of three instances in every listing      *)
(* order over a covering set of relations, and cyclic programs.  TLC explores every placement order of each program.    *)
EXTENDS Placer, TLC, Json

CONSTANT Scope      \* "single" | "multi" | "arrays" | "random"
Sizes == [a |-> <<3, 2>>, b |-> <<5, 7>>, c |-> <<1, 4>>, s |-> <<2, 6>>]
\* the cells' outlines: two rectangles and two stepped (L-shaped) outlines; placement works on the BOUNDING BOX of an
\* outline, i.e. the largest x step by the largest y step (x steps are non-increasing, y steps non-decreasing)
Outlines == [a |-> [x |-> <<3>>, y |-> <<2>>], b |-> [x |-> <<5, 3>>, y |-> <<4, 7>>], c |-> [x |-> <<1>>, y |-> <<4>>], s |-> [x |-> <<2, 1>>, y |-> <<3, 6>>]]
MaxOf(q) == CHOOSE v \in { q[i] : i \in 1..Len(q) } : \A i \in 1..Len(q) : q[i] <= v
OutlinesMatchSizes == \A n \in DOMAIN Sizes : Sizes[n] = <<MaxOf(Outlines[n].x), MaxOf(Outlines[n].y)>>
Sides == {"Left", "Right", "Top", "Bottom"}
AlignsFor(side) == IF side \in {"Left", "Right"} THEN {"Top", "Bottom"} ELSE {"Left", "Right"}
\* (a separation in primitive pitches is any integer: a negative one makes the boxes overlap by that much)
Seps == { [k |-> "none"], [k |-> "pitches", n |-> 3], [k |-> "sizeof", cell |-> "s"], [k |-> "pitches", n |-> -2] }
Refl == BOOLEAN \X BOOLEAN
Abs(xy) == [k |-> "abs", xy |-> xy]
Rel(to, side, align, sep) == [k |-> "rel", to |-> to, side |-> side, align |-> align, sep |-> sep]
In(n, cell, r, place) == [name |-> n, cell |-> cell, rh |-> r[1], rv |-> r[2], place |-> place]
Perm(s, p) == [i \in 1..Len(p) |-> s[p[i]]]
Perms3 == { <<1, 2, 3>>, <<1, 3, 2>>, <<2, 1, 3>>, <<2, 3, 1>>, <<3, 1, 2>>, <<3, 2, 1>> }

Single == { [cells |-> Sizes, insts |-> Perm(<< In("r", cr, rr, Abs(<<10, -4>>)), In("p", cp, rp, Rel("r", side, al, sep)) >>, p)]
              : side \in Sides, al \in {"Top", "Bottom", "Left", "Right"}, sep \in Seps, rr \in Refl, rp \in Refl,
                cr \in {"a", "b"}, cp \in {"b", "c"}, p \in { <<1, 2>>, <<2, 1>> } }
SingleOK == { x \in Single : \A i \in 1..2 : x.insts[i].place.k = "abs" \/ Orthogonal(x.insts[i].place.side, x.insts[i].place.align) }

\* a covering set of relations for multi-instance programs
Cover == { <<"Right", "Bottom", [k |-> "none"]>>, <<"Left", "Top", [k |-> "pitches", n |-> 3]>>, <<"Top", "Left", [k |-> "sizeof", cell |-> "s"]>>,
           <<"Bottom", "Right", [k |-> "none"]>>, <<"Right", "Top", [k |-> "sizeof", cell |-> "s"]>>, <<"Top", "Right", [k |-> "pitches", n |-> 3]>> }
R(to, c) == Rel(to, c[1], c[2], c[3])
Chains == { [cells |-> Sizes, insts |-> Perm(<< In("x", "a", r1, Abs(<<0, 0>>)), In("y", "b", r2, R("x", c1)), In("z", "c", r1, R("y", c2)) >>, p)]
              : c1 \in Cover, c2 \in Cover, r1 \in {<<FALSE, FALSE>>, <<TRUE, FALSE>>}, r2 \in {<<FALSE, TRUE>>, <<TRUE, TRUE>>}, p \in Perms3 }
Trees == { [cells |-> Sizes, insts |-> Perm(<< In("x", "b", <<FALSE, TRUE>>, Abs(<<-5, 9>>)), In("y", "a", r2, R("x", c1)), In("z", "c", r2, R("x", c2)) >>, p)]
              : c1 \in Cover, c2 \in Cover, r2 \in Refl, p \in {<<1, 2, 3>>, <<3, 2, 1>>, <<2, 3, 1>>} }
Cycles == { [cells |-> Sizes, insts |-> << In("x", "a", <<FALSE, FALSE>>, R("x", c1)) >>] : c1 \in Cover }
     \cup { [cells |-> Sizes, insts |-> Perm(<< In("x", "a", <<FALSE, FALSE>>, R("y", c1)), In("y", "b", <<FALSE, FALSE>>, R("x", c1)), In("w", "c", <<FALSE, FALSE>>, Abs(<<1, 1>>)) >>, p)]
              : c1 \in Cover, p \in Perms3 }
     \cup { [cells |-> Sizes, insts |-> << In("x", "a", <<FALSE, FALSE>>, R("y", c1)), In("y", "b", <<TRUE, FALSE>>, R("z", c1)), In("z", "c", <<FALSE, TRUE>>, R("x", c1)) >>] : c1 \in Cover }
     \cup { [cells |-> Sizes, insts |-> << In("w", "c", <<FALSE, FALSE>>, Abs(<<1, 1>>)), In("v", "a", <<FALSE, FALSE>>, R("x", c1)), In("x", "a", <<FALSE, FALSE>>, R("y", c1)), In("y", "b", <<TRUE, FALSE>>, R("x", c1)) >>] : c1 \in Cover }

Arr(count, sep, inner, r, xy) == [name |-> "arr", cell |-> "a", count |-> count, sep |-> sep, inner |-> inner, rh |-> r[1], rv |-> r[2], xy |-> xy]
Arrays == { Arr(n, sp, inner, r, <<4, -6>>) : n \in 1..4, sp \in {<<3, 0>>, <<0, 2>>, <<5, 7>>}, r \in Refl,
                                              inner \in { <<>>, <<[count |-> 3, sep |-> <<0, 11>>]>>, <<[count |-> 2, sep |-> <<13, 1>>]>> } }
\* two array instances of ONE array definition (the harness shares the definition object between array instances with equal
\* cell / count / separation / inner array), reflected independently and located apart
Arr2(a, r, xy) == [a EXCEPT !.name = "arr2", !.rh = r[1], !.rv = r[2], !.xy = xy]
ArrayPrograms == { [cells |-> Sizes, insts |-> <<>>, arrays |-> <<a>>] : a \in Arrays }
            \cup { [cells |-> Sizes, insts |-> <<>>, arrays |-> <<a, Arr2(a, r, <<-20, 15>>)>>] : a \in { x \in Arrays : x.count \in {2, 3} }, r \in Refl }
\* Random programs (Scope "random", NRand of them; TLC's RandomElement, reproducible under -seed): five instances, each
\* placed absolutely or relative to a random EARLIER one by a random orthogonal relation, random reflections and cells,
\* listed in a random order; TLC explores every placement interleaving of each
CONSTANT NRand
Perms5 == { p \in [1..5 -> 1..5] : \A i, j \in 1..5 : p[i] = p[j] => i = j }
INames == << "i1", "i2", "i3", "i4", "i5" >>
RandRel(k) == LET side == RandomElement(Sides) IN Rel(INames[RandomElement(1..(k - 1))], side, RandomElement(AlignsFor(side)), RandomElement(Seps))
RandInst(k) == In(INames[k], RandomElement({"a", "b", "c", "s"}), RandomElement(Refl),
                  IF k = 1 \/ RandomElement(1..5) = 1 THEN Abs(<<RandomElement(-9..9), RandomElement(-9..9)>>) ELSE RandRel(k))
RandProgram(i) == [cells |-> Sizes, insts |-> Perm([k \in 1..5 |-> RandInst(k)], RandomElement(Perms5))]
RandPrograms == { RandProgram(i) : i \in 1..NRand }
WithNoArrays(P) == { [cells |-> x.cells, insts |-> x.insts, arrays |-> <<>>] : x \in P }
Programs == IF Scope = "single" THEN WithNoArrays(SingleOK) ELSE IF Scope = "arrays" THEN ArrayPrograms
            ELSE IF Scope = "random" THEN WithNoArrays(RandPrograms) ELSE WithNoArrays(Chains \cup Trees \cup Cycles)
Init == \E p \in Programs : PInitWith(p)
Spec == Init /\ [][PNext]_pvars

Emit == (order = <<>> /\ pstatus = "run") =>
          PrintT(<<"CASE", ToJson([cells |-> prog.cells, outlines |-> Outlines, insts |-> prog.insts, cyclic |-> HasCycle, arrays |-> prog.arrays,
                                   array_elems |-> [i \in 1..Len(prog.arrays) |-> ArrayElems(prog.arrays[i])],
                                   expect |-> IF HasCycle THEN <<>> ELSE [i \in 1..Len(prog.insts) |-> [name |-> prog.insts[i].name, xy |-> FinalLoc(prog.insts[i].name, Len(prog.insts))]]])>>)
=============================================================================
