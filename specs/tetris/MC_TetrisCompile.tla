------------------------------ MODULE MC_TetrisCompile ------------------------------
(* A family of layer stacks (H/V alternation starting with either, offsets, overlaps, rails, a repeated pattern, an    *)
(* asymmetric pattern, with and without every-other-period flipping) x outlines x one feature set per cell (nothing;  *)
(* a cut; an assignment; two cuts; two nets separated by a cut; an instance in each reflection), with the rectangles  *)
(* TetrisCompile says the cell compiles to - or the fact that only an error is correct.                               *)
EXTENDS TetrisCompile, TLC, Json

VARIABLE c
En(tt, w) == [tt |-> tt, w |-> w]
Lay(d, es, off, ov, fl) == [dir |-> d, entries |-> es, offset |-> off, overlap |-> ov, flip |-> fl, cutsize |-> 2]
PA(d, off) == Lay(d, <<En("sig", 2), En("gap", 2)>>, off, 0, FALSE)
PB(d, fl) == Lay(d, <<En("gnd", 4), En("gap", 1), En("sig", 2), En("gap", 2), En("sig", 2), En("gap", 1), En("pwr", 4)>>, -2, 4, fl)
PC(d, fl) == Lay(d, <<En("sig", 2), En("gap", 4), En("sig", 4), En("gap", 2)>>, 0, 0, fl)
PD(d) == Lay(d, <<En("gap", 2), En("sig", 2), En("gap", 2), En("sig", 2), En("gap", 2), En("sig", 2)>>, 0, 0, FALSE)
PE(d) == Lay(d, <<En("sig", 2), En("gap", 6)>>, 0, 0, FALSE)          \* pitch 8: does not divide 12
\* via layers are not square and differ from layer to layer (x and y sizes must not be interchangeable)
Stk(ms) == [px |-> 12, py |-> 24, metals |-> ms, vias |-> [i \in 1..Len(ms) |-> [sx |-> 2 * i, sy |-> (2 * i) + 2]]]
Stacks == { Stk(<<PA("H", 0)>>), Stk(<<PA("V", 2)>>), Stk(<<PB("H", TRUE)>>), Stk(<<PC("V", TRUE)>>), Stk(<<PE("H")>>),
            Stk(<<PA("H", 0), PA("V", 0)>>), Stk(<<PA("V", 2), PA("H", -2)>>), Stk(<<PB("H", TRUE), PA("V", 0)>>), Stk(<<PD("H"), PC("V", FALSE)>>),
            Stk(<<PC("H", TRUE), PA("V", 0)>>), Stk(<<PA("V", 0), PC("H", TRUE)>>), Stk(<<PC("H", FALSE), PD("V")>>), Stk(<<PB("H", FALSE), PD("V")>>),
            Stk(<<PA("H", 0), PA("V", 0), PD("H")>>), Stk(<<PB("V", TRUE), PA("H", 2), PC("V", TRUE)>>) }
Cell(nx, ny, m, cuts, as, is) == [nx |-> nx, ny |-> ny, metals |-> m, cuts |-> cuts, assigns |-> as, insts |-> is]
X(l, t, cl, ct) == [l |-> l, t |-> t, cl |-> cl, ct |-> ct]
A(n, l, t, cl, ct) == [net |-> n, l |-> l, t |-> t, cl |-> cl, ct |-> ct]
In(w, h, m, x, y, rh, rv) == [w |-> w, h |-> h, m |-> m, x |-> x, y |-> y, rh |-> rh, rv |-> rv]

NT(s, cel, l) == NPeriods(s, cel, s.metals[l + 1]) * NSig(s.metals[l + 1])
Few(n) == { t \in 0..(n - 1) : t \in {0, 1, 2, n - 1} }
Pairs(s) == { <<l, cl>> : l \in 0..(Len(s.metals) - 1), cl \in 0..(Len(s.metals) - 1) } 
Adj(s) == { p \in Pairs(s) : p[1] = p[2] + 1 \/ p[2] = p[1] + 1 }
AdjIn(s, b, both) == { q \in Adj(s) : q[1] < b.metals /\ (~both \/ q[2] < b.metals) }
Features(s, b) ==     \* b: bare cell (nx, ny, m)
  {<<>>} \cup
  UNION { { <<"cut", X(p[1], t, p[2], ct)>> : t \in Few(NT(s, b, p[1])), ct \in Few(NT(s, b, p[2])) } : p \in AdjIn(s, b, FALSE) } \cup
  UNION { { <<"assign", A("n1", p[1], t, p[2], ct)>> : t \in Few(NT(s, b, p[1])), ct \in Few(NT(s, b, p[2])) } : p \in AdjIn(s, b, TRUE) } \cup
  UNION { { <<"cut2", X(p[1], 0, p[2], 0), X(p[1], 0, p[2], ct)>> : ct \in Few(NT(s, b, p[2])) \ {0} } : p \in AdjIn(s, b, FALSE) } \cup
  \* one track of a middle layer cut at crossings with the layer below AND the layer above that carry the same track index
  { <<"cut2", X(l, t, l - 1, k), X(l, t, l + 1, k)>> : l \in { m \in 1..(b.metals - 2) : m + 1 < Len(s.metals) }, t \in {0, 1}, k \in {1, 2} } \cup
  { <<"sep", A("n1", p[1], 0, p[2], 0), X(p[1], 0, p[2], 1), A("n2", p[1], 0, p[2], 2)>> : p \in { q \in AdjIn(s, b, TRUE) : NT(s, b, q[2]) >= 3 } } \cup
  { <<"inst", In(1, 1, m, x, y, r[1], r[2])>> : m \in {1, Len(s.metals)}, x \in {0, 1}, y \in {0, 1, 2}, r \in BOOLEAN \X BOOLEAN }
Apply(b, f) == CASE f = <<>> -> b
                 [] f[1] = "cut" -> [b EXCEPT !.cuts = <<f[2]>>]
                 [] f[1] = "assign" -> [b EXCEPT !.assigns = <<f[2]>>]
                 [] f[1] = "cut2" -> [b EXCEPT !.cuts = <<f[2], f[3]>>]
                 [] f[1] = "sep" -> [b EXCEPT !.assigns = <<f[2], f[4]>>, !.cuts = <<f[3]>>]
                 [] f[1] = "inst" -> [b EXCEPT !.insts = <<f[2]>>]
Bare == { Cell(nx, ny, m, <<>>, <<>>, <<>>) : nx \in {1, 2}, ny \in {1, 2}, m \in 1..3 }
Cases == UNION { UNION { { [stack |-> s, cell |-> Apply(b, f)] : f \in IF \A l \in 1..b.metals : Fits(s, b, s.metals[l]) THEN Features(s, b) ELSE {<<>>} }
                         : b \in { x \in Bare : x.metals <= Len(s.metals) } } : s \in Stacks }
\* Random cells (NRand; TLC's RandomElement, reproducible under -seed): on a random multi-layer stack a cell of 2 x 2
\* pitches with a random mixture of up to three cuts, up to three assignments (nets n1..n3) and up to two instances,
\* all over random tracks of adjacent layers: the interactions (a cut next to an instance, two nets on one track,
\* a net under a blockage ...) decide between an error and a particular set of rectangles
CONSTANT NRand
StackSeq == LET RECURSIVE F(_) F(T) == IF T = {} THEN <<>> ELSE LET x == CHOOSE y \in T : TRUE IN <<x>> \o F(T \ {x}) IN F({ s \in Stacks : Len(s.metals) >= 2 })
RandCross(s, b, k) == LET prs == AdjIn(s, b, TRUE)
                          p == RandomElement(prs)
                      IN <<p[1], RandomElement(0..(NT(s, b, p[1]) - 1)), p[2], RandomElement(0..(NT(s, b, p[2]) - 1))>>
RandCase(i) ==
  LET s == StackSeq[RandomElement(1..Len(StackSeq))]
      b == Cell(2, 2, Len(s.metals), <<>>, <<>>, <<>>)
      fits == \A l \in 1..b.metals : Fits(s, b, s.metals[l])
      nets == << "n1", "n2", "n3" >>
  IN IF ~fits THEN [stack |-> s, cell |-> b]
     ELSE [stack |-> s,
           cell |-> [b EXCEPT
              !.cuts = [k \in 1..RandomElement(0..3) |-> LET x == RandCross(s, b, k) IN X(x[1], x[2], x[3], x[4])],
              !.assigns = [k \in 1..RandomElement(0..3) |-> LET x == RandCross(s, b, k + 10) IN A(nets[RandomElement(1..3)], x[1], x[2], x[3], x[4])],
              !.insts = [k \in 1..RandomElement(0..2) |-> In(1, 1, RandomElement(1..Len(s.metals)), RandomElement(0..2), RandomElement(0..2),
                                                            RandomElement(BOOLEAN), RandomElement(BOOLEAN))]]]
\* a LONG row: 17 instances side by side leave every lower-metal track with 35 segments; nets assigned in the gaps between
\* the 3rd / 4th and the 16th / 17th instance (whatever is done differently for tracks with many segments, the piece that
\* covers the crossing carries the net)
LongRow == { [stack |-> Stk(<<PA("H", 0), PA("V", 0)>>),
              cell |-> Cell(70, 1, 2, <<>>, << A("sig", 0, t, 1, ct) >>, [i \in 1..17 |-> In(2, 1, 1, 1 + (4 * (i - 1)), 0, FALSE, FALSE)])]
             : t \in {0, 2, 5}, ct \in {34, 35, 190} }
Init == c \in Cases \cup LongRow \cup { RandCase(i) : i \in 1..NRand }
Next == UNCHANGED c
Spec == Init /\ [][Next]_c

\* sanity: blocking per track is never coarser than blocking per period
WF(g) == WellFormed(c.stack, c.cell, g)
\* rectangles of one layer never overlap each other when the cell is well formed (same track: disjoint pieces; different tracks: disjoint across)
Emit == PrintT(<<"CASE", ToJson([stack |-> c.stack, cell |-> c.cell,
            wf_track |-> WF("track"), wf_period |-> WF("period"), net_conflict_only |-> NetConflictOnly(c.stack, c.cell),
            rects_track |-> IF WF("track") THEN Compile(c.stack, c.cell, "track") ELSE <<>>,
            rects_period |-> IF WF("period") THEN Compile(c.stack, c.cell, "period") ELSE <<>>])>>)
=============================================================================
