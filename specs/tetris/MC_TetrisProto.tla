------------------------------ MODULE MC_TetrisProto ------------------------------
(* Placed gridded-layout libraries for C19: cell DAGs in every listing order, stepped outlines, instances in    *)
(* all four reflection combinations, assignments and cuts; plus every single breakage of each exported message. *)
EXTENDS TetrisProto, TLC, Json
VARIABLE c
Outl(x, y) == [x |-> x, y |-> y]
I(n, cn, loc, rh, rv) == [name |-> n, cell |-> cn, loc |-> loc, rh |-> rh, rv |-> rv]
A(net, l, t, l2, t2) == [net |-> net, track |-> <<l, t>>, cross |-> <<l2, t2>>]
X(l, t, l2, t2) == [track |-> <<l, t>>, cross |-> <<l2, t2>>]
Cell(n, o, m, insts, as, cs) == [name |-> n, outline |-> o, metals |-> m, insts |-> insts, assigns |-> as, cuts |-> cs]
Leaf == Cell("leaf", Outl(<<2>>, <<1>>), 1, <<>>, << A("a", 0, 1, 1, 0) >>, << X(0, 0, 1, 1) >>)
Refl == BOOLEAN \X BOOLEAN
Perm(s, p) == [i \in 1..Len(p) |-> s[p[i]]]
Perms3 == { <<1, 2, 3>>, <<1, 3, 2>>, <<2, 1, 3>>, <<2, 3, 1>>, <<3, 1, 2>>, <<3, 2, 1>> }
Lib(cells) == [name |-> "tlib", cells |-> cells]
Libs ==
     { Lib(<< Cell("top", Outl(<<10>>, <<10>>), 2, << I("i0", "leaf", <<3, -4>>, r[1], r[2]) >>, <<>>, <<>>), Leaf >>) : r \in Refl }
  \cup { Lib(Perm(<< Cell("top", Outl(<<12, 8, 3>>, <<2, 5, 9>>), 3, << I("a", "mid", <<0, 0>>, FALSE, TRUE), I("b", "leaf", <<5, 5>>, TRUE, FALSE), I("c", "mid", <<6, 0>>, TRUE, TRUE) >>,
                            << A("vdd", 1, 0, 2, 3), A("x", 2, 1, 1, 2), A("x", 0, 5, 1, 0) >>, << X(1, 2, 2, 0), X(2, 2, 1, 7) >>),
                       Cell("mid", Outl(<<4, 4>>, <<1, 3>>), 2, << I("l", "leaf", <<1, 1>>, FALSE, FALSE) >>, <<>>, << X(0, 0, 1, 0) >>), Leaf >>, p)) : p \in Perms3 }
  \cup { Lib(<< Cell("e", Outl(<<1>>, <<1>>), 0, <<>>, <<>>, <<>>) >>), Lib(<<>>),
         Lib(<< Cell("d", Outl(<<9>>, <<9>>), 1, << I("i", "c", <<0, 0>>, FALSE, FALSE) >>, <<>>, <<>>), Cell("c", Outl(<<9>>, <<9>>), 1, << I("i", "b", <<0, 0>>, FALSE, FALSE) >>, <<>>, <<>>),
                Cell("b", Outl(<<9>>, <<9>>), 1, << I("i", "leaf", <<0, 0>>, FALSE, FALSE), I("j", "leaf", <<2, 0>>, FALSE, FALSE) >>, <<>>, <<>>), Leaf >>) }
\* cells with an abstract view only, instantiated by cells listed before and after them; outlines with equal consecutive
\* steps; crossings between non-adjacent layers and on one layer (content, whatever a later stage thinks of them)
WithView(cl) == [name |-> cl.name, outline |-> cl.outline, metals |-> cl.metals, insts |-> cl.insts, assigns |-> cl.assigns, cuts |-> cl.cuts, view |-> "layout"]
WithL(cl, ln) == [k \in (DOMAIN cl) \cup {"lname"} |-> IF k = "lname" THEN ln ELSE cl[k]]
MoreLibs ==
     { Lib(Perm(<< WithView(Cell("top", Outl(<<10>>, <<10>>), 2, << I("i0", "ableaf", <<3, 4>>, FALSE, FALSE), I("i1", "mid", <<0, 0>>, TRUE, FALSE) >>, <<>>, <<>>)),
                   WithView(Cell("mid", Outl(<<6>>, <<6>>), 2, << I("j", "ableaf", <<1, 1>>, FALSE, TRUE) >>, <<>>, <<>>)),
                   [WithView(Cell("ableaf", Outl(<<3, 2>>, <<1, 4>>), 2, <<>>, <<>>, <<>>)) EXCEPT !.view = "abs"] >>, p)) : p \in Perms3 }
  \* views named differently from their cells: unrelated names, and the NAME OF ANOTHER CELL of the library
  \cup { Lib(Perm(<< WithL(WithView(Cell("top", Outl(<<10>>, <<10>>), 2, << I("i0", "ableaf", <<3, 4>>, FALSE, FALSE), I("i1", "mid", <<0, 0>>, TRUE, FALSE) >>, <<>>, <<>>)), "top_layout_v2"),
                   WithL(WithView(Cell("mid", Outl(<<6>>, <<6>>), 2, << I("j", "ableaf", <<1, 1>>, FALSE, TRUE) >>, <<>>, <<>>)), "ableaf"),
                   WithL([WithView(Cell("ableaf", Outl(<<3, 2>>, <<1, 4>>), 2, <<>>, <<>>, <<>>)) EXCEPT !.view = "abs"], "top") >>, p)) : p \in Perms3 }
  \cup { Lib(<< Cell("steps", o, 1, <<>>, <<>>, <<>>) >>) : o \in { Outl(<<4, 2, 1>>, <<1, 3, 3>>), Outl(<<5, 5, 2>>, <<1, 2, 4>>), Outl(<<7, 7, 7>>, <<2, 2, 2>>),
                                                              Outl(<<0>>, <<0>>), Outl(<<9, 0>>, <<0, 9>>) } }
  \cup { Lib(<< Cell("far", Outl(<<9>>, <<9>>), 4, <<>>, << A("n", 1, 7, 3, 8), A("n", 0, 0, 0, 0), A("m", 3, 2, 0, 5) >>, << X(4, 9, 1, 2), X(2, 2, 2, 3) >>) >>) }
\* Random libraries (NRand; TLC's RandomElement, reproducible under -seed): five cells in a random listing order, random
\* instance lists over the cells below, random outlines, assignments and cuts; some leaves carry an abstract view only
CONSTANT NRand
OutlPool == { Outl(<<10>>, <<10>>), Outl(<<12, 8, 3>>, <<2, 5, 9>>), Outl(<<4, 4>>, <<1, 3>>), Outl(<<4, 2, 1>>, <<1, 3, 3>>), Outl(<<9, 0>>, <<0, 9>>), Outl(<<1>>, <<1>>) }
Perms5 == { p \in [1..5 -> 1..5] : \A i, j \in 1..5 : p[i] = p[j] => i = j }
RandInstsT(below) == [k \in 1..RandomElement(0..3) |->
                        I("i" \o ToString(k), below[RandomElement(1..Len(below))], <<RandomElement(-5..12), RandomElement(-5..12)>>, RandomElement(BOOLEAN), RandomElement(BOOLEAN))]
RandCross(z) == [k \in 1..RandomElement(0..3) |-> A(RandomElement({"a", "vdd", "x"}), RandomElement(0..3), RandomElement(0..9), RandomElement(0..3), RandomElement(0..9))]
RandCuts(z) == [k \in 1..RandomElement(0..3) |-> X(RandomElement(0..3), RandomElement(0..9), RandomElement(0..3), RandomElement(0..9))]
RandCellT(n, below) ==
  IF below = <<>> /\ RandomElement(BOOLEAN)
  THEN [WithView(Cell(n, RandomElement(OutlPool), RandomElement(0..4), <<>>, <<>>, <<>>)) EXCEPT !.view = "abs"]
  ELSE WithView(Cell(n, RandomElement(OutlPool), RandomElement(0..4), IF below = <<>> THEN <<>> ELSE RandInstsT(below), RandCross(n), RandCuts(n)))
RandLibT(i) == LET cs == << RandCellT("t_top", <<"t_a", "t_b", "t_c", "t_leaf">>), RandCellT("t_a", <<"t_b", "t_c", "t_leaf">>), RandCellT("t_b", <<"t_c", "t_leaf">>),
                           RandCellT("t_c", <<"t_leaf">>), RandCellT("t_leaf", <<>>) >>
                   pm == RandomElement(Perms5)
               IN Lib([k \in 1..5 |-> cs[pm[k]]])
Init == c \in Libs \cup MoreLibs \cup { RandLibT(i) : i \in 1..NRand }
Next == UNCHANGED c
Spec == Init /\ [][Next]_c
OrderIsValid == ExportOrderOK(c.cells, ExportOrder(c.cells))
OutlinesValid == \A i \in 1..Len(c.cells) : ValidOutline(c.cells[i].outline)
SetToSeq(Sx) == LET RECURSIVE F(_) F(T) == IF T = {} THEN <<>> ELSE LET x == CHOOSE y \in T : TRUE IN <<x>> \o F(T \ {x}) IN F(Sx)
Emit == PrintT(<<"CASE", ToJson([lib |-> c, proto |-> ToProto(c), deps |-> DepsOf(c.cells), breakages |-> SetToSeq(Breakages(ToProto(c)))])>>)
=============================================================================
