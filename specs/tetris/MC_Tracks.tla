------------------------------ MODULE MC_Tracks ------------------------------
(* Every sequence of up to MaxOps track operations over a set of coordinates that includes both ends, points just    *)
(* outside, and interior points; Tiling as invariant, the effect of every operation as action property; one JSON     *)
(* case per complete sequence with outcome and tiling after every operation, for replay into tracks::Track (S->I).   *)
EXTENDS Tracks, TLC, Json

CONSTANTS MaxOps, CoordSet, Kind
Coords == IF CoordSet = "full" THEN (-1)..(Span + 1) ELSE {-1, 0, 2, 3, 5, Span, Span + 1}
VARIABLE hist
Init == TInitKind(Kind) /\ hist = <<>>
Op(o) == /\ Len(hist) < MaxOps
         /\ CASE o.op = "cut" -> Cut(o.a, o.b) [] o.op = "block" -> Block(o.a, o.b) [] o.op = "setnet" -> SetNet(o.a, o.net)
         /\ hist' = Append(hist, [op |-> o, outcome |-> outcome', segs |-> segs'])
Ops == { [op |-> k, a |-> a, b |-> b, net |-> ""] : k \in {"cut", "block"}, a \in Coords, b \in Coords }
       \cup (IF Kind = "wire" THEN { [op |-> "setnet", a |-> a, b |-> 0, net |-> "n1"] : a \in Coords } ELSE {})
Next == \E o \in { x \in Ops : x.op = "setnet" \/ x.a < x.b } : Op(o)
Spec == Init /\ [][Next]_<<tvars, hist>>

\* action properties, evaluated on every transition
EffectOK == [][ /\ FailureIsNoop
                /\ hist' # hist => LET o == hist'[Len(hist')].op IN
                      (o.op \in {"cut", "block"} => CutEffect(o.a, o.b, o.op)) ]_<<tvars, hist>>
Emit == Len(hist) = MaxOps => PrintT(<<"CASE", ToJson([span |-> Span, kind |-> Kind, hist |-> hist])>>)
=============================================================================
