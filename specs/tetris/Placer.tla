------------------------------ MODULE Placer ------------------------------
(***************************************************************************)
(* Relative placement (C09).                                                *)
(*   cells    name -> <<width, height>> (primitive pitches)                  *)
(*   instance [name, cell, rh, rv, place]                                    *)
(*     place  [k |-> "abs", xy]  or                                          *)
(*            [k |-> "rel", to (instance name), side, align, sep]            *)
(*     sep    [k |-> "none"] | [k |-> "pitches", n] | [k |-> "sizeof", cell] *)
(* The bounding box of an instance at origin <<x, y>> is reflection-aware:   *)
(* reflected horizontally it extends from x - w to x, else from x to x + w;  *)
(* likewise vertically.                                                      *)
(*                                                                           *)
(* PROPERTY.  After placement every instance has an absolute origin such     *)
(* that its box TOUCHES the reference's box on `side` at distance `sep` and  *)
(* is FLUSH with it on `align`.  The origin is unique; it is defined below   *)
(* declaratively (Resolve, a CHOOSE over a window) and in closed form        *)
(* (ResolveCF); TLC checks that they agree.  The result does not depend on   *)
(* the order in which instances are placed (confluence) nor on the listing   *)
(* order; cyclic relations have no solution and must be reported.            *)
(***************************************************************************)
EXTENDS Integers, Sequences, FiniteSets, DepOrderProps

VARIABLES prog,                  \* the placement program: [cells: name -> <<w, h>>, insts: sequence of instances (listing order)]
          loc, order, pstatus   \* loc: name -> <<x,y>> or "none"; order: names in placement order
pvars == <<prog, loc, order, pstatus>>
Cells == prog.cells
Insts == prog.insts

Names == { Insts[i].name : i \in 1..Len(Insts) }
Inst(n) == Insts[CHOOSE i \in 1..Len(Insts) : Insts[i].name = n]
W(i) == Cells[i.cell][1]
H(i) == Cells[i.cell][2]
Box(i, xy) == [x0 |-> IF i.rh THEN xy[1] - W(i) ELSE xy[1], x1 |-> IF i.rh THEN xy[1] ELSE xy[1] + W(i),
               y0 |-> IF i.rv THEN xy[2] - H(i) ELSE xy[2], y1 |-> IF i.rv THEN xy[2] ELSE xy[2] + H(i)]

SepOf(i) == LET s == i.place.sep IN
            CASE s.k = "none" -> 0
              [] s.k = "pitches" -> s.n
              [] s.k = "sizeof" -> IF i.place.side \in {"Left", "Right"} THEN Cells[s.cell][1] ELSE Cells[s.cell][2]

Touches(b, r, side, sep) == CASE side = "Right"  -> b.x0 = r.x1 + sep
                              [] side = "Left"   -> b.x1 = r.x0 - sep
                              [] side = "Top"    -> b.y0 = r.y1 + sep
                              [] side = "Bottom" -> b.y1 = r.y0 - sep
Flush(b, r, align) == CASE align = "Bottom" -> b.y0 = r.y0
                        [] align = "Top"    -> b.y1 = r.y1
                        [] align = "Left"   -> b.x0 = r.x0
                        [] align = "Right"  -> b.x1 = r.x1
Orthogonal(side, align) == (side \in {"Left", "Right"}) = (align \in {"Top", "Bottom"})
Satisfies(i, xy, refbox) == Touches(Box(i, xy), refbox, i.place.side, SepOf(i)) /\ Flush(Box(i, xy), refbox, i.place.align)

\* declarative: the origin that satisfies the relation (searched in a window around the reference box)
Window(r, m) == ((r.x0 - m)..(r.x1 + m)) \X ((r.y0 - m)..(r.y1 + m))
Resolve(i, refbox, m) == CHOOSE xy \in Window(refbox, m) : Satisfies(i, xy, refbox)
Unique(i, refbox, m) == Cardinality({ xy \in Window(refbox, m) : Satisfies(i, xy, refbox) }) = 1
\* closed form
ResolveCF(i, r) ==
  LET sep == SepOf(i)
      sidec == CASE i.place.side = "Right"  -> (r.x1 + sep) + (IF i.rh THEN W(i) ELSE 0)
                 [] i.place.side = "Left"   -> (r.x0 - sep) - (IF i.rh THEN 0 ELSE W(i))
                 [] i.place.side = "Top"    -> (r.y1 + sep) + (IF i.rv THEN H(i) ELSE 0)
                 [] i.place.side = "Bottom" -> (r.y0 - sep) - (IF i.rv THEN 0 ELSE H(i))
      alignc == CASE i.place.align = "Bottom" -> r.y0 + (IF i.rv THEN H(i) ELSE 0)
                  [] i.place.align = "Top"    -> r.y1 - (IF i.rv THEN 0 ELSE H(i))
                  [] i.place.align = "Left"   -> r.x0 + (IF i.rh THEN W(i) ELSE 0)
                  [] i.place.align = "Right"  -> r.x1 - (IF i.rh THEN 0 ELSE W(i))
  IN IF i.place.side \in {"Left", "Right"} THEN <<sidec, alignc>> ELSE <<alignc, sidec>>

\* ---- the placement loop
IsRel(i) == i.place.k = "rel"
Ready(i) == IF IsRel(i) THEN loc[i.place.to] # <<>> ELSE TRUE
PInitWith(p) == prog = p /\ loc = [n \in Names |-> <<>>] /\ order = <<>> /\ pstatus = "run"
PlaceNext(n) == LET i == Inst(n) IN
  /\ pstatus = "run" /\ loc[n] = <<>> /\ Ready(i)
  /\ loc' = [loc EXCEPT ![n] = IF IsRel(i) THEN ResolveCF(i, Box(Inst(i.place.to), loc[i.place.to])) ELSE i.place.xy]
  /\ order' = Append(order, n)
  /\ UNCHANGED <<pstatus, prog>>
\* dependency graph of the relations, in the vocabulary of DepOrderProps (indices into Insts)
Idx(n) == CHOOSE k \in 1..Len(Insts) : Insts[k].name = n
RelDeps == [k \in 1..Len(Insts) |-> IF IsRel(Insts[k]) THEN <<Idx(Insts[k].place.to)>> ELSE <<>>]
HasCycle == Cyclic(RelDeps, [k \in 1..Len(Insts) |-> k])
Done == pstatus = "run" /\ \A n \in Names : loc[n] # <<>>
Finish == Done /\ pstatus' = "ok" /\ UNCHANGED <<loc, order, prog>>
Fail == pstatus = "run" /\ HasCycle /\ pstatus' = "err" /\ UNCHANGED <<loc, order, prog>>
PNext == (\E n \in Names : PlaceNext(n)) \/ Finish \/ Fail

\* ---- order-free definition of the final placement (for confluence)
RECURSIVE FinalLoc(_, _)
FinalLoc(n, fuel) == LET i == Inst(n) IN
  IF ~IsRel(i) THEN i.place.xy
  ELSE IF fuel = 0 THEN <<0, 0>>
  ELSE ResolveCF(i, Box(Inst(i.place.to), FinalLoc(i.place.to, fuel - 1)))

\* ---- invariants
Placed(n) == loc[n] # <<>>
RelationsHold == \A n \in Names : (Placed(n) /\ IsRel(Inst(n))) =>
                    Satisfies(Inst(n), loc[n], Box(Inst(Inst(n).place.to), loc[Inst(n).place.to]))
Confluent == pstatus = "ok" => \A n \in Names : loc[n] = FinalLoc(n, Len(Insts))
OkMeansAcyclic == pstatus = "ok" => ~HasCycle
ErrMeansCyclic == pstatus = "err" => HasCycle
\* a cyclic program can never finish: some instance stays unplaced
CycleBlocks == HasCycle => ~Done
\* the placement order is an admissible dependency order of the relation graph
OrderValid == pstatus = "ok" => ValidOrder(RelDeps, [k \in 1..Len(Insts) |-> k], [k \in 1..Len(order) |-> Idx(order[k])])
\* closed form = declarative definition, and the solution is unique
ClosedFormIsTheSolution == \A n \in Names : (Placed(n) /\ IsRel(Inst(n))) =>
    LET i == Inst(n)  rb == Box(Inst(i.place.to), loc[i.place.to])  m == W(i) + H(i) + SepOf(i) + 2 IN
    Orthogonal(i.place.side, i.place.align) => (Unique(i, rb, m) /\ Resolve(i, rb, m) = loc[n])

(***************************************************************************)
(* Arrays.  An array instance [name, cell, count, sep <<sx, sy>>, inner     *)
(* (<<>> or <<[count, sep]>> for an array of arrays), rh, rv, xy] expands   *)
(* to count (x inner count) instances: element k (inner element j) sits at  *)
(* the offset k*sep (+ j*inner.sep) from the array origin, mirrored on each *)
(* axis the array instance is reflected in, and carries the array's         *)
(* reflection flags.                                                        *)
(***************************************************************************)
ArrayElems(a) ==
  LET n2 == IF a.inner = <<>> THEN 1 ELSE a.inner[1].count
      s2 == IF a.inner = <<>> THEN <<0, 0>> ELSE a.inner[1].sep
      sx == IF a.rh THEN -1 ELSE 1   sy == IF a.rv THEN -1 ELSE 1
  IN [e \in 1..(a.count * n2) |->
        LET k == (e - 1) \div n2   j == (e - 1) % n2
            ox == (k * a.sep[1]) + (j * s2[1])   oy == (k * a.sep[2]) + (j * s2[2])
        IN [xy |-> <<a.xy[1] + (sx * ox), a.xy[2] + (sy * oy)>>, rh |-> a.rh, rv |-> a.rv, cell |-> a.cell]]
=============================================================================
