------------------------------ MODULE TetrisCompile ------------------------------
(***************************************************************************)
(* Compiling a gridded (track-based) cell to rectangles (C08, level 2).     *)
(*                                                                          *)
(* stack  [px, py, metals, vias]   px, py: primitive pitches (db units)     *)
(*   metal [dir "H"|"V", entries, offset, overlap, flip, cutsize]           *)
(*   entry [tt "sig"|"gap"|"pwr"|"gnd", w]        via [sx, sy]              *)
(* cell   [nx, ny (outline, primitive pitches), metals, cuts, assigns,      *)
(*         insts]                                                           *)
(*   cut    [l, t, cl, ct]       track t of layer l, at its crossing with   *)
(*   assign [net, l, t, cl, ct]  track ct of the adjacent layer cl          *)
(*   inst   [w, h, m, x, y, rh, rv]  outline, metal count, origin (pitches) *)
(*                                                                          *)
(* Layer L is periodic with pitch P = sum of entry widths - overlap in the  *)
(* direction across its tracks.  Period p holds the entries in order - in   *)
(* REVERSE order when flip and p is odd - starting at offset + p P.         *)
(* Signal track t is the (t mod n)-th signal entry, in ascending coordinate *)
(* order, of period t div n.  Along its direction every track spans         *)
(* [0, span].  A cut removes centre(cross) -/+ cutsize/2; an instance whose *)
(* cell uses more than L metals removes its (reflection-aware) extent along *)
(* the track from the tracks it overlaps.  The removed intervals must be    *)
(* disjoint and inside [0, span] - otherwise no tiling exists and an error  *)
(* is the only correct outcome.  The rest is wire: one rectangle per piece, *)
(* exactly as wide as the track, carrying the net assigned at a crossing it *)
(* contains (rails carry VDD / VSS).  Every assignment also yields one via  *)
(* rectangle of the via layer's size centred on the crossing.               *)
(***************************************************************************)
EXTENDS Integers, Sequences, FiniteSets

RECURSIVE SumW(_)
SumW(es) == IF es = <<>> THEN 0 ELSE Head(es).w + SumW(Tail(es))
Rev(s) == [i \in 1..Len(s) |-> s[Len(s) + 1 - i]]
Sel(s, T(_)) == LET RECURSIVE F(_) F(i) == IF i > Len(s) THEN <<>> ELSE (IF T(s[i]) THEN <<s[i]>> ELSE <<>>) \o F(i + 1) IN F(1)
MapQ(f(_), s) == [i \in 1..Len(s) |-> f(s[i])]
RECURSIVE CatQ(_)
CatQ(ss) == IF ss = <<>> THEN <<>> ELSE Head(ss) \o CatQ(Tail(ss))

Pitch(L) == SumW(L.entries) - L.overlap
PeriodEntries(L, p) == IF L.flip /\ p % 2 = 1 THEN Rev(L.entries) ELSE L.entries
\* entries of period p with their start coordinate
Placed(L, p) == LET es == PeriodEntries(L, p) IN
                [k \in 1..Len(es) |-> [tt |-> es[k].tt, w |-> es[k].w, start |-> L.offset + (p * Pitch(L)) + SumW(SubSeq(es, 1, k - 1))]]
Signals(L, p) == Sel(Placed(L, p), LAMBDA e : e.tt = "sig")
Rails(L, p) == Sel(Placed(L, p), LAMBDA e : e.tt \in {"pwr", "gnd"})
NSig(L) == Len(Sel(L.entries, LAMBDA e : e.tt = "sig"))
Track(L, t) == Signals(L, t \div NSig(L))[(t % NSig(L)) + 1]
Centre(L, t) == Track(L, t).start + (Track(L, t).w \div 2)

\* ---- the cell
XDb(stk, c) == c.nx * stk.px
YDb(stk, c) == c.ny * stk.py
SpanOf(stk, c, L) == IF L.dir = "H" THEN XDb(stk, c) ELSE YDb(stk, c)
BreadthOf(stk, c, L) == IF L.dir = "H" THEN YDb(stk, c) ELSE XDb(stk, c)
NPeriods(stk, c, L) == BreadthOf(stk, c, L) \div Pitch(L)
Fits(stk, c, L) == BreadthOf(stk, c, L) % Pitch(L) = 0

\* instance extent in db units: [lo, hi] along x and along y, reflection-aware
IX(stk, i) == IF i.rh THEN <<(i.x - i.w) * stk.px, i.x * stk.px>> ELSE <<i.x * stk.px, (i.x + i.w) * stk.px>>
IY(stk, i) == IF i.rv THEN <<(i.y - i.h) * stk.py, i.y * stk.py>> ELSE <<i.y * stk.py, (i.y + i.h) * stk.py>>
Along(stk, L, i) == IF L.dir = "H" THEN IX(stk, i) ELSE IY(stk, i)
Across(stk, L, i) == IF L.dir = "H" THEN IY(stk, i) ELSE IX(stk, i)
Overlaps(a, lo, hi) == a[2] > lo /\ a[1] < hi            \* open overlap: touching is not overlapping

\* ---- removed intervals of one track [kind "cut"|"block", lo, hi]
CutsOn(stk, c, li, t) ==
  MapQ(LAMBDA x : <<"cut", Centre(stk.metals[x.cl + 1], x.ct) - (stk.metals[li + 1].cutsize \div 2),
                           Centre(stk.metals[x.cl + 1], x.ct) + (stk.metals[li + 1].cutsize \div 2)>>,
       Sel(c.cuts, LAMBDA x : x.l = li /\ x.t = t))
\* granularity "track": the instance overlaps the track itself;  "period": it overlaps the track's period (what a
\* coarser implementation may block)
BlocksOn(stk, c, li, lo, hi) ==
  MapQ(LAMBDA i : <<"block", Along(stk, stk.metals[li + 1], i)[1], Along(stk, stk.metals[li + 1], i)[2]>>,
       Sel(c.insts, LAMBDA i : i.m > li /\ Overlaps(Across(stk, stk.metals[li + 1], i), lo, hi)))

\* sort intervals by lower end (insertion sort; the lists are short)
RECURSIVE SortIv(_)
SortIv(s) == IF Len(s) <= 1 THEN s
             ELSE LET m == CHOOSE i \in 1..Len(s) : \A j \in 1..Len(s) : s[i][2] <= s[j][2]
                  IN <<s[m]>> \o SortIv(SubSeq(s, 1, m - 1) \o SubSeq(s, m + 1, Len(s)))
Feasible(iv, span) == LET s == SortIv(iv) IN
                      /\ \A k \in 1..Len(s) : 0 <= s[k][2] /\ s[k][2] < s[k][3] /\ s[k][3] <= span
                      /\ \A k \in 1..(Len(s) - 1) : s[k][3] <= s[k + 1][2]
\* wire pieces = [0, span] minus the removed intervals (zero-length pieces dropped)
RECURSIVE PiecesFrom(_, _, _)
PiecesFrom(s, from, span) == IF s = <<>> THEN (IF from < span THEN <<<<from, span>>>> ELSE <<>>)
                             ELSE (IF from < Head(s)[2] THEN <<<<from, Head(s)[2]>>>> ELSE <<>>) \o PiecesFrom(Tail(s), Head(s)[3], span)
Pieces(iv, span) == PiecesFrom(SortIv(iv), 0, span)

\* ---- nets: the assignment points on one track: [at, net]
Bot(a) == IF a.l < a.cl THEN [l |-> a.l, t |-> a.t] ELSE [l |-> a.cl, t |-> a.ct]
Top(a) == IF a.l < a.cl THEN [l |-> a.cl, t |-> a.ct] ELSE [l |-> a.l, t |-> a.t]
PointsOn(stk, c, li, t) ==
  MapQ(LAMBDA a : [at |-> Centre(stk.metals[a.cl + 1], a.ct), net |-> a.net], Sel(c.assigns, LAMBDA a : a.l = li /\ a.t = t))
  \o MapQ(LAMBDA a : [at |-> Centre(stk.metals[a.l + 1], a.t), net |-> a.net], Sel(c.assigns, LAMBDA a : a.cl = li /\ a.ct = t))
NetOfPiece(pts, pc) == LET hit == { k \in 1..Len(pts) : pc[1] <= pts[k].at /\ pts[k].at <= pc[2] } IN
                       IF hit = {} THEN "" ELSE pts[CHOOSE k \in hit : TRUE].net
NetsConsistent(pts, pcs) == \A i \in 1..Len(pcs) : \A k1, k2 \in 1..Len(pts) :
     (pcs[i][1] <= pts[k1].at /\ pts[k1].at <= pcs[i][2] /\ pcs[i][1] <= pts[k2].at /\ pts[k2].at <= pcs[i][2]) => pts[k1].net = pts[k2].net
AssignedInWire(pts, pcs) == \A k \in 1..Len(pts) : \E i \in 1..Len(pcs) : pcs[i][1] <= pts[k].at /\ pts[k].at <= pcs[i][2]

RectOf(L, tr, pc) == IF L.dir = "H" THEN <<pc[1], tr.start, pc[2], tr.start + tr.w>> ELSE <<tr.start, pc[1], tr.start + tr.w, pc[2]>>

\* one layer: all rectangles [layer, rect, net] for blocking granularity g ("track" | "period")
TrackRects(stk, c, li, tr, iv, pts, net0) ==
  LET L == stk.metals[li + 1]  pcs == Pieces(iv, SpanOf(stk, c, L)) IN
  MapQ(LAMBDA pc : [layer |-> li, rect |-> RectOf(L, tr, pc), net |-> IF net0 # "" THEN net0 ELSE NetOfPiece(pts, pc)], pcs)
BlockWindow(L, p, tr, g) == IF g = "track" THEN <<tr.start, tr.start + tr.w>> ELSE <<p * Pitch(L), (p + 1) * Pitch(L)>>
LayerRects(stk, c, li, g) ==
  LET L == stk.metals[li + 1]  n == NSig(L) IN
  CatQ([pp \in 1..NPeriods(stk, c, L) |->
     LET p == pp - 1 IN
     CatQ(MapQ(LAMBDA r : TrackRects(stk, c, li, r, BlocksOn(stk, c, li, BlockWindow(L, p, r, g)[1], BlockWindow(L, p, r, g)[2]), <<>>,
                                     IF r.tt = "pwr" THEN "VDD" ELSE "VSS"), Rails(L, p)))
     \o CatQ([k \in 1..n |->
          LET t == (p * n) + (k - 1)  tr == Signals(L, p)[k]  w == BlockWindow(L, p, tr, g) IN
          TrackRects(stk, c, li, tr, CutsOn(stk, c, li, t) \o BlocksOn(stk, c, li, w[1], w[2]), PointsOn(stk, c, li, t), "")])])

ViaRects(stk, c) ==
  MapQ(LAMBDA a : LET b == Bot(a)  tp == Top(a)
                      Lb == stk.metals[b.l + 1]  Lt == stk.metals[tp.l + 1]
                      cx == IF Lb.dir = "V" THEN Centre(Lb, b.t) ELSE Centre(Lt, tp.t)
                      cy == IF Lb.dir = "H" THEN Centre(Lb, b.t) ELSE Centre(Lt, tp.t)
                      v == stk.vias[b.l + 1]
                  IN [layer |-> 100 + b.l, rect |-> <<cx - (v.sx \div 2), cy - (v.sy \div 2), cx + (v.sx \div 2), cy + (v.sy \div 2)>>, net |-> a.net],
       c.assigns)
Compile(stk, c, g) == CatQ([li1 \in 1..c.metals |-> LayerRects(stk, c, li1 - 1, g)]) \o ViaRects(stk, c)

\* ---- when is an error the only correct outcome?
\* `nets`: also require that no wire piece is given two different nets.  The property quantifies over cells whose
\* differing nets are separated by cuts; a cell that puts two nets on one piece is OUTSIDE that domain (InDomain below)
TrackOKn(stk, c, li, p, tr, t, g, nets) ==
  LET L == stk.metals[li + 1]  w == BlockWindow(L, p, tr, g)
      iv == (IF t >= 0 THEN CutsOn(stk, c, li, t) ELSE <<>>) \o BlocksOn(stk, c, li, w[1], w[2])
      pts == IF t >= 0 THEN PointsOn(stk, c, li, t) ELSE <<>>
      pcs == Pieces(iv, SpanOf(stk, c, L)) IN
  \* An assignment whose crossing lies in a removed span of this track (under an instance: the usual way to reach a pin on
  \* the instance's top layer from above; or inside a cut) has NO wire piece covering the crossing on this layer: the
  \* statement then asks nothing of this layer (the via is still due).  AssignedInWire is therefore not part of being
  \* well formed; an error is acceptable as always.
  Feasible(iv, SpanOf(stk, c, L)) /\ (nets => NetsConsistent(pts, pcs))
TrackOK(stk, c, li, p, tr, t, g) == TrackOKn(stk, c, li, p, tr, t, g, TRUE)
InRange(stk, c, l, t) == l >= 0 /\ l < c.metals /\ t >= 0 /\ t < NPeriods(stk, c, stk.metals[l + 1]) * NSig(stk.metals[l + 1])
RefsOK(stk, c) ==
  /\ \A k \in 1..Len(c.cuts) : InRange(stk, c, c.cuts[k].l, c.cuts[k].t) /\ c.cuts[k].cl >= 0 /\ c.cuts[k].cl < Len(stk.metals)
                               /\ stk.metals[c.cuts[k].l + 1].dir # stk.metals[c.cuts[k].cl + 1].dir
  /\ \A k \in 1..Len(c.assigns) : LET a == c.assigns[k] IN
        /\ InRange(stk, c, a.l, a.t) /\ InRange(stk, c, a.cl, a.ct) /\ (a.l = a.cl + 1 \/ a.cl = a.l + 1)
        /\ stk.metals[a.l + 1].dir # stk.metals[a.cl + 1].dir
WellFormedN(stk, c, g, nets) ==
  /\ \A li1 \in 1..c.metals : Fits(stk, c, stk.metals[li1])
  /\ RefsOK(stk, c)
  /\ \A li1 \in 1..c.metals : LET li == li1 - 1  L == stk.metals[li1] IN
       \A pp \in 1..NPeriods(stk, c, L) : LET p == pp - 1 IN
          /\ \A k \in 1..Len(Rails(L, p)) : TrackOKn(stk, c, li, p, Rails(L, p)[k], -1, g, nets)
          /\ \A k \in 1..NSig(L) : TrackOKn(stk, c, li, p, Signals(L, p)[k], (p * NSig(L)) + (k - 1), g, nets)
WellFormed(stk, c, g) == WellFormedN(stk, c, g, TRUE)
\* the only thing wrong with the cell is that one wire piece is given two different nets: outside the property's domain
\* ("differing nets separated by cuts"): no outcome is prescribed, only that the compiler does not crash
NetConflictOnly(stk, c) == ~WellFormed(stk, c, "track") /\ ~WellFormed(stk, c, "period")
                           /\ (WellFormedN(stk, c, "track", FALSE) \/ WellFormedN(stk, c, "period", FALSE))
=============================================================================
