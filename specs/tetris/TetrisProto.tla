------------------------------ MODULE TetrisProto ------------------------------
(***************************************************************************)
(* gridded-layout library <-> protobuf schema vlsir.tetris (C19).           *)
(*   Library  domain <-> name; cells listed dependencies first              *)
(*   Cell     name; layout: name, outline (x steps, y steps, metals),       *)
(*            instances (name, local cell reference, absolute location,     *)
(*            reflect_horiz, reflect_vert), assignments (net, at = track /  *)
(*            cross references), cuts (track / cross)                       *)
(* An outline is valid iff x and y have equal non-zero length, all values   *)
(* are >= 0, x is non-increasing and y non-decreasing.                      *)
(* Messages that must be rejected with an ERROR (never a crash): a          *)
(* reference to an undefined cell, a missing outline / location / place /   *)
(* cell reference / reference target / assignment location / track / cross, *)
(* a relative placement, an invalid outline.                                *)
(***************************************************************************)
EXTENDS Integers, Sequences, FiniteSets, DepOrderProps

MapS(f(_), s) == [i \in 1..Len(s) |-> f(s[i])]
ValidOutline(o) == /\ Len(o.x) >= 1 /\ Len(o.x) = Len(o.y)
                   /\ \A i \in 1..Len(o.x) : o.x[i] >= 0 /\ o.y[i] >= 0
                   /\ \A i \in 2..Len(o.x) : o.x[i] <= o.x[i - 1] /\ o.y[i] >= o.y[i - 1]

PCross(t) == [track |-> t.track, cross |-> t.cross]
PInst(i) == [name |-> i.name, cell |-> i.cell, loc |-> i.loc, rh |-> i.rh, rv |-> i.rv]
\* a view carries a name of its own (optional field "lname"; by default the cell's name): it travels with the view, the cell
\* keeps the cell's name, and references go by the cell's name
LName(c) == IF "lname" \in DOMAIN c THEN c.lname ELSE c.name
PLayout(c) == [name |-> LName(c), outline |-> [x |-> c.outline.x, y |-> c.outline.y, metals |-> c.metals],
               instances |-> MapS(PInst, c.insts),
               assignments |-> MapS(LAMBDA a : [net |-> a.net, at |-> PCross(a)], c.assigns),
               cuts |-> MapS(PCross, c.cuts)]
\* a cell may carry an ABSTRACT view only (view = "abs": name, outline, metal count; no instances): it is still a node of
\* the dependency graph, and must be exported before the cells that instantiate it
IsAbs(c) == "view" \in DOMAIN c /\ c.view = "abs"
PAbstract(c) == [name |-> LName(c), nports |-> 0, outline |-> [x |-> c.outline.x, y |-> c.outline.y, metals |-> c.metals]]
PCell(c) == IF IsAbs(c) THEN [name |-> c.name, layout |-> <<>>, abstract |-> <<PAbstract(c)>>]
            ELSE [name |-> c.name, layout |-> <<PLayout(c)>>, abstract |-> <<>>]

Index(cells, n) == CHOOSE i \in 1..Len(cells) : cells[i].name = n
DepsOf(cells) == [i \in 1..Len(cells) |-> MapS(LAMBDA x : Index(cells, x.cell), cells[i].insts)]
ExportOrderOK(cells, order) == ValidOrder(DepsOf(cells), [i \in 1..Len(cells) |-> i], order)
RECURSIVE Visit(_, _, _, _)
Visit(cells, n, done, fuel) ==
  IF n \in done \/ fuel = 0 THEN <<>>
  ELSE LET ds == DepsOf(cells)[n]
           RECURSIVE Each(_, _)
           Each(k, d) == IF k > Len(ds) THEN <<>>
                         ELSE LET v == Visit(cells, ds[k], d, fuel - 1) IN v \o Each(k + 1, d \cup Range(v))
       IN Each(1, done) \o <<n>>
RECURSIVE OrderFrom(_, _, _)
OrderFrom(cells, i, done) == IF i > Len(cells) THEN <<>>
                             ELSE LET v == Visit(cells, i, done, Len(cells) + 1) IN v \o OrderFrom(cells, i + 1, done \cup Range(v))
ExportOrder(cells) == OrderFrom(cells, 1, {})
ToProto(lib) == [domain |-> lib.name, cells |-> MapS(LAMBDA i : PCell(lib.cells[i]), ExportOrder(lib.cells))]

\* the ways to break a well-formed message: [what, cell index, element index]
Breakages(p) ==
  UNION { { [what |-> "no-outline", ci |-> ci, k |-> 0], [what |-> "outline-x-increasing", ci |-> ci, k |-> 0],
            [what |-> "outline-y-decreasing", ci |-> ci, k |-> 0], [what |-> "outline-lengths-differ", ci |-> ci, k |-> 0],
            [what |-> "outline-negative", ci |-> ci, k |-> 0], [what |-> "outline-empty", ci |-> ci, k |-> 0] }
          \cup { [what |-> w, ci |-> ci, k |-> k] : k \in 1..Len(p.cells[ci].layout[1].instances),
                   w \in {"no-loc", "no-place", "relative-place", "no-cell", "no-cell-target", "undefined-cell", "external-cell"} }
          \cup { [what |-> w, ci |-> ci, k |-> k] : k \in 1..Len(p.cells[ci].layout[1].assignments), w \in {"assign-no-at", "assign-no-track", "assign-no-cross"} }
          \cup { [what |-> w, ci |-> ci, k |-> k] : k \in 1..Len(p.cells[ci].layout[1].cuts), w \in {"cut-no-track", "cut-no-cross"} }
          : ci \in { k \in 1..Len(p.cells) : p.cells[k].layout # <<>> } }
=============================================================================
