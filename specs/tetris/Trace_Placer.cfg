SPECIFICATION TSpec
INVARIANTS RelationsHold
POSTCONDITION Accepted
CHECK_DEADLOCK FALSE
