------------------------------ MODULE Trace_Placer ------------------------------
(***************************************************************************)
(* I->S for C09.  After Placer::place the top layout lists its instances in *)
(* placement order; recorded as                                             *)
(*   [e |-> "prog", id, cells, insts]    the program                        *)
(*   [e |-> "placed", name, xy]          one per instance, in that order    *)
(*   [e |-> "end", status]               "ok" | "err"                       *)
(* Each "placed" must be the spec action PlaceNext(name) - enabled only if  *)
(* the reference was placed earlier - and must put the instance where the   *)
(* relation says.  TLC infers nothing else: the order is the code's own.    *)
(***************************************************************************)
EXTENDS Placer, TLC, Json, IOUtils
Rec == ndJsonDeserialize(IOEnv.TRACE)
VARIABLES l, bad, curid
tvars == <<pvars, l, bad, curid>>
IsEvent(e) == l <= Len(Rec) /\ Rec[l].e = e /\ l' = l + 1
Ev == Rec[l]
Report(r) == PrintT(<<"BAD", ToJson([id |-> curid, line |-> l, reason |-> r])>>)

TrProg == /\ IsEvent("prog")
          /\ prog' = [cells |-> Ev.cells, insts |-> Ev.insts, arrays |-> <<>>]
          /\ loc' = [n \in { Ev.insts[i].name : i \in 1..Len(Ev.insts) } |-> <<>>]
          /\ order' = <<>> /\ pstatus' = "run" /\ bad' = "" /\ curid' = Ev.id
TrPlaced == /\ IsEvent("placed")
            /\ IF bad # "" THEN UNCHANGED <<pvars, bad, curid>>
               ELSE IF Ev.name \notin Names THEN bad' = "unknown-instance" /\ Report("unknown-instance") /\ UNCHANGED <<pvars, curid>>
               ELSE IF loc[Ev.name] # <<>> THEN bad' = "placed-twice" /\ Report("prop:instance-placed-twice") /\ UNCHANGED <<pvars, curid>>
               ELSE IF ~Ready(Inst(Ev.name)) THEN bad' = "early" /\ Report("placed-before-its-reference") /\ UNCHANGED <<pvars, curid>>
               ELSE /\ PlaceNext(Ev.name)
                    /\ IF loc'[Ev.name] = Ev.xy THEN UNCHANGED bad ELSE bad' = "where" /\ Report("prop:not-where-the-relation-says")
                    /\ UNCHANGED curid
TrEnd == /\ IsEvent("end")
         /\ IF bad # "" THEN TRUE
            ELSE IF Ev.status = "ok" /\ HasCycle THEN Report("prop:cyclic-program-accepted")
            ELSE IF Ev.status = "ok" /\ ~Done THEN Report("prop:instance-left-unplaced")
            ELSE IF Ev.status = "err" /\ ~HasCycle THEN Report("prop:acyclic-program-rejected")
            ELSE TRUE
         /\ UNCHANGED <<pvars, bad, curid>>
TInit == l = 1 /\ PInitWith([cells |-> <<>>, insts |-> <<>>, arrays |-> <<>>]) /\ bad = "no-program" /\ curid = ""
TNext == TrProg \/ TrPlaced \/ TrEnd
TSpec == TInit /\ [][TNext]_tvars
Accepted == \/ TLCGet("stats").diameter - 1 = Len(Rec)
            \/ PrintT(<<"INFO", "unconsumed", TLCGet("stats").diameter, Len(Rec)>>) /\ FALSE
=============================================================================
