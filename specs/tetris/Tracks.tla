------------------------------ MODULE Tracks ------------------------------
(***************************************************************************)
(* One routing track of a gridded cell (C08, level 1): a sequence of        *)
(* segments [tp, start, stop, net] tiling [0, Span].                        *)
(*   tp: "wire" (net "" = unassigned), "rail", "cut", "block"               *)
(* Operations, as layout21tetris::tracks::Track offers them:                *)
(*   Cut(a, b) / Block(a, b)   succeed iff 0 <= a < b <= Span and [a, b]    *)
(*       lies inside ONE wire or rail segment; that segment is split into   *)
(*       (rest before) (new cut/block) (rest after); otherwise an error is  *)
(*       returned and the track is unchanged                                *)
(*   SetNet(at, net)           names the first segment containing `at`      *)
(*       (closed interval): a wire gets the net, a blockage silently keeps  *)
(*       none, a cut is a conflict error, no segment is out of bounds       *)
(* Invariant Tiling: segments are ordered, contiguous, start at 0, end at   *)
(* Span, and none is inverted.                                              *)
(***************************************************************************)
EXTENDS Integers, Sequences

CONSTANT Span
VARIABLES segs, outcome
tvars == <<segs, outcome>>

Seg(tp, a, b, net) == [tp |-> tp, start |-> a, stop |-> b, net |-> net]
TInitKind(kind) == segs = <<Seg(kind, 0, Span, "")>> /\ outcome = "init"

Tiling == /\ Len(segs) >= 1 /\ segs[1].start = 0 /\ segs[Len(segs)].stop = Span
          /\ \A i \in 1..Len(segs) : segs[i].start <= segs[i].stop
          /\ \A i \in 1..(Len(segs) - 1) : segs[i].stop = segs[i + 1].start

\* first segment that ends after a
FirstAfter(a) == CHOOSE i \in 1..Len(segs) : segs[i].stop > a /\ \A j \in 1..(i - 1) : segs[j].stop <= a
Splice(i, new) == SubSeq(segs, 1, i - 1) \o new \o SubSeq(segs, i + 1, Len(segs))

CutOrBlock(a, b, tp) ==
  IF ~(0 <= a /\ a < b /\ b <= Span) THEN outcome' = "err-bounds" /\ UNCHANGED segs
  ELSE LET i == FirstAfter(a)  s == segs[i] IN
       IF s.tp \in {"cut", "block"} THEN outcome' = "err-conflict" /\ UNCHANGED segs
       ELSE IF s.stop < b THEN outcome' = "err-overlap" /\ UNCHANGED segs
       ELSE /\ outcome' = "ok"
            /\ segs' = Splice(i, <<Seg(s.tp, s.start, a, s.net), Seg(tp, a, b, "")>>
                                  \o (IF s.stop # b THEN <<Seg(s.tp, b, s.stop, s.net)>> ELSE <<>>))
Cut(a, b) == CutOrBlock(a, b, "cut")
Block(a, b) == CutOrBlock(a, b, "block")

Containing(at) == { i \in 1..Len(segs) : segs[i].start <= at /\ at <= segs[i].stop }
SetNet(at, net) ==
  IF Containing(at) = {} THEN outcome' = "err-bounds" /\ UNCHANGED segs
  ELSE LET i == CHOOSE k \in Containing(at) : \A j \in Containing(at) : k <= j  s == segs[i] IN
       CASE s.tp = "cut" -> outcome' = "err-conflict" /\ UNCHANGED segs
         [] s.tp = "block" -> outcome' = "ok" /\ UNCHANGED segs
         [] s.tp = "wire" -> outcome' = "ok" /\ segs' = [segs EXCEPT ![i].net = net]
         [] OTHER -> outcome' = "err-rail" /\ UNCHANGED segs           \* outside the domain: nets are never assigned on rails

(***************************************************************************)
(* Property-level facts (action properties): an operation that fails leaves *)
(* the track untouched; a successful cut/block removes exactly [a, b] from  *)
(* wire and leaves type and net of everything else.                         *)
(***************************************************************************)
TypeAt(ss, x2) ==      \* type/net covering the open interval (x2/2 - 1/2 ...) - probe at half-integers: x2 is twice the coordinate
  LET i == CHOOSE k \in 1..Len(ss) : 2 * ss[k].start < x2 /\ x2 < 2 * ss[k].stop IN <<ss[i].tp, ss[i].net>>
Probes == { x2 \in 1..((2 * Span) - 1) : x2 % 2 = 1 }
CutEffect(a, b, tp) == outcome' = "ok" =>
   \A x2 \in Probes : IF 2 * a < x2 /\ x2 < 2 * b THEN TypeAt(segs', x2) = <<tp, "">> /\ TypeAt(segs, x2)[1] \in {"wire", "rail"}
                      ELSE TypeAt(segs', x2) = TypeAt(segs, x2)
FailureIsNoop == outcome' # "ok" => segs' = segs
=============================================================================
