#!/usr/bin/env python3
"""Entry point of every check registered in MANIFEST.json.

    tools/check.py C17 --tier quick|thorough [--replay FILE]

Tier and seed may also come from VERIF_TIER / VERIF_SEED.
"""
import argparse, importlib, os, sys, traceback
sys.path.insert(0, os.path.dirname(os.path.abspath(__file__)))
import vlib


def main():
    ap = argparse.ArgumentParser()
    ap.add_argument("prop")
    ap.add_argument("--tier", default=os.environ.get("VERIF_TIER", "quick"))
    ap.add_argument("--seed", type=int, default=int(os.environ.get("VERIF_SEED", "1") or 1))
    ap.add_argument("--replay", default=None)
    a = ap.parse_args()
    if a.tier not in ("quick", "thorough"):
        a.tier = "quick"
    prop = a.prop.upper()
    try:
        mod = importlib.import_module("props." + prop.lower())
    except ModuleNotFoundError:
        print(f"TOOL-ERROR no check for {prop}")
        return 2
    try:
        vlib.build_harness()
        chk = vlib.Check(prop, a.tier, a.seed)
        if a.replay:
            return mod.replay(chk, a.replay)
        return mod.run(chk)
    except vlib.ToolError as e:
        print("TOOL-ERROR", e)
        return 2
    except Exception:
        traceback.print_exc()
        print("TOOL-ERROR unexpected exception in the checker")
        return 2


if __name__ == "__main__":
    sys.exit(main())
