#!/usr/bin/env python3
"""Extracts the serde field table of gds21 and lef21 from their sources: one row per struct field with the
attributes that decide whether a value survives serialisation (default, skip_serializing, skip_serializing_if).
Output: JSON list, consumed by specs/meta/SerdeModel.tla through IOEnv."""
import re, sys, json, os

REPO = os.environ.get("VERIF_REPO", "/repo")
FILES = ["gds21/src/data.rs", "lef21/src/data.rs"]


def type_class(t):
    t = t.strip().rstrip(",")
    if t == "bool":
        return "bool"
    if t.startswith("Option<Unsupported>"):
        return "OptionUnsupported"
    if t.startswith("Option<"):
        return "Option"
    if t.startswith("Vec<"):
        return "Vec"
    if t == "Unsupported":
        return "Unit"
    return "plain"


def extract(path):
    src = open(path).read()
    rows = []
    for m in re.finditer(r"pub struct (\w+)\s*\{(.*?)\n\}", src, re.S):
        name, body = m.group(1), m.group(2)
        attrs = []
        for line in body.split("\n"):
            s = line.strip()
            if s.startswith("#[serde("):
                attrs.append(s)
                continue
            fm = re.match(r"pub (r#)?(\w+):\s*(.+)", s)
            if fm:
                a = " ".join(attrs)
                skip = "never"
                if re.search(r"skip_serializing_if\s*=\s*\"([^\"]+)\"", a):
                    skip = "if:" + re.search(r"skip_serializing_if\s*=\s*\"([^\"]+)\"", a).group(1)
                elif "skip_serializing" in a or re.search(r"\bskip\b", a):
                    skip = "always"
                rows.append({"struct": name, "field": fm.group(2), "tclass": type_class(fm.group(3)),
                             "default": bool(re.search(r"\bdefault\b", a)), "skip": skip})
                attrs = []
            elif s and not s.startswith("//") and not s.startswith("#["):
                attrs = attrs if s.startswith("#") else []
    return rows


def main():
    rows = []
    for f in FILES:
        for r in extract(os.path.join(REPO, f)):
            r["crate"] = f.split("/")[0]
            rows.append(r)
    json.dump(rows, sys.stdout)


if __name__ == "__main__":
    main()
