#!/usr/bin/env python3
"""Writes /verif/MANIFEST.json from the table below (single source of truth for the interface)."""
import json, os
V = os.path.dirname(os.path.dirname(os.path.abspath(__file__)))

CHECKS = {
 "C17": dict(cat="model_checking", ref="§6 C17",
   text="TLC exhaustively checks that the DFS mechanism of layout21utils::DepOrderer (one action per branch of push) "
        "satisfies the ordering predicates and refines the abstract property on every dependency-sequence graph with 3 "
        "nodes and every labelled digraph with 4 (quick) / 5 (thorough) nodes; every such graph is replayed into the real "
        "orderer (result equality + recorded Enter/Skip/Cycle/Exit trace validated against the spec), and the results of the "
        "five orderers embedded in the converters on exhaustive small and random large DAG/cyclic graphs are validated by TLC "
        "against the property predicates. Right level: the property is a small algebra whose full behaviour fits in TLC, and "
        "the binding is per-step.",
   note="Trusted: the harness's graph builders (cells/structs named c<i>), TLC, the Json module. Embedded orderers are "
        "observed through public results only (no hooks).",
   tech="TLA+ spec (DepOrderProps/Abs/DFS) + TLC exhaustive + refinement; S->I replay and I->S trace validation"),
 "C15": dict(cat="model_checking", ref="§6 C15",
   text="GdsReal.tla specifies both 64-bit formats and the exact conversions on hex-digit sequences; TLC evaluates the "
        "round-trip/normalisation theorems on every boundary class (all doubles within 8 ulp of each power of two in range, "
        "all <=2-bit fractions, rounding ties and carries of normalised reals) and emits the expected 16 digits; each is replayed "
        "into GdsFloat64 (bit equality) and random in-range values recorded from the code are validated by TLC. The spec itself "
        "is cross-checked against exact rational arithmetic on every run.",
   note="Trusted: TLC, Hex.tla digit arithmetic (self-tested against python fractions each run), harness digit conversion. "
        "Domain: -0.0 excluded; only normalised reals decoded.",
   tech="TLA+ executable spec of the codec + TLC enumeration; S->I replay and I->S trace validation"),
 "C13": dict(cat="model_checking", ref="§6 C13",
   text="Contains.tla defines closed-region membership with exact integer cross products; TLC enumerates every simple "
        "polygon as a vertex sequence on small lattices (built one vertex per step), checks that three different rays agree and "
        "that vertex insertion/translation change nothing, and emits the inside bitmap of every window point; all are replayed "
        "into Polygon/Rect/Path::contains (with translated and vertex-inserted variants). Random larger rectilinear, 45-degree "
        "and star polygons recorded from the code are validated answer by answer by TLC. BBox.tla defines bounding boxes by the set "
        "of lattice points they contain; TLC checks the min/max formulas and the lattice laws against that meaning on every pair "
        "of boxes of a 4 x 4 grid (incl. empty and degenerate ones) and each pair is replayed into raw::BoundBox (the fast "
        "rejection of Polygon::contains).",
   note="Trusted: TLC, the harness's polygon constructors, the random generators (their output is re-checked for simplicity by "
        "TLC). Paths: three-valued oracle, caps/corners unconstrained.",
   tech="TLA+ exact-geometry spec + TLC exhaustive small-lattice enumeration; S->I replay and I->S trace validation"),
 "C12": dict(cat="model_checking", ref="§6 C12",
   text="D4.tla is the placement algebra (reflect, then rotate CCW, then translate) with integer matrices; MC_D4 models "
        "flattening as one Descend action per hierarchy level and TLC checks group laws, mirror parity and composed=sequential "
        "on every chain of depth <=4 (quick: depth 4 sampled); every emitted chain is evaluated in the real code through "
        "from_instance cascades, elementary transform cascades and Layout::flatten of a nested library, on 49 grid points. "
        "Rational (Pythagorean) rotations cover general angles with the half-unit tolerance, at one level and (MC_D4Pyth2) at two levels of a "
        "hierarchy whose middle cell is instantiated three times. Apalache shows composition, closure "
        "and isometry of two placements for ALL integer offsets and points (D4Ind.tla).",
   note="Trusted: TLC, the harness's nested-library builder and its 2x2 integer map application. General angles only for "
        "rational sine/cosine.",
   tech="TLA+ placement algebra + flatten state machine, TLC exhaustive; S->I replay"),
 "C01": dict(cat="model_checking", ref="§6 C01",
   text="GdsGrammar.tla is the GDSII record grammar as a state machine (one step per record) with the meaning of each record; "
        "MC_GdsGen enumerates its behaviours with value classes (every element kind x every optional-record subset x property "
        "lists x value profiles; simulated multi-structure libraries) and checks the format-level round trip as an invariant. "
        "Each library is constructed in memory, written and re-read by the crate (== and field-wise projection), plus record-"
        "limit payloads and random large libraries.",
   note="Trusted: TLC, the hand-written constructor/projection glue (self-tested: project(construct(x)) = x on every case). "
        "Domain: strings without NUL, reals in range, no -0.0; write errors accepted.",
   tech="TLA+ grammar/codec spec as generator (TLC exhaustive + simulation); S->I replay, I->S random libraries"),
 "C02": dict(cat="model_checking", ref="§6 C02",
   text="The specification is the independent decoder: Trace_GdsStream walks the crate's written bytes record by record through "
        "GdsRecords/GdsGrammar/GdsCodec/GdsReal (length fields, type pairs, payload sizes, grammar order, ENDLIB last, lengths "
        "adding up) and compares the decoded library with the one handed to the writer, for every generated and random library. "
        "The writer's bytes are also compared with the independent encoder's; the file route (GdsLibrary::save into fresh paths and "
        "over existing shorter / longer files) is decoded the same way.",
   note="Trusted: TLC, the four-byte framing in the harness, the projection glue. Nothing of write.rs/read.rs is shared with "
        "the decoder.",
   tech="TLA+ grammar/codec as decoder; I->S trace validation of written streams by TLC"),
 "C03": dict(cat="model_checking", ref="§6 C03",
   text="The specification is the independent encoder: MC_GdsGen emits conformant byte streams with the library each encodes "
        "(incl. padded/unpadded strings, arbitrary dates, 0..2048 bytes after ENDLIB, library-level optional records -> error); "
        "from_bytes must return exactly that library. The reader's own read()/seek() calls, logged by an instrumented source, "
        "are validated against GdsReader.tla (no read after ENDLIB).",
   note="Trusted: TLC, projection glue, the logging source. Hook: cfg-guarded re-export of GdsReader/GdsParser.",
   tech="TLA+ grammar/codec as encoder (TLC exhaustive + simulation); S->I replay; I->S read-log validation"),
 "C10": dict(cat="fault_enumeration", ref="§6 C10",
   text="MC_GdsFaults.tla composes every behaviour of the independent encoder with exactly one fault action (truncation at "
        "every byte, length-field/zero-payload/type faults, drop/dup/swap/splice) and TLC enumerates every (stream, fault) pair "
        "with the model fact HasEndlib; each faulted stream, the same faults on repository streams and random noise are parsed "
        "through an instrumented source in a watched child process: outcome Ok|Err only, no ENDLIB => Err, Ok => write/read "
        "round trip; read logs are validated against GdsReader.tla (work bound: offsets monotone, calls <= length+4, nothing "
        "after ENDLIB).",
   note="Trusted: TLC, the logging source, child-process isolation. 'Time proportional to length' is a work bound on the I/O "
        "log plus a watchdog, not a clock measurement.",
   tech="TLA+ fault actions over the grammar spec, TLC enumeration; S->I replay; I->S read-log validation"),
 "C04": dict(cat="model_checking", ref="§6 C04",
   text="LefSyntax.tla is an independent renderer of the supported LEF subset (abstract library -> tokens, per the LEF 5.8 "
        "reference); MC_LefGen.tla constructs libraries per construct (every statement alone, in every enumerated form, and all "
        "together; both statement orders; with/without END LIBRARY; versions 5.3-5.8) and TLC emits tokens + expected library. "
        "Each case is turned into text under 60 lexical variants (keyword case, whitespace/newline/comment styles incl. non-ASCII "
        "comments, decimal spellings) and parsed; the field-wise projection must equal the abstract library, decimals by value.",
   note="Trusted: TLC, token->text glue (keyword case, decimal spelling, separators), the hand-written projection. The renderer "
        "is a function, not a state machine; TLC is used to enumerate the case space and evaluate the rendering rules.",
   tech="TLA+ renderer spec (LefSyntax) + TLC case enumeration; S->I replay under lexical variants"),
 "C05": dict(cat="model_checking", ref="§6 C05",
   text="Inputs are the image of the reader: the parse result of every C04 case; each distinct result is written by the crate and "
        "re-read; success and equality (== and projection) are required, a writer error is a violation. LefGrammar.tla (an "
        "acceptor: one statement per step, stack of open blocks, invariants Deterministic and StackWellFormed) additionally "
        "validates the token list of every written text (I->S; a rejection is MODEL-DRIFT), of every rendered text and of "
        "damaged texts (self-tests).",
   note="Trusted: as C04. The statement-by-statement validation of the written text against the grammar (I->S, conformance only) "
        "is not built; the round trip is the property verdict.",
   tech="TLA+ renderer spec + TLC case enumeration; S->I replay (write/re-read of reader results)"),
 "C11": dict(cat="fault_enumeration", ref="§6 C11",
   text="LefLexer.tla models the lexer over character classes with character index and byte offset (invariants: spans on "
        "character boundaries, increasing, inside the text, tokens <= characters); TLC enumerates every string up to 5 (6) "
        "characters over 15 class representatives incl. multi-byte ones, and every valid text of the LEF generator with exactly one "
        "token fault; all are lexed/parsed by the crate in a watched child process (Ok|Err only, error formatting included, "
        "Ok => write/re-read without crash), plus every character-boundary prefix of valid texts and a wall-clock scaling test.",
   note="Trusted: TLC, token->text glue, child isolation. Exact token types/lines are conformance (drift), not the property. "
        "Linear time is token-count bound + loose wall-clock scaling.",
   tech="TLA+ lexer state machine + fault actions, TLC exhaustive; S->I replay"),
 "C16": dict(cat="model_checking", ref="§6 C16",
   text="LefRaw.tla specifies the LEF->raw mapping (exact decimal scaling to 1/10000 micron or error, outline from SIZE, shapes "
        "grouped by layer name over ports/obstructions); MC_LefRaw enumerates sizes, all three shape kinds, multi-pin/port/layer "
        "structures over decimal classes with 0..7 fractional digits, negatives and x != y, and every non-integral class in every "
        "coordinate position; TLC emits the expected abstract (or must-be-error); each case is rendered to LEF text in 4 decimal "
        "spellings, parsed, imported, projected and compared.",
   note="Trusted: TLC, token->text glue, raw projection (layers by name). Scaled magnitudes below 2^31.",
   tech="TLA+ mapping spec + TLC case enumeration; S->I replay"),
 "C06": dict(cat="model_checking", ref="§6 C06",
   text="GdsSemantics.tla gives GDSII structures their meaning as flat geometry (placement algebra D4, AREF lattice, label-in-"
        "shape by exact containment) and the set of libraries that must be errors; MC_GdsSemantics enumerates hierarchies in several "
        "listing orders x 64 orientation pairs, all rectangle/polygon point orders, arrays x 8 orientations, labels in/on/outside "
        "shapes and malformed libraries; each is imported by the crate, flattened with Layout::flatten and compared as canonical "
        "bags (plus nets and annotations); big arrays are checked by count and corner placements.",
   note="Trusted: TLC, the GDS constructor and raw projection glue, canonical forms (rect = axis-aligned 4-gon; polygons up to "
        "rotation/reversal). Err is always acceptable per the statement.",
   tech="TLA+ semantics spec + TLC case enumeration; S->I replay"),
 "C07": dict(cat="model_checking", ref="§6 C07",
   text="RawGds.tla states the export obligations per cell (SREF per instance, closed BOUNDARY, OPEN PATH with width, layer/"
        "purpose numbers, TEXT on the Label purpose at a point inside the shape by exact geometry); MC_RawGds enumerates shapes "
        "(every rectangle corner order; L/U/T/staircase/45-degree/general/sliver polygons from every start vertex in both "
        "directions; Manhattan paths x widths) x nets x layers/purposes x units x 3-level hierarchies in 64 orientation pairs. The "
        "structure the crate exports for each cell is validated by TLC against the obligations (I->S); from_gds(to_gds(lib)) is "
        "compared with lib in canonical form (S->I). WideInt / WideContains give the exact sign of 64-bit cross products inside TLC's "
        "32-bit integers (limb arithmetic, tied to the plain predicates by MC_WideContains), so the label obligation is decided by "
        "TLC over the whole GDSII coordinate range (shapes at 3e8 and 1e9).",
   note="Trusted: TLC, raw constructor/projection glue, canonical forms. Domain: shapes on one layer number pairwise disjoint "
        "(checked as a TLC invariant of the generator), simple polygons, Manhattan paths.",
   tech="TLA+ export-obligation spec; TLC case enumeration; I->S validation of exported structures + S->I round trip"),
 "C14": dict(cat="model_checking", ref="§6 C14",
   text="RawProto.tla is the raw<->vlsir.raw field relation as a function (first-seen (layer, purpose) grouping, rectangle as "
        "lower-left + size, instance rotation, annotations, abstracts) with the ordering obligation ExportOrderOK = ValidOrder of "
        "DepOrderProps; TLC checks the model's own export order against it and emits library + message for every generated "
        "library. The crate's to_proto must produce that message (cells in any dependencies-first order, validated by TLC), "
        "from_proto(to_proto(lib)) must equal lib, and the specification's message must survive proto->raw->proto. "
        "Layers.tla models the layer registry behind 'layer/purpose numbers' as a state machine (Add with purposes, get_or_insert, "
        "keynum/keyname/nextnum; invariants KeysValid, LatestWins, GoiIdempotent); every sequence of 3 operations is replayed "
        "into raw::Layers with all answers compared after every operation.",
   note="Trusted: TLC, raw and proto constructor/projection glue. Abstract port shapes / blockages compare as sets by layer "
        "(their order is C20's subject). Proto->raw uses the layer table that gives purpose numbers their meaning.",
   tech="TLA+ field-relation spec + TLC case enumeration; S->I replay in three directions; I->S order validation"),
 "C19": dict(cat="model_checking", ref="§6 C19",
   text="TetrisProto.tla is the tetris<->vlsir.tetris field relation as a function with the ordering obligation (ValidOrder of "
        "DepOrderProps), outline validity and the set of single breakages of a message; TLC emits library, message and "
        "breakages; the crate's export must be that message (cells in any dependencies-first order, validated by TLC), "
        "import(export) must equal the library, the specification's message must survive import->export, and every broken "
        "message must be rejected with an error, never a crash.",
   note="Trusted: TLC, tetris/proto constructor and projection glue. Abstract ports outside the claim.",
   tech="TLA+ field-relation + fault spec, TLC case enumeration; S->I replay; I->S order validation"),
 "C20": dict(cat="model_checking", ref="§6 C20",
   text="Determinism.tla models map iteration as an environment choice and TLC shows hash-order visiting nondeterministic "
        "(negative control) and key-order visiting deterministic and complete; Trace_Determinism.tla is the functional-"
        "dependency invariant digest = f(conversion, input). Every conversion (gds->raw, raw->gds, raw->proto, raw->lef, "
        "lef->raw, lef->raw->lef, tetris->raw) is run on the inputs of C06/C07/C14/C16/C08 and on abstracts with 2-4 keys in "
        "every unordered map, 5 times in each of 4 (32) fresh processes; TLC validates every recorded run.",
   note="Trusted: TLC, the digest (fixed-key hash of the full ordered Debug/JSON rendering of the output, GDS dates "
        "normalised). The design-level model is bound to the code only through the recorded runs.",
   tech="TLA+ nondeterminism model + functional-dependency trace spec; I->S validation of recorded runs across processes"),
 "C18": dict(cat="model_checking", ref="§6 C18",
   text="SerdeModel.tla states serde's attribute semantics (skip_serializing[_if], default, Option) and TLC evaluates "
        "Lossless(field, value class) over the field table extracted from gds21/lef21 sources on every run, naming any field "
        "whose attributes cannot round-trip; the value space (GDSII libraries of MC_GdsGen, LEF libraries of MC_LefGen) goes "
        "through the crate's own to_string/from_str and save/open in JSON and YAML: ==, field-wise projection with doubles as "
        "bit patterns, and equal re-written GDSII bytes; plus 70 JSON/YAML-special strings in every string field and random "
        "in-range doubles in every real field.",
   note="Trusted: TLC, the regex-based attribute extractor, projections. serde_json/serde_yaml themselves are black boxes "
        "(DESIGN §6 C18 'honest limit'): the spec contributes attribute semantics and enumeration, not a model of the text formats.",
   tech="TLA+ attribute-semantics spec over extracted field table (TLC) + spec-generated value space; S->I replay"),
 "C09": dict(cat="model_checking", ref="§6 C09",
   text="Placer.tla defines reflection-aware boxes, Touches/Flush, the placed origin declaratively (CHOOSE) and in closed form "
        "(equal and unique as a TLC invariant) and the placement step PlaceNext; TLC explores every placement interleaving of "
        "3072 single-relation programs, chains/trees of three in every listing order, cyclic programs and 144 arrays, checking "
        "confluence, order validity (ValidOrder of DepOrderProps) and that cycles block. Each program runs through Placer::place "
        "(locations equal, cycles = error) and the observed placement order is validated step by step by Trace_Placer. Apalache "
        "shows for ALL integers that the closed-form origin is the unique origin satisfying Touches and Flush (PlacerInd.tla).",
   note="Trusted: TLC, the program->Library builder. References are instances of the same layout; orthogonal alignment.",
   tech="TLA+ placement spec, TLC exhaustive over programs and interleavings; S->I replay; I->S trace validation"),
}
CHECKS["C08"] = dict(cat="model_checking", ref="§6 C08",
   text="Tracks.tla is the one-track state machine (segments tiling [0,span]; Cut/Block/SetNet with bounds, conflict and overlap "
        "errors; invariant Tiling, action properties CutEffect and FailureIsNoop); TLC enumerates every sequence of 3-4 operations "
        "on wire and rail tracks and each is replayed on tracks::Track, state compared after every operation. TetrisCompile.tla "
        "specifies the compiled cell (period instantiation with offset/overlap/flip, crossing centres, removed intervals, wire "
        "pieces, nets, vias, WellFormed); MC_TetrisCompile enumerates 15 stacks x outlines x cut/assignment/instance features and "
        "Library::to_raw must yield exactly the specified rectangles, or an error where no tiling exists; a seeded random family "
        "mixes cuts, nets and instances on multi-layer stacks. Apalache proves Tiling inductive for any span and any integer "
        "arguments (specs/apalache/TracksInd.tla), i.e. beyond the bounds TLC explores.",
   note="Trusted: TLC, the case->Library builder, rectangle canonicalisation. Even cut/via/track widths; rectangular outlines.",
   tech="TLA+ track state machine and compile spec, TLC exhaustive + Apalache inductive invariant; S->I replay with per-step state comparison")

PENDING = {}

def main():
    props = [json.loads(l) for l in open(os.path.join(V, "properties.jsonl"))]
    checks, na = [], []
    for p in props:
        pid = p["id"]
        if pid in CHECKS:
            c = CHECKS[pid]
            checks.append({
                "property_id": pid,
                "quick_cmd": f"python3 tools/check.py {pid} --tier quick",
                "thorough_cmd": f"python3 tools/check.py {pid} --tier thorough",
                "evidence_file": f"evidence/{pid}.json",
                "replay_cmd_template": f"python3 tools/check.py {pid} --replay {{path}}",
                "engine": "tlc+harness",
                "level_claimed": {"category": c["cat"], "text": c["text"], "design_ref": c["ref"]},
                "level_note": c["note"],
                "technique": c["tech"],
            })
        else:
            na.append({"property_id": pid, "reason": PENDING.get(pid, "check not built yet (construction in progress; see DESIGN.md §9) — not claimed")})
    m = {
        "version": 1,
        "setup_cmd": "cd harness && (test -f Cargo.lock || cp /repo/Cargo.lock .) && CARGO_NET_OFFLINE=true cargo build --release --offline",
        "hooks": {
            "guard": "layout21_verif",
            "enable": "RUSTFLAGS/--cfg layout21_verif via harness/.cargo/config.toml (build.rustflags); path dependencies on /repo/*",
            "baseline_off_cmd": "cd /repo && cargo test --workspace --no-fail-fast --offline",
            "source_commits": HOOK_COMMITS,
            "add_only": True,
        },
        "engines": [
            {"name": "tlc+harness", "path": "tools/check.py", "serves_properties": sorted(CHECKS),
             "kind_free_text": "TLA+ specifications under specs/ checked by TLC (exhaustive, simulation, trace validation); "
                               "Rust harness under harness/ replays TLC-generated cases into Layout21 and records traces from it"},
        ],
        "checks": checks,
        "not_applicable": na,
        "notes": "See DESIGN.md. Exit codes: 0 held, 1 VIOLATION, 2 tool error. known_findings.json lists recorded defects.",
    }
    json.dump(m, open(os.path.join(V, "MANIFEST.json"), "w"), indent=1)

HOOK_COMMITS = ["d26c551", "ec08288"]
if __name__ == "__main__":
    main()
