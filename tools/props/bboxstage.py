"""Bounding boxes (specs/geom/BBox.tla, MC_BBox.tla): every pair of boxes on a small grid (incl. the empty box and degenerate
ones); TLC checks the min/max formulas against their set-of-points meaning and the lattice laws; each pair is replayed into
layout21raw::BoundBox.  A stage of C13: Polygon::contains uses the bounding box as its fast rejection, so a wrong box is a
wrong containment answer."""
import os, json
import vlib
from vlib import SPECS

D = os.path.join(SPECS, "geom")
G = 3


def norm(b):
    return [list(map(int, p)) for p in b] if b else []


def stage(chk):
    W = chk.workdir
    cfg = os.path.join(W, "bbox.cfg")
    open(cfg, "w").write(f"SPECIFICATION Spec\nCONSTANT G = {G}\nINVARIANTS Sound Laws Emit\nCHECK_DEADLOCK FALSE\n")
    r = chk.tlc.check(os.path.join(D, "MC_BBox.tla"), cfg, timeout=3600)
    chk.add_tlc(f"MC_BBox every pair of boxes on a {G + 1} x {G + 1} grid", r)
    chk.tlc_must_pass("MC_BBox", r)
    cases = [dict(c, id=i, g=G) for i, c in enumerate(r.cases)]
    chk.require(len(cases) > 10000, f"only {len(cases)} box pairs")
    res = vlib.harness("bbox_ops", cases, W, timeout_ms=20000)
    for c, q in zip(cases, res):
        chk.cov["evaluations"] += 1
        if q.get("outcome") != "ok":
            chk.violation(f"bbox-{q.get('outcome')}", "raw::BoundBox", {"a": c["a"], "b": c["b"]}, {"msg": q.get("msg")})
            continue
        want = {"inter": norm(c["inter"]), "hull": norm(c["hull"]), "inter_ba": norm(c["inter"]), "hull_ba": norm(c["hull"]),
                "expand1": norm(c["expand1"]), "size": list(c["size"]), "of_corners": norm(c["of_corners"])}
        # a box next to the EMPTY box: the code's union with its MAX/MIN sentinel box yields the other box, as the specification says
        for k, v in want.items():
            if norm(q[k]) != v if k != "size" else list(q[k]) != v:
                chk.violation(f"bounding-box:{k}", "raw::BoundBox", {"a": norm(c["a"]), "b": norm(c["b"])}, {"model": v, "code": q[k]})
                break
        else:
            if sorted(map(tuple, q["a_contains"])) != sorted(map(tuple, c["a_contains"])):
                chk.violation("bounding-box:contains", "raw::BoundBox", {"a": norm(c["a"])}, {"model": c["a_contains"], "code": q["a_contains"]})
    # self-test (iii)
    st = dict(cases[len(cases) // 3]); q = vlib.harness("bbox_ops", [st], W, tag="bbox_selftest")[0]
    altered = norm(st["hull"]); altered = [[altered[0][0] - 1, altered[0][1]], altered[1]] if altered else [[0, 0], [0, 0]]
    chk.require(norm(q["hull"]) != altered, "bounding-box comparison did not notice an altered expectation")
    # unbounded argument (Apalache): the same laws for ALL integer boxes and points
    apa = os.path.join(SPECS, "apalache", "BBoxInd.tla")
    oc, secs = vlib.apalache(apa, ["--init=AnyInit", "--inv=Laws", "--length=0"])
    chk.cov["apalache_bounding_box_laws"] = {"outcome": oc, "seconds": secs, "scope": "all integer boxes and points"}
    vlib.log(f"[apalache] BBoxInd: {oc} ({secs:.1f}s)")
    chk.require(oc != "Error", "Apalache: the min/max bounding-box formulas violate their specification (specification defect)")
    return len(cases)
