"""C01 — GDSII write-then-read returns the library that was written.

Specification: specs/gds/{GdsRecords,GdsCodec,GdsGrammar,GdsReal}.tla; MC_GdsGen enumerates libraries
(behaviours of the grammar = libraries x lexical choices) with every element kind, every optional-record
subset, property lists and value classes; the format-level round trip (decode(encode(items)) = items) is an
invariant of the model.
S->I: each library is constructed in memory, written and read back by the crate: equality by `==` and by
field-wise projection.  I->S: random large libraries written by the crate are re-read likewise.
A write error is accepted (the statement allows it); a read error, panic or difference is not.
"""
import json
import vlib
from . import gdscommon as G


def big_cases():
    """record-limit cases built directly (abstract JSON): XY with 8190/8191/8192 points, long strings"""
    out = []
    base = {"name": [97], "version": 3, "dates": [0] * 12, "units": [[3, 15, 5, 0, 6, 2, 4, 13, 13, 2, 15, 1, 10, 9, 15, 12], [3, 14, 1, 1, 2, 14, 0, 11, 14, 8, 2, 6, 13, 6, 9, 5]], "unsupported": []}
    for n in (8190, 8191, 8192):
        el = {"kind": "boundary", "elflags": [], "plex": [], "layer": 1, "datatype": 0, "xy": [[i, -i] for i in range(n)], "props": []}
        out.append({"lib": dict(base, structs=[{"name": [99], "dates": [0] * 12, "elems": [el]}]), "limit": f"xy{n}", "fits": n <= 8190})
    for n in (65529, 65530, 65531, 65532, 65533, 65534, 65535, 65536):
        el = {"kind": "text", "elflags": [], "plex": [], "layer": 1, "texttype": 0, "presentation": [], "pathtype": [], "width": [],
              "strans": [], "xy": [[0, 0]], "string": [97 + (i % 26) for i in range(n)], "props": []}
        out.append({"lib": dict(base, structs=[{"name": [99], "dates": [0] * 12, "elems": [el]}]), "limit": f"str{n}", "fits": n <= 65530})
    return out


def run(chk):
    thorough = chk.tier == "thorough"
    W = chk.workdir
    cases = [c for c in G.generate(chk, thorough, want_unsupported=False)]
    res = vlib.harness("gds_s2i", cases, W, timeout_ms=20000)
    nontriv = 0
    for c, q in zip(cases, res):
        chk.cov["evaluations"] += 1
        if c["lib"]["structs"]:
            nontriv += 1
        if q.get("outcome") != "ok":
            chk.violation("harness-level-crash", "gds21", G.short(c["lib"]), q)
            continue
        if q.get("glue_error"):
            raise vlib.ToolError("constructor/projection glue is not the identity: " + q["glue_error"])
        # extended coverage (not part of C01's statement): GdsLibrary::stats() against Stats(lib) of GdsGrammar.tla
        if "stats" in c and q.get("stats") is not None:
            chk.cov["stats_compared"] = chk.cov.get("stats_compared", 0) + 1
            if q["stats"] != c["stats"]:
                chk.cov["stats_differ"] = chk.cov.get("stats_differ", 0) + 1
                if chk.cov["stats_differ"] <= 3:
                    chk.model_drift(f"GdsLibrary::stats() {q['stats']} differs from the specification's Stats(lib) {c['stats']}")
        w = q["write"]
        empty = G.has_empty_string(c["lib"])
        if w["outcome"] == "err":
            chk.note(f"write error (allowed): {w['msg'][:100]}") if len(chk.notes) < 5 else None
            continue
        if w["outcome"] == "panic":
            chk.violation("write-panic", "GdsWriter", G.short(c["lib"]), w)
            continue
        rr = q["reread"]
        if rr["outcome"] != "ok":
            klass = ("empty-string-" if empty else "") + "reread-" + rr["outcome"]
            chk.violation(klass, "GdsLibrary::from_bytes", G.short(c["lib"]), rr)
        elif not (rr["eq"] and rr["proj_eq"]):
            chk.violation("reread-differs", "gds21 write/read", G.short(c["lib"]), rr)
    chk.sample({"library": G.short(cases[len(cases) // 2]["lib"]), "stream_bytes": len(cases[len(cases) // 2]["bytes"]), "result": res[len(cases) // 2]})

    # ---- record-limit cases (always; cheap)
    bc = [dict(c, id=f"limit-{c['limit']}", bytes=[], pad=0) for c in big_cases()]
    for c, q in zip(bc, vlib.harness("gds_s2i", bc, W, tag="limits", timeout_ms=60000)):
        chk.cov["evaluations"] += 1
        w = q.get("write", {})
        if c["fits"]:
            if w.get("outcome") != "ok" or q["reread"]["outcome"] != "ok" or not q["reread"]["eq"]:
                chk.violation("record-at-limit-lost", "gds21 write/read", {"limit": c["limit"]}, {"write": w.get("outcome"), "reread": q.get("reread")})
        else:
            if w.get("outcome") == "ok":
                rr = q["reread"]
                if rr["outcome"] != "ok" or not rr["eq"]:
                    chk.violation("record-beyond-limit-written-but-not-readable", "GdsWriter", {"limit": c["limit"]}, {"reread": rr})
            elif w.get("outcome") == "panic":
                chk.violation("write-panic", "GdsWriter", {"limit": c["limit"]}, w)

    # ---- I->S: random large libraries
    n = 5000 if thorough else 200
    rc = [{"id": f"rnd{i}", "seed": chk.seed * 100000 + i, "structs": 1 + i % 7, "elems": 5 + (i % 40)} for i in range(n)]
    for c, q in zip(rc, vlib.harness("gds_record", rc, W, tag="random", timeout_ms=60000)):
        chk.cov["evaluations"] += 1
        nontriv += 1
        if q["outcome"] == "werr":
            continue
        if q["outcome"] != "ok":
            chk.violation("write-panic", "GdsWriter", {"seed": c["seed"]}, {"msg": q.get("msg")})
            continue
        rr = q["reread"]
        empty = G.has_empty_string(q["lib"])
        if rr["outcome"] != "ok":
            chk.violation(("empty-string-" if empty else "") + "reread-" + rr["outcome"], "GdsLibrary::from_bytes", {"seed": c["seed"], "structs": c["structs"], "elems": c["elems"]}, rr)
        elif not (rr["eq"] and rr["proj_eq"]):
            chk.violation("reread-differs", "gds21 write/read", {"seed": c["seed"], "structs": c["structs"], "elems": c["elems"]}, rr)
    chk.cov["traces_validated_against_impl"] = 0
    chk.cov["distinct_nontrivial"] = nontriv
    return chk.finish(
        "model_checking",
        rule="libraries = terminal states of MC_GdsGen: one element per stream with every subset of its optional records x property "
             "lists 0..2 x value profiles (every record kind meets every class of its type: int16/int32 extremes, flag bytes, empty/"
             "odd/even/2- and 3-byte UTF-8 strings, real classes, valid/zero/absurd dates), simulated multi-structure libraries, "
             "record-limit payloads, random large libraries. non-trivial = at least one structure.",
        assumptions=["strings contain no NUL byte (the format cannot represent a trailing NUL)", "reals are in the GDSII range, no -0.0",
                     "a write error is accepted by the statement"],
        extra={"exhaustive": True})


def replay(chk, path):
    print(open(path).read())
    return 0
