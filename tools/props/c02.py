"""C02 — the bytes written for a library are a well-formed GDSII stream with that content.

The specification is used as an INDEPENDENT DECODER: the crate writes each library; the harness frames the
bytes into [len, rtype, dtype, payload] by header arithmetic only; Trace_GdsStream walks GdsGrammar record
by record (length field even / >= 4 / equal to the bytes present; record-type/data-type pair and payload
size from GdsRecords; admissible at this point of the grammar), decodes every payload with GdsCodec/GdsReal
and compares the decoded library with the one handed to the writer.
Additionally (S->I) the bytes of the independent encoder MC_GdsGen are compared with the writer's bytes; a
difference that the decoder accepts is only a MODEL-DRIFT note.
"""
import os, json
import vlib
from vlib import SPECS, write_ndjson
from . import gdscommon as G

D = os.path.join(SPECS, "gds")


def run(chk):
    thorough = chk.tier == "thorough"
    W, tlc = chk.workdir, chk.tlc
    cases = G.generate(chk, thorough, want_unsupported=False)
    # the writer's bytes vs the reference encoder (S->I)
    res = vlib.harness("gds_s2i", cases, W, timeout_ms=20000)
    byte_diffs = {}
    for c, q in zip(cases, res):
        w = q.get("write", {})
        if w.get("outcome") == "ok" and not w["bytes_equal"]:
            byte_diffs[c["id"]] = w
    # the crate writes; TLC decodes (I->S)
    # thorough: the byte comparison above covers every generated library; the record-by-record decoding by TLC (about 20
    # records per library, 40 000 events per TLC run) takes every 8th of them plus 1500 random large libraries
    rc = [{"id": c["id"], "lib": c["lib"]} for c in (cases[::8] if thorough else cases)]
    # records at and beyond the 65535-byte limit (XY with 8190..8192 points, strings of 65530..65532 bytes): the writer may
    # refuse them, but whatever it writes must be a well-formed stream
    from . import c01
    rc += [{"id": f"limit-{c['limit']}", "lib": c["lib"]} for c in c01.big_cases()]
    n = 1500 if thorough else 120
    rc += [{"id": f"rnd{i}", "seed": chk.seed * 100000 + i, "structs": 1 + i % 5, "elems": 5 + (i % (60 if thorough else 25))} for i in range(n)]
    # the same through GdsLibrary::save: into a fresh path, over an empty file, over shorter and over much longer files
    # (the bytes produced for a library are the content of the file afterwards, whatever the path held before)
    tmpd = os.path.join(W, "tmp")
    os.makedirs(tmpd, exist_ok=True)
    pres = (-1, 0, 10, 70, 5000, 300000)
    rc += [{"id": f"file{i}", "seed": chk.seed * 100000 + 50000 + i, "structs": i % 4, "elems": 1 + (i % 30),
            "file": {"path": os.path.join(tmpd, f"save{os.getpid()}_{i}.gds"), "pre": pres[i % len(pres)]}} for i in range(n // 2)]
    rec = vlib.harness("gds_record", rc, W, tag="record", timeout_ms=60000)
    events, meta = [], {}
    nrec = 0
    for c, q in zip(rc, rec):
        chk.cov["evaluations"] += 1
        if q["outcome"] == "werr":
            continue            # writing failed with an error: outside the quantifier of C02
        if q["outcome"] != "ok":
            chk.violation("write-panic", "GdsWriter", {"id": c["id"]}, {"msg": q.get("msg")})
            continue
        if q.get("file_eq_mem") is False:
            chk.violation("saved-file-differs-from-written-stream", "GdsLibrary::save", {"id": c["id"], "file_held_before": c["file"]["pre"]},
                          {"file_bytes": q["total"], "well_framed_bytes": q["consumed"]})
        events.append({"e": "lib", "id": str(c["id"]), "lib": q["lib"]})
        events.extend(q["records"])
        events.append({"e": "eof", "total": q["total"]})
        nrec += len(q["records"])
        meta[str(c["id"])] = q["lib"]
    CH = 40000
    chunks, curc = [], []
    for e in events:
        if e["e"] == "lib" and len(curc) > CH:
            chunks.append(curc); curc = []
        curc.append(e)
    if curc:
        chunks.append(curc)
    tmod, tcfg = os.path.join(D, "Trace_GdsStream.tla"), os.path.join(D, "Trace_GdsStream.cfg")
    decoder_bad = set()
    for k, ch in enumerate(chunks):
        tf = os.path.join(W, f"stream_{k}.ndjson")
        write_ndjson(tf, ch)
        r = tlc.trace(tmod, tcfg, tf, mem="8g", timeout=7200)
        chk.add_tlc(f"Trace_GdsStream chunk {k} ({len(ch)} events)", r)
        chk.tlc_must_pass("Trace_GdsStream", r)
        for kind, body in r.lines:
            if kind != "BAD":
                continue
            b = json.loads(json.loads(body))
            decoder_bad.add(b["id"])
            reason = b["reason"]
            klass = reason.split(":")[0] + (":" + reason.split(":")[1] if ":" in reason else "")
            chk.violation(klass, "GdsWriter", G.short(meta[b["id"]]), {"reason": reason, "phase": b["phase"], "element": b["ekind"], "trace_line": b["line"]})
        os.remove(tf)
    chk.cov["traces_validated_against_impl"] = sum(1 for e in events if e["e"] == "lib")
    for cid, w in list(byte_diffs.items())[:5]:
        if str(cid) not in decoder_bad:
            chk.model_drift(f"writer bytes differ from the reference encoder at offset {w['first_diff']} but the decoder accepts the stream (case {cid})")
    chk.cov["distinct_nontrivial"] = sum(1 for e in events if e["e"] == "lib" and e["lib"]["structs"])
    chk.cov["records_decoded"] = nrec
    chk.sample({"library": G.short(events[0]["lib"]), "first_records": [{k: v for k, v in e.items()} for e in events[1:5]]})
    # self-tests: a corrupted stream must be rejected (ii)
    good = [events[0]] + [e for e in events[1:] if True][:next(i for i, e in enumerate(events) if e["e"] == "eof")]
    k_end = next(i for i, e in enumerate(events) if e["e"] == "eof")
    good = events[:k_end + 1]
    for name, mut in (("swap-two-records", lambda ev: ev[:2] + [ev[3], ev[2]] + ev[4:]),
                      ("flip-payload-bit", lambda ev: ev[:1] + [dict(ev[1], bytes=[ev[1]["bytes"][0], ev[1]["bytes"][1] ^ 1])] + ev[2:]),
                      ("drop-endlib", lambda ev: ev[:-2] + [dict(ev[-1], total=ev[-1]["total"] - 4)])):
        tf = os.path.join(W, "selftest.ndjson")
        write_ndjson(tf, mut([dict(e) for e in good]))
        r = tlc.trace(tmod, tcfg, tf)
        chk.require(any(k == "BAD" for k, _ in r.lines), f"decoder accepted a corrupted stream ({name})")
    return chk.finish(
        "model_checking",
        rule="every library of the C01 generator (one element per stream x optional-record subsets x value profiles; simulated "
             "multi-structure libraries; thorough: every 8th of the 640 000) plus random large libraries, written by the crate and "
             "decoded record by record by the TLA+ grammar/codec. non-trivial = at least one structure.",
        assumptions=["libraries for which writing fails are outside the quantifier", "reals in range, no -0.0; strings without NUL",
                     "element XY point counts are the library's content, not the writer's (any count accepted for boundary/path/node)"])


def replay(chk, path):
    print(open(path).read())
    return 0
