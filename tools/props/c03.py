"""C03 — every grammar-conformant GDSII stream is read to exactly the content it encodes.

The specification is used as an INDEPENDENT ENCODER: MC_GdsGen emits byte streams with the library each
encodes (every element kind, every optional-record subset, odd strings padded / even strings unpadded,
arbitrary 16-bit dates, 0..2048 zero bytes after ENDLIB; library-level optional records, for which the
documented outcome is an error).  S->I: `GdsLibrary::from_bytes` must return exactly the encoded library.
I->S: the reader's own read()/seek() calls, logged through an instrumented source (hook), are validated
against GdsReader.tla (header before payload, payload length = len - 4, no read after ENDLIB).
"""
import os, json
import vlib
from vlib import SPECS, write_ndjson
from . import gdscommon as G

D = os.path.join(SPECS, "gds")


def run(chk):
    thorough = chk.tier == "thorough"
    W, tlc = chk.workdir, chk.tlc
    cases = G.generate(chk, thorough, want_unsupported=True)
    res = vlib.harness("gds_s2i", cases, W, timeout_ms=20000)
    nontriv = 0
    for c, q in zip(cases, res):
        chk.cov["evaluations"] += 1
        if q.get("outcome") != "ok":
            chk.violation("harness-level-crash", "gds21", G.short(c["lib"]), q)
            continue
        rd = q["read"]
        empty = G.has_empty_string(c["lib"])
        nontriv += 1 if (c["lib"]["structs"] or c["lib"]["unsupported"]) else 0
        if c["lib"]["unsupported"]:
            if rd["outcome"] == "ok":
                chk.violation("unsupported-record-accepted", "GdsParser::parse_lib", {"record": c["lib"]["unsupported"]}, rd)
            elif rd["outcome"] == "panic":
                chk.violation("read-panic", "GdsParser", {"record": c["lib"]["unsupported"]}, rd)
            continue
        if rd["outcome"] == "panic":
            chk.violation(("empty-string-" if empty else "") + "read-panic", "GdsLibrary::from_bytes", G.short(c["lib"]), rd)
        elif rd["outcome"] == "err":
            chk.violation("conformant-stream-rejected", "GdsLibrary::from_bytes", dict(G.short(c["lib"]), pad=c["pad"]), rd)
        elif not rd["proj_eq"]:
            chk.violation("misread", "GdsLibrary::from_bytes", G.short(c["lib"]), rd)
    k = len(cases) // 2
    chk.sample({"encoded_library": G.short(cases[k]["lib"]), "stream": cases[k]["bytes"][:64], "padding": cases[k]["pad"], "read": res[k]["read"]})
    # self-test (iii): a stream whose expected library was altered must be reported
    st = json.loads(json.dumps(cases[5])); st["lib"]["version"] += 1
    q = vlib.harness("gds_s2i", [st], W, tag="selftest")[0]
    chk.require(q["read"]["outcome"] == "ok" and not q["read"]["proj_eq"], "replayer did not notice an altered expectation")

    # ---- I->S: the reader's I/O trace against GdsReader.tla
    n_tr = readlog_validation(chk, cases, thorough)
    chk.cov["traces_validated_against_impl"] = n_tr
    chk.cov["distinct_nontrivial"] = nontriv
    return chk.finish(
        "model_checking",
        rule="streams = terminal states of the independent encoder MC_GdsGen (as C01) plus one stream per library-level optional "
             "record (expected: error) and padding 0,1,2,3,4,7,2047,2048 bytes after ENDLIB. non-trivial = has a structure or an "
             "unsupported record.",
        assumptions=["conformant strings: odd length NUL-padded, even length unpadded, no NUL inside",
                     "FORMAT is generated without MASK records"],
        extra={"exhaustive": True})


def readlog_validation(chk, cases, thorough):
    W, tlc = chk.workdir, chk.tlc
    sel = [c for c in cases if not c["lib"]["unsupported"]]
    sel = sel[:: max(1, len(sel) // (3000 if thorough else 400))]
    rl = vlib.harness("gds_readlog", [{"id": c["id"], "bytes": c["bytes"], "pad": c["pad"]} for c in sel], W, timeout_ms=20000)
    events = []
    n = 0
    for c, q in zip(sel, rl):
        if q.get("outcome") not in ("ok", "err"):
            continue
        events.append({"e": "stream", "id": str(c["id"]), "bytes": c["bytes"], "size": len(c["bytes"]) + c["pad"]})
        events.extend(q["log"])
        events.append({"e": "end", "result": q["outcome"]})
        n += 1
    tf = os.path.join(W, "readlog.ndjson")
    write_ndjson(tf, events)
    r = tlc.trace(os.path.join(D, "Trace_GdsReader.tla"), os.path.join(D, "Trace_GdsReader.cfg"), tf, mem="8g", timeout=7200)
    chk.add_tlc(f"Trace_GdsReader ({n} read logs, {len(events)} events)", r)
    if not r.ok:
        chk.model_drift(f"reader I/O trace not a behaviour of GdsReader.tla: {r.error} {r.lines[:2]}")
        return 0
    for kind, body in r.lines:
        if kind == "BAD":
            b = json.loads(json.loads(body))
            if b["reason"].startswith("prop:"):
                chk.violation("reader-io-" + b["reason"][5:], "GdsReader", {"id": b["id"]}, b)
            else:
                chk.model_drift(f"read log differs from GdsReader.tla: {b}")
    # self-test (ii)
    k_end = next(i for i, e in enumerate(events) if e["e"] == "end")
    bad = [dict(e) for e in events[:k_end + 1]]
    bad.insert(k_end, {"e": "read", "at": bad[0]["size"] - 1 if False else 0, "n": 2, "got": 2})   # a read after ENDLIB
    write_ndjson(tf, bad)
    r2 = tlc.trace(os.path.join(D, "Trace_GdsReader.tla"), os.path.join(D, "Trace_GdsReader.cfg"), tf)
    chk.require((not r2.ok) or any(k == "BAD" for k, _ in r2.lines), "a read after ENDLIB was accepted by GdsReader.tla")
    return n


def replay(chk, path):
    print(open(path).read())
    return 0
