"""C04 — reading a LEF file yields every statement in it, with exact values.

Specification: specs/lef/LefSyntax.tla (independent renderer: abstract library -> tokens, from the LEF 5.8
reference) and MC_LefGen.tla (per-construct libraries: every statement alone, in every form, and all
together; forward and reversed statement order; with and without END LIBRARY; versions 5.3..5.8).
S->I: every token list is turned into text under every lexical variant (3 keyword casings x 5 separator /
comment styles incl. non-ASCII comments x 4 decimal spellings) and parsed; the result, projected field by
field, must equal the abstract library (decimals by value).
"""
import json
import vlib
from . import lefcommon as L


def run(chk):
    cases = L.generate(chk)
    res = vlib.harness("lef_s2i", cases, chk.workdir, timeout_ms=30000)
    nv = 0
    for c, q in zip(cases, res):
        if q.get("outcome") != "ok":
            chk.violation("reader-crash", "lef21::parse", {"lib": L.describe(c["lib"])}, q)
            continue
        nv += q["variants"]
        for p in q["problems"]:
            if p["stage"] != "read":
                continue
            chk.violation(L.klass(p), "lef21::read", {"lib": L.describe(c["lib"]), "variant": p.get("var")},
                          {k: p.get(k) for k in ("outcome", "path", "want", "got", "msg", "text") if p.get(k) is not None})
    chk.cov["evaluations"] = nv
    chk.cov["distinct_nontrivial"] = len(cases)
    k = len(cases) // 2
    chk.sample({"library": L.describe(cases[k]["lib"]), "tokens": cases[k]["toks"][:12], "result": {"variants": res[k].get("variants"), "problems": res[k].get("nproblems")}})
    # self-test (iii): an altered expectation must be reported
    st = json.loads(json.dumps(cases[3])); st["lib"]["fixed_mask"] = not st["lib"]["fixed_mask"]
    q = vlib.harness("lef_s2i", [st], chk.workdir, tag="selftest")[0]
    chk.require(q["nproblems"] > 0, "replayer did not notice an altered expectation")
    return chk.finish(
        "model_checking",
        rule="libraries: every header statement, UNITS entry, PROPERTYDEFINITIONS form, SITE, fixed/generated VIA, MACRO statement "
             "(all 29 CLASS forms, FOREIGN forms x 8 orientations, ...), PIN attribute (9 antenna keys with/without LAYER ...), PORT and "
             "LAYER geometry form (RECT/POLYGON/PATH x MASK x ITERATE, VIA) alone and all together, x statement order forward/reversed "
             "x END LIBRARY present/absent; each under 60 lexical variants. distinct = distinct (library, order, endlib); evaluations "
             "= texts parsed.",
        assumptions=["names start with a letter; ';' is whitespace-separated (the reader's documented subset)",
                     "antenna keywords are rendered in upper case (they are stored as written)",
                     "string-literal values are held with their quotes (the data model's convention); BEGINEXT bodies compare as token lists",
                     "decimals compare by value; exponent spellings are not LEF"],
        extra={"exhaustive": True})


def replay(chk, path):
    print(open(path).read())
    return 0
