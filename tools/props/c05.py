"""C05 — LEF write-then-read returns the library that was written.

Inputs are exactly "the image of the reader": every library obtained by reading the generated LEF texts of
C04 (specs/lef/LefSyntax.tla, MC_LefGen.tla).  Oracle: writing succeeds, re-reading succeeds, the result is
equal (== and projection).  A writer error is a violation here (the statement requires success).
"""
import json
import vlib
from . import lefcommon as L


def run(chk):
    cases = L.generate(chk)
    res = vlib.harness("lef_s2i", cases, chk.workdir, timeout_ms=30000)
    n = 0
    for c, q in zip(cases, res):
        if q.get("outcome") != "ok":
            chk.violation("writer-or-reader-crash", "lef21", {"lib": L.describe(c["lib"])}, q)
            continue
        n += 1
        for p in q["problems"]:
            if p["stage"] not in ("write", "reread"):
                continue
            chk.violation(L.klass(p), "lef21::write", {"lib": L.describe(c["lib"])},
                          {k: p.get(k) for k in ("outcome", "path", "want", "got", "msg", "written") if p.get(k) is not None})
    chk.cov["evaluations"] = n
    chk.cov["distinct_nontrivial"] = len(cases)
    # ---- extended coverage: the written text against the LEF grammar acceptor (specs/lef/LefGrammar.tla)
    from . import lefgrammar
    chk.cov["grammar_texts"] = lefgrammar.stage(chk, cases)
    k = len(cases) // 2
    chk.sample({"library": L.describe(cases[k]["lib"]), "result": {"problems": res[k].get("nproblems")}})
    return chk.finish(
        "model_checking",
        rule="libraries in the image of the reader: the parse results of every C04 case (every construct alone and all together, "
             "versions 5.3..5.8); each distinct read result is written and re-read. distinct = generated cases.",
        assumptions=["as C04", "a library that the reader mis-read is still a library the reader can produce: it is written and re-read too"],
        extra={"exhaustive": True})


def replay(chk, path):
    print(open(path).read())
    return 0
