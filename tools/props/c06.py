"""C06 — importing GDSII into the raw model preserves the flattened geometry.

Specification: specs/raw/GdsSemantics.tla (meaning of BOUNDARY/BOX/PATH/SREF/AREF/TEXT as a flattening
function over the placement algebra D4 and the exact containment of Contains; MustErr for dangling and
cyclic references, non-positive rows/columns, empty coordinate lists, magnification) and
MC_GdsSemantics.tla (hierarchies in several listing orders x 8 x 8 orientations, every rectangle point
order, arrays 1x1..3x3 x 8 orientations, labels in/on/outside shapes, malformed libraries).
S->I: each library is built as a gds21 value, imported with Library::from_gds, every cell flattened with
Layout::flatten; the canonical bag of (layer, datatype, shape) must equal the specification's, nets and
annotations as predicted; an error is always acceptable, a panic or a silently different result is not.
"""
import os, json
import vlib
from vlib import SPECS
from . import canon

D = os.path.join(SPECS, "raw")


def brief(lib):
    return [{"name": s["name"], "elems": [e["k"] + ("->" + e["name"] if "name" in e else "") for e in s["elems"]]} for s in lib]


def features(lib):
    f = set()
    for s in lib:
        for e in s["elems"]:
            if e["k"] == "aref":
                f.add("aref")
                if e.get("angle"):
                    f.add("aref-rotated")
                if e.get("refl"):
                    f.add("aref-reflected")
                if e["o"][1] != e["c"][1] or e["o"][0] != e["w"][0]:
                    f.add("aref-rotated-lattice")
            if e["k"] == "sref" and (e.get("angle") or e.get("refl")):
                f.add("sref-oriented")
            if e["k"] in ("sref", "aref") and e.get("mag", "none") != "none":
                f.add("mag:" + e["mag"])
            if e["k"] == "text":
                f.add("text")
    return f


def run(chk):
    thorough = chk.tier == "thorough"
    cfg = os.path.join(chk.workdir, "gdssem.cfg")
    ndeep = 5000 if chk.tier == "thorough" else 25
    open(cfg, "w").write(f"SPECIFICATION Spec\nCONSTANT NDeep = {ndeep}\nINVARIANTS CountOK QuadPointsOK Emit\nCHECK_DEADLOCK FALSE\n")
    r = chk.tlc.check(os.path.join(D, "MC_GdsSemantics.tla"), cfg, timeout=3600)
    chk.add_tlc("MC_GdsSemantics hierarchies, arrays, labels, malformed libraries", r)
    chk.tlc_must_pass("MC_GdsSemantics", r)
    cases = r.cases
    for i, c in enumerate(cases):
        c["id"] = i
    chk.require(len(cases) >= 300 and sum(1 for c in cases if c["must_err"]) >= 8, "case set incomplete")
    # big arrays: descriptor-only cases (count + corner placements), built here from the same lattice formula
    res = vlib.harness("gds_to_raw", [{"id": c["id"], "lib": c["lib"]} for c in cases], chk.workdir, timeout_ms=20000)
    for c, q in zip(cases, res):
        chk.cov["evaluations"] += 1
        judge(chk, c, q)
    big = big_array_cases()
    res2 = vlib.harness("gds_to_raw", [{"id": b["id"], "lib": b["lib"]} for b in big], chk.workdir, tag="bigarrays", timeout_ms=60000)
    for b, q in zip(big, res2):
        chk.cov["evaluations"] += 1
        judge_big(chk, b, q)
    k = 5
    chk.sample({"gds": brief(cases[k]["lib"]), "expected_cells": [{"name": x["name"], "flat_shapes": len(x["flat"])} for x in cases[k]["cells"]],
                "import_outcome": res[k]["outcome"]})
    # self-test (iii): altered expectation must be noticed
    st = next(c for c in cases if c["cells"] and c["cells"][0]["flat"])
    st = json.loads(json.dumps(st)); st["cells"][0]["flat"][0]["pts"][0][0] += 1
    before = len(chk.violations) + sum(chk.known_hits.values())
    q = vlib.harness("gds_to_raw", [{"id": "st", "lib": st["lib"]}], chk.workdir, tag="selftest")[0]
    probe = vlib.Check.__new__(vlib.Check); probe.violations = []; probe.known = []; probe.known_hits = {}
    judge(probe, st, q)
    chk.require(len(probe.violations) > 0 or q["outcome"] == "err", "comparison did not notice an altered expectation")
    chk.cov["distinct_nontrivial"] = len(cases) + len(big)
    return chk.finish(
        "model_checking",
        rule="3-level hierarchies (64 orientation pairs x 3 listing orders; shared sub-cells in all 6 orders), every rectangle/L-polygon "
             "point rotation and direction, boxes, paths, arrays 1x1..3x3 x 8 orientations (+ mirrored negative pitch, rotated lattice), "
             "labels strictly inside / on an edge / on a vertex / outside / on another layer / two shapes one net, 11 malformed libraries, "
             "big arrays 200x200, 1x32767, 32767x2 (count + corner placements).",
        assumptions=["right-angle orientations only (general angles: C12)", "array pitches divide exactly",
                     "an Err result is always acceptable (the statement allows it); must-err cases require Err",
                     "one net per shape (overlapping differently-named labels are ambiguous by design and not generated)"],
        extra={"exhaustive": True})


def judge(chk, c, q):
    lib = c["lib"]
    feats = sorted(features(lib))
    desc = {"gds": brief(lib), "features": feats}
    oc = q.get("outcome")
    if oc in ("panic", "abort", "timeout", "not-run"):
        why = "malformed:" if c["must_err"] else ""
        chk.violation(f"import-{oc}:{why}{'+'.join(feats)}", "GdsImporter", desc, {"msg": q.get("msg"), "loc": q.get("loc")})
        return
    if oc == "err" or c.get("lenient"):
        return
    if c["must_err"]:
        chk.violation("malformed-library-imported-without-error:" + "+".join(feats), "GdsImporter", desc, {"outcome": oc})
        return
    got = {x["name"]: x for x in q["cells"]}
    for exp in c["cells"]:
        g = got.get(exp["name"])
        if g is None:
            chk.violation("cell-missing", "GdsImporter", desc, {"cell": exp["name"]})
            continue
        if isinstance(g.get("flat"), dict):
            chk.violation("flatten-failed:" + "+".join(feats), "Layout::flatten", desc, g["flat"])
            continue
        eb, gb = canon.bag(exp["flat"]), canon.bag(g.get("flat", []))
        if eb != gb:
            missing = [x for x in eb if x not in gb][:2]
            extra = [x for x in gb if x not in eb][:2]
            kind = "placement-dropped" if len(gb) < len(eb) else "geometry-differs"
            chk.violation(f"{kind}:{'+'.join(feats)}", "GdsImporter", desc,
                          {"cell": exp["name"], "expected_count": len(eb), "got_count": len(gb), "missing": missing, "unexpected": extra})
            continue
        # nets of own shapes
        struct = next(s for s in lib if s["name"] == exp["name"])
        own_got = {}
        for e in g.get("own", []):
            own_got.setdefault(repr(canon.canon_elem(e)), []).append(e.get("net"))
        for i, labels in enumerate(exp["nets"]):
            e = struct["elems"][i]
            if e["k"] not in ("boundary", "box", "path"):
                continue
            key = repr(canon.canon_elem({"layer": e["layer"], "dt": e["dt"], "k": "path" if e["k"] == "path" else "polygon",
                                         "pts": e["pts"], "width": e.get("width", 0)}))
            want = sorted(set(l.lower() for l in labels))
            gotn = own_got.get(key, [None])
            have = sorted(set(n for n in gotn if n))
            if want != have:
                chk.violation("net-label-wrong", "GdsImporter::import_layout", desc, {"cell": exp["name"], "shape": key, "want": want, "got": have})
        ea = sorted((a["str"], tuple(a["at"])) for a in exp["annots"])
        ga = sorted((a["str"], tuple(a["at"])) for a in g.get("annots", []))
        if ea != ga:
            chk.violation("annotations-differ", "GdsImporter::import_layout", desc, {"cell": exp["name"], "want": ea, "got": ga})


def big_array_cases():
    out = []
    leaf = {"name": "leaf", "elems": [{"k": "boundary", "layer": 1, "dt": 0, "pts": [[0, 0], [2, 0], [2, 1], [0, 1], [0, 0]]}]}
    for (cols, rows) in ((200, 200), (1, 32767), (32767, 2), (300, 300)):
        px, py = 3, 4
        top = {"name": "top", "elems": [{"k": "aref", "name": "leaf", "o": [5, 6], "c": [5 + px * cols, 6], "w": [5, 6 + py * rows],
                                         "cols": cols, "rows": rows, "refl": False, "angle": 0, "mag": "none"}]}
        corners = [(0, 0), (cols - 1, 0), (0, rows - 1), (cols - 1, rows - 1), (cols // 2, rows // 2)]
        out.append({"id": f"big{cols}x{rows}", "lib": [top, leaf], "count": cols * rows,
                    "must_have": [("rect", 5 + i * px, 6 + j * py, 5 + i * px + 2, 6 + j * py + 1) for (i, j) in corners]})
    return out


def judge_big(chk, b, q):
    desc = {"array": b["id"]}
    oc = q.get("outcome")
    if oc in ("panic", "abort", "timeout", "not-run"):
        chk.violation(f"import-{oc}:big-aref", "GdsImporter::import_instance_array", desc, {"msg": q.get("msg"), "loc": q.get("loc")})
        return
    if oc == "err":
        return
    top = next((x for x in q["cells"] if x["name"] == "top"), None)
    flat = top.get("flat") if top else None
    if not isinstance(flat, list):
        chk.violation("flatten-failed:big-aref", "Layout::flatten", desc, {"flat": flat})
        return
    shapes = set(canon.canon_elem(e)[2] for e in flat)
    if len(flat) != b["count"] or any(tuple(m) not in shapes for m in b["must_have"]):
        chk.violation("placement-dropped:big-aref", "GdsImporter::import_instance_array", desc,
                      {"expected_count": b["count"], "got_count": len(flat), "missing": [m for m in b["must_have"] if tuple(m) not in shapes][:3]})


def replay(chk, path):
    print(open(path).read())
    return 0
