"""C07 — raw layout exported to GDSII and imported back is unchanged.

Specification: specs/raw/RawGds.tla (export obligations per cell: SREF per instance, closed BOUNDARY per
rectangle/polygon, OPEN PATH with its width, layer/purpose numbers, one TEXT per named shape on the layer's
Label purpose at a point INSIDE the shape by exact geometry) and MC_RawGds.tla (shape/net/layer/unit/
hierarchy space; invariant: every vertex of a shape is inside it, so a label location always exists).
I->S: the structure the crate exports for every cell is validated against ExportProblem by TLC.
S->I: from_gds(to_gds(lib)) is compared with lib: units, cells, instances (target, location, reflection,
angle mod 360, None = 0), shapes in canonical form on (layer number, purpose number), nets lower-cased.
"""
import os, json
import vlib
from vlib import SPECS, write_ndjson
from . import canon

D = os.path.join(SPECS, "raw")


def shape_kind(lib):
    ks = set()
    for c in lib["cells"]:
        for e in c["elems"]:
            ks.add(e["k"] + ("+net" if e["net"] else ""))
        if c["insts"]:
            ks.add("insts")
    return "+".join(sorted(ks))


def inst_key(i):
    a = i.get("angle")
    a = 0 if a is None or a == -1 else int(round(a)) % 360
    return (i["cell"], tuple(i["loc"]), bool(i["refl"]), a)


def own_bag(cell):
    return sorted(repr((canon.canon_elem(e), (e.get("net") or "").lower())) for e in cell.get("own", []))


def run(chk):
    W, tlc = chk.workdir, chk.tlc
    # the wide arithmetic behind "inside" at the far end of the coordinate range: tied to the plain one and to algebra
    wcfg = os.path.join(W, "widecontains.cfg")
    open(wcfg, "w").write("SPECIFICATION Spec\nINVARIANTS SmallAgree Identities InsideAgree FarAgree NearMiss\nCHECK_DEADLOCK FALSE\n")
    r = tlc.check(os.path.join(vlib.SPECS, "geom", "MC_WideContains.tla"), wcfg, timeout=3600, workers=4)
    chk.add_tlc("MC_WideContains (limb arithmetic = plain arithmetic where both exist; algebraic identities at 2^30)", r)
    chk.tlc_must_pass("MC_WideContains", r)
    cfg = os.path.join(W, "rawgds.cfg")
    ndeep = 3000 if chk.tier == "thorough" else 25
    open(cfg, "w").write(f"SPECIFICATION Spec\nCONSTANT NDeep = {ndeep}\nINVARIANTS VerticesInside ShapesSimple Disjoint Emit\nCHECK_DEADLOCK FALSE\n")
    r = tlc.check(os.path.join(D, "MC_RawGds.tla"), cfg, timeout=3600)
    chk.add_tlc("MC_RawGds shapes x nets x layers x units x hierarchies", r)
    chk.tlc_must_pass("MC_RawGds", r)
    cases = r.cases
    for i, c in enumerate(cases):
        c["id"] = i
    chk.require(len(cases) >= 350 and sum(1 for c in cases if c["lib"]["cells"][0]["name"] == "w") >= 14, "case set incomplete")
    res = vlib.harness("raw_gds_rt", cases, W, timeout_ms=20000)
    events = []
    for c, q in zip(cases, res):
        chk.cov["evaluations"] += 1
        lib = c["lib"]
        desc = {"contents": shape_kind(lib), "first_shape": (lib["cells"][0]["elems"] or [None])[0], "units": lib["units"]}
        oc = q.get("outcome")
        if oc in ("panic", "abort", "timeout", "export-panic"):
            chk.violation("export-panic:" + shape_kind(lib), "GdsExporter", desc, {"msg": q.get("msg"), "loc": q.get("loc")})
            continue
        if oc == "export-err":
            klass = "label-location-not-found" if "No valid label location" in (q.get("msg") or "") else "export-error:" + shape_kind(lib)
            chk.violation(klass, "GdsExporter", desc, {"msg": q.get("msg")})
            continue
        if oc != "ok":
            raise vlib.ToolError(f"harness glue failure: {q}")
        for ex in q["exported"]:
            if not ex["struct_found"]:
                chk.violation("cell-not-exported", "GdsExporter", desc, {"cell": ex["cell"]["name"]})
                continue
            events.append({"id": f"{c['id']}:{ex['cell']['name']}", "cell": ex["cell"], "gds": ex["gds"]})
        b = q["back"]
        if b["outcome"] != "ok":
            chk.violation(f"reimport-{b['outcome']}:units-{lib['units']}" if "Units" in (b.get("msg") or "") else f"reimport-{b['outcome']}:{shape_kind(lib)}",
                          "GdsImporter", desc, {"msg": b.get("msg")})
            continue
        if b["units"] != q["units"]:
            chk.violation("units-changed", "gds units", desc, {"before": q["units"], "after": b["units"]})
        before = {x["name"]: x for x in q["before"]}
        after = {x["name"]: x for x in b["cells"]}
        if set(before) != set(after):
            chk.violation("cells-differ", "raw<->gds", desc, {"before": sorted(before), "after": sorted(after)})
            continue
        for n, bc in before.items():
            ac = after[n]
            if sorted(map(inst_key, bc.get("insts", []))) != sorted(map(inst_key, ac.get("insts", []))):
                chk.violation("instances-differ", "raw<->gds", desc, {"cell": n, "before": bc.get("insts"), "after": ac.get("insts")})
            bb, ab = own_bag(bc), own_bag(ac)
            if bb != ab:
                nets_only = sorted(x.rsplit(",", 1)[0] for x in bb) == sorted(x.rsplit(",", 1)[0] for x in ab)
                paths = any("'path'" in x for x in bb)
                klass = "net-lost-or-changed" if nets_only else ("path-changed" if paths else "shape-changed")
                chk.violation(klass + ":" + shape_kind(lib), "raw<->gds", desc, {"cell": n, "before": bb[:3], "after": ab[:3]})
    # ---- I->S: export obligations
    tf = os.path.join(W, "export.ndjson")
    write_ndjson(tf, events)
    tmod, tcfg = os.path.join(D, "Trace_RawGds.tla"), os.path.join(D, "Trace_RawGds.cfg")
    r = tlc.trace(tmod, tcfg, tf, mem="8g")
    chk.add_tlc(f"Trace_RawGds ({len(events)} exported cells)", r)
    chk.tlc_must_pass("Trace_RawGds", r)
    chk.cov["traces_validated_against_impl"] = len(events)
    byid = {e["id"]: e for e in events}
    for kind, body in r.lines:
        if kind != "BAD":
            continue
        b = json.loads(json.loads(body))
        e = byid[b["id"]]
        reason = b["reason"]
        if reason.startswith("prop:"):
            chk.violation("export-" + reason[5:], "GdsExporter", {"cell": e["cell"]["name"], "elems": e["cell"]["elems"][:2]}, {"gds": e["gds"][:4]})
        else:
            chk.model_drift(f"exported structure differs from RawGds positional model: {reason} ({b['id']})")
    # self-test (ii): a label moved outside its shape must be rejected
    ev = next(e for e in events if any(g["k"] == "text" for g in e["gds"])
              and all(abs(v) < 500 for el in e["cell"]["elems"] for pt in el["pts"] for v in pt))
    bad = json.loads(json.dumps(ev))
    for g in bad["gds"]:
        if g["k"] == "text":
            g["at"] = [g["at"][0] + 1000, g["at"][1]]
    write_ndjson(tf, [bad])
    r2 = tlc.trace(tmod, tcfg, tf)
    chk.require(any(k == "BAD" and "label-outside" in body for k, body in r2.lines), "a label outside its shape was accepted by RawGds")
    chk.sample({"raw_cell": events[0]["cell"], "exported_gds": events[0]["gds"]})
    chk.cov["distinct_nontrivial"] = len(cases)
    return chk.finish(
        "model_checking",
        rule="one-shape libraries: 11 polygons (L, U, T, staircase, 45-degree octagon and diamond, triangles, slivers, general quad, "
             "chevron) from every start vertex in both directions x {no net, net}; 8 rectangles x 4 nets; 6 Manhattan paths x 4 widths x "
             "{no net, net}; 4 units; multi-shape cells; 64 orientation pairs in a 3-level hierarchy; a user listed before its dependency.",
        assumptions=["shapes on one layer number are pairwise disjoint (labels are free-floating in GDSII)",
                     "polygons are simple; paths are Manhattan", "cells compare as a set by name (import lists dependencies first)"],
        extra={"exhaustive": True})


def replay(chk, path):
    print(open(path).read())
    return 0
