"""C08 — compiled gridded layouts realise exactly their tracks, cuts, vias and nets.

Level 1, one track: specs/tetris/Tracks.tla (segments tiling [0, Span]; Cut / Block / SetNet with their
error cases; invariant Tiling; action properties CutEffect and FailureIsNoop) and MC_Tracks.tla: every
sequence of up to 3 (4) operations over coordinates incl. both ends and points just outside, on wire and rail
tracks; each complete sequence is replayed on a real tracks::Track and compared after every operation.
Level 2, whole cell: specs/tetris/TetrisCompile.tla (period instantiation with offset / overlap / flip,
track positions, crossing centres, removed intervals, wire pieces, nets, vias; WellFormed = a tiling exists)
and MC_TetrisCompile.tla (15 stacks x outlines x feature sets); Library::to_raw must produce exactly the
specified rectangles (blocking per track or per period both accepted), or an error where no tiling exists.
"""
import os, json
import vlib
from vlib import SPECS

D = os.path.join(SPECS, "tetris")


def canon_segs(segs):
    out = []
    for s in segs:
        if s["start"] == s["stop"]:
            continue
        out.append((s["tp"], s["start"], s["stop"], s["net"]))
    return out


def canon_rects(rects):
    """drop zero-area rectangles, merge abutting same-net pieces of one track"""
    rs = []
    for r in rects:
        if "rect" not in r:
            rs.append(("other", r.get("other")))
            continue
        x0, y0, x1, y1 = r["rect"]
        if x0 == x1 or y0 == y1:
            continue
        rs.append((r["layer"], x0, y0, x1, y1, r["net"]))
    rs.sort()
    merged = True
    while merged:
        merged = False
        for i in range(len(rs)):
            for j in range(len(rs)):
                if i == j or rs[i][0] == "other" or rs[j][0] == "other":
                    continue
                a, b = rs[i], rs[j]
                if a[0] == b[0] and a[5] == b[5] and a[0] < 100:
                    if a[2] == b[2] and a[4] == b[4] and a[3] == b[1]:      # same y-extent, abutting in x
                        rs[i] = (a[0], a[1], a[2], b[3], a[4], a[5]); del rs[j]; merged = True; break
                    if a[1] == b[1] and a[3] == b[3] and a[4] == b[2]:      # same x-extent, abutting in y
                        rs[i] = (a[0], a[1], a[2], a[3], b[4], a[5]); del rs[j]; merged = True; break
            if merged:
                break
    return sorted(rs)


def stack_feats(c):
    f = []
    ms = c["stack"]["metals"]
    if any(m["flip"] and [e["w"] for e in m["entries"]] != [e["w"] for e in reversed(m["entries"])] for m in ms):
        f.append("flip-asymmetric")
    cell = c["cell"]
    if cell["insts"]:
        i = cell["insts"][0]
        f.append(f"inst-rh{int(i['rh'])}rv{int(i['rv'])}")
    if cell["cuts"]:
        f.append("cut")
    if cell["assigns"]:
        f.append("assign")
    return "+".join(f) or "plain"


def run(chk):
    thorough = chk.tier == "thorough"
    W, tlc = chk.workdir, chk.tlc
    # ---------------- level 1 (streamed: the 4-operation family is several gigabytes of cases; nothing is held in memory)
    fin = os.path.join(W, "track_ops.in.ndjson")
    nt = [0]
    sample_case = []
    fh = open(fin, "w")

    def on_case(c):
        c["id"] = nt[0]
        if nt[0] == 7:
            sample_case.append(c)
        nt[0] += 1
        fh.write(json.dumps(c, separators=(",", ":")) + "\n")
    for kind in ("wire", "rail"):
        cfg = os.path.join(W, f"tracks_{kind}.cfg")
        mo = 4 if (thorough and kind == "wire") else 3
        open(cfg, "w").write(f'SPECIFICATION Spec\nCONSTANTS Span = 8  MaxOps = {mo}  CoordSet = "small"  Kind = "{kind}"\n'
                             "INVARIANTS Tiling Emit\nPROPERTY EffectOK\nCHECK_DEADLOCK FALSE\n")
        r = tlc.check(os.path.join(D, "MC_Tracks.tla"), cfg, timeout=14400, mem="16g", on_case=on_case)
        chk.add_tlc(f"MC_Tracks {kind} track, all sequences of {mo} operations", r)
        chk.tlc_must_pass("MC_Tracks", r)
    if thorough:
        cfg = os.path.join(W, "tracks_full.cfg")
        open(cfg, "w").write('SPECIFICATION Spec\nCONSTANTS Span = 6  MaxOps = 2  CoordSet = "full"  Kind = "wire"\nINVARIANTS Tiling Emit\nPROPERTY EffectOK\nCHECK_DEADLOCK FALSE\n')
        r = tlc.check(os.path.join(D, "MC_Tracks.tla"), cfg, timeout=7200, on_case=on_case)
        chk.add_tlc("MC_Tracks every integer coordinate -1..7, 2 operations", r)
        chk.tlc_must_pass("MC_Tracks full", r)
    fh.close()
    chk.require(nt[0] > 100000, f"only {nt[0]} track sequences")
    nres = 0
    with open(fin) as fcases:
        for line, q in zip(fcases, vlib.harness_file("track_ops", fin, W, timeout_ms=20000)):
            c = json.loads(line)
            nres += 1
            if "id" in q and q["id"] != c["id"]:
                raise vlib.ToolError(f"track_ops: result {q.get('id')} does not belong to case {c['id']}")
            chk.cov["evaluations"] += 1
            if q.get("outcome") != "ok":
                chk.violation(f"track-{q.get('outcome')}", "tracks::Track", {"ops": [h["op"] for h in c["hist"]]}, {"msg": q.get("msg"), "loc": q.get("loc")})
                continue
            for k, (h, st) in enumerate(zip(c["hist"], q["steps"])):
                want_ok = h["outcome"] == "ok"
                got_ok = st["outcome"] == "ok"
                op = h["op"]
                neg = op["op"] in ("cut", "block") and op["a"] < 0
                if want_ok != got_ok:
                    klass = ("out-of-range-start-accepted" if (neg and got_ok) else ("valid-operation-rejected" if want_ok else "invalid-operation-accepted:" + h["outcome"]))
                    chk.violation(f"{klass}:{op['op']}", "tracks::Track::cut_or_block" if op["op"] != "setnet" else "tracks::Track::set_net",
                                  {"ops": [x["op"] for x in c["hist"][:k + 1]], "kind": c["kind"]}, {"model": h["outcome"], "code": st["outcome"]})
                    break
                if canon_segs(h["segs"]) != canon_segs(st["segs"]):
                    chk.violation(f"tiling-differs:{op['op']}", "tracks::Track", {"ops": [x["op"] for x in c["hist"][:k + 1]], "kind": c["kind"]},
                                  {"model": canon_segs(h["segs"]), "code": canon_segs(st["segs"])})
                    break
    if nres != nt[0]:
        raise vlib.ToolError(f"track_ops: {nres} results for {nt[0]} cases")
    chk.sample({"track_ops": [h["op"] for h in sample_case[0]["hist"]], "model_after_each": [[h["outcome"], canon_segs(h["segs"])] for h in sample_case[0]["hist"]]})
    for fn in (fin, os.path.join(W, "track_ops.out.ndjson")):
        if thorough and os.path.exists(fn):
            os.remove(fn)          # several gigabytes

    # ---------------- unbounded argument (Apalache): Tiling is inductive for ANY span and ANY integer arguments
    apa = os.path.join(SPECS, "apalache", "TracksInd.tla")
    base, t1 = vlib.apalache(apa, ["--cinit=ConstInit", "--init=BaseInit", "--inv=IndInv", "--length=0"])
    step, t2 = vlib.apalache(apa, ["--cinit=ConstInit", "--init=IndInit", "--inv=IndInv", "--length=1"])
    chk.cov["apalache_tiling_inductive"] = {"base_case": base, "inductive_step": step, "seconds": t1 + t2,
                                            "scope": "any Span >= 1, any integer arguments, tracks of up to 5 segments before the step"}
    vlib.log(f"[apalache] TracksInd: base {base}, step {step} ({t1 + t2:.1f}s)")
    # the specification's own invariant must be inductive; an Error here is a defect of the SPECIFICATION (tool error), never of the code
    chk.require(base != "Error" and step != "Error", "Apalache: Tiling is not inductive for Tracks (specification defect)")

    # ---------------- level 2
    cfg = os.path.join(W, "compile.cfg")
    nrand = 6000 if thorough else 300
    open(cfg, "w").write(f"SPECIFICATION Spec\nCONSTANT NRand = {nrand}\nINVARIANTS Emit\nCHECK_DEADLOCK FALSE\n")
    r = tlc.check(os.path.join(D, "MC_TetrisCompile.tla"), cfg, timeout=14400, mem="12g")
    chk.add_tlc("MC_TetrisCompile stacks x outlines x features", r)
    chk.tlc_must_pass("MC_TetrisCompile", r)
    ccases = r.cases
    for i, c in enumerate(ccases):
        c["id"] = i
    chk.require(len(ccases) > 5000 and any(not c["wf_period"] for c in ccases), "compile case set incomplete")
    res = vlib.harness("tetris_compile", [{"id": c["id"], "stack": c["stack"], "cell": c["cell"]} for c in ccases], W, timeout_ms=20000)
    unexpected_err = 0
    for c, q in zip(ccases, res):
        chk.cov["evaluations"] += 1
        feats = stack_feats(c)
        desc = {"features": feats, "cell": c["cell"], "metals": [[m["dir"], m["flip"], m["offset"], [f"{e['tt']}{e['w']}" for e in m["entries"]]] for m in c["stack"]["metals"]]}
        oc = q.get("outcome")
        if oc in ("panic", "abort", "timeout", "not-run"):
            chk.violation(f"compile-{oc}:{feats}", "RawExporter", desc, {"msg": q.get("msg"), "loc": q.get("loc")})
            continue
        if oc == "err":
            if c["wf_track"] and c["wf_period"]:
                unexpected_err += 1
            continue
        got = canon_rects(q["rects"])
        accept = []
        if c["wf_period"]:
            accept.append(canon_rects(c["rects_period"]))
        if c["wf_track"]:
            accept.append(canon_rects(c["rects_track"]))
        if not accept:
            if c.get("net_conflict_only"):
                # two different nets on one wire piece: outside the property's domain ("differing nets separated by cuts")
                chk.cov["out_of_domain_net_conflicts"] = chk.cov.get("out_of_domain_net_conflicts", 0) + 1
                continue
            chk.violation(f"no-tiling-exists-but-compiled:{feats}", "RawExporter", desc, {"got": got[:8]})
            continue
        if got not in accept:
            want = accept[0]
            missing = [x for x in want if x not in got][:4]
            extra = [x for x in got if x not in want][:4]
            nets_only = sorted(x[:5] for x in want) == sorted(x[:5] for x in got)
            vias = any(x[0] >= 100 for x in missing + extra) and all(x[0] >= 100 for x in missing + extra)
            kind = "via-misplaced" if vias else ("net-on-wrong-piece" if nets_only else "rectangles-differ")
            chk.violation(f"{kind}:{feats}", "RawExporter", desc, {"missing": missing, "unexpected": extra})
    if unexpected_err:
        chk.note(f"{unexpected_err} well-formed cells were rejected with an error (allowed by the statement)")
    k = next(i for i, c in enumerate(ccases) if c["cell"]["assigns"] and c["wf_period"])
    chk.sample({"stack_metals": ccases[k]["stack"]["metals"], "cell": ccases[k]["cell"], "expected_rects": ccases[k]["rects_period"][:10], "code": res[k].get("outcome")})
    # self-test (iii)
    st = json.loads(json.dumps(ccases[k])); st["rects_period"][0]["rect"][0] += 1; st["rects_track"] = st["rects_period"]
    q = vlib.harness("tetris_compile", [{"id": 0, "stack": st["stack"], "cell": st["cell"]}], W, tag="selftest")[0]
    chk.require(q["outcome"] == "ok" and canon_rects(q["rects"]) != canon_rects(st["rects_period"]), "comparison did not notice an altered expectation")
    chk.cov["distinct_nontrivial"] = nt[0] + len(ccases)
    return chk.finish(
        "model_checking",
        rule="level 1: every sequence of 3 (wire: 4 in thorough) operations from {cut, block} x pairs a<b over {-1,0,2,3,5,8,9} and set_net at those "
             "points, on a wire and on a rail track of span 8; level 2: 15 stacks (1-3 layers, H/V first, offsets 0/-2/+2, overlap, rails, repeat, "
             "asymmetric pattern, flip on/off, a pitch that does not divide the outline) x outlines 1..2 x 1..2 pitches x metals x {nothing, every "
             "sampled cut, every sampled assignment, two cuts, two nets separated by a cut, an instance at 6 positions x 4 reflections x 2 metal counts}.",
        assumptions=["cut, via and signal-track widths are even (otherwise 'centred' is not representable on the integer grid)",
                     "an instance must block the tracks it overlaps and may block the whole period (both accepted)",
                     "an error is always acceptable (the statement allows it); where no tiling exists it is required",
                     "zero-area rectangles are ignored; abutting same-net pieces of one track are merged before comparing",
                     "a cell that puts two different nets on one wire piece is outside the domain (\"differing nets separated by cuts\"): only totality is required there"],
        extra={"exhaustive": True})


def determinism_inputs(chk):
    """a few compile inputs for C20"""
    cfg = os.path.join(chk.workdir, "compile_det.cfg")
    open(cfg, "w").write("SPECIFICATION Spec\nCONSTANT NRand = 30\nINVARIANTS Emit\nCHECK_DEADLOCK FALSE\n")
    r = chk.tlc.check(os.path.join(D, "MC_TetrisCompile.tla"), cfg, timeout=7200, mem="12g")
    chk.add_tlc("MC_TetrisCompile (inputs)", r)
    chk.tlc_must_pass("MC_TetrisCompile (C20 inputs)", r)
    good = [c for c in r.cases if c["wf_period"] and (c["cell"]["assigns"] or c["cell"]["insts"])]
    out = [("tetris2raw", f"compile{i}", {"stack": c["stack"], "cell": c["cell"]}) for i, c in enumerate(good[::max(1, len(good) // 25)])]
    # fan-out: a top cell listed before the four cells it instantiates (and after them), on a two-layer stack
    two = next(c for c in r.cases if len(c["stack"]["metals"]) == 2 and c["wf_period"])
    insts = [{"w": 1, "h": 1, "m": 1, "x": k, "y": k, "rh": False, "rv": False} for k in range(4)]
    for pf in (True, False):
        cell = {"nx": 4, "ny": 4, "metals": 2, "cuts": [], "assigns": [], "insts": insts, "parent_first": pf}
        out.append(("tetris2raw", f"fanout-{'parent' if pf else 'children'}-first", {"stack": two["stack"], "cell": cell}))
    return out


def replay(chk, path):
    print(open(path).read())
    return 0
