"""C09 — relative placement puts each instance exactly where its relation says.

Specification: specs/tetris/Placer.tla (reflection-aware bounding boxes; Touches/Flush; the origin defined
declaratively by CHOOSE and in closed form, equal and unique as a TLC invariant; PlaceNext as the placement
step, every interleaving explored: confluence, order validity = DepOrderProps!ValidOrder, cycles block;
ArrayElems) and MC_Placer.tla (every single relation; chains/trees of three in every listing order; cycles;
arrays incl. nested and reflected).
S->I: each program is built as a tetris Library and run through Placer::place; every instance must be
absolute and equal to the specification's location; cyclic programs must be errors (no hang, no overflow).
I->S: the placement order observed in layout.instances is validated step by step by Trace_Placer.
"""
import os, json
import vlib
from vlib import SPECS, write_ndjson

D = os.path.join(SPECS, "tetris")
INV = "RelationsHold Confluent OkMeansAcyclic ErrMeansCyclic CycleBlocks OrderValid ClosedFormIsTheSolution Emit"


def relkey(case):
    for i in case["insts"]:
        if i["place"]["k"] == "rel":
            p = i["place"]
            return f"{p['side']}/{p['align']}/{p['sep']['k']}/placed-rh{int(i['rh'])}rv{int(i['rv'])}"
    return "abs"


def run(chk):
    W, tlc = chk.workdir, chk.tlc
    cases = []
    # unbounded argument (Apalache): for ALL integer sizes, positions and separations the closed-form origin is the one and
    # only origin that satisfies Touches and Flush (TLC checks the same equivalence inside a window around the reference)
    apa = os.path.join(vlib.SPECS, "apalache", "PlacerInd.tla")
    oc, secs = vlib.apalache(apa, ["--init=AnyInit", "--inv=ClosedFormIsTheSolution", "--length=0"])
    chk.cov["apalache_closed_form_is_the_solution"] = {"outcome": oc, "seconds": secs, "scope": "all integers; 4 sides x orthogonal alignments x reflections"}
    vlib.log(f"[apalache] PlacerInd: {oc} ({secs:.1f}s)")
    chk.require(oc != "Error", "Apalache: the closed-form origin is not the unique solution of the placement relation (specification defect)")
    nrand = 1500 if chk.tier == "thorough" else 40
    for scope in ("single", "multi", "arrays", "random"):
        cfg = os.path.join(W, f"placer_{scope}.cfg")
        open(cfg, "w").write(f'SPECIFICATION Spec\nCONSTANTS Scope = "{scope}"  NRand = {nrand}\nINVARIANTS {(INV + " OutlinesMatchSizes") if scope != "arrays" else "Emit"}\nCHECK_DEADLOCK FALSE\n')
        r = tlc.check(os.path.join(D, "MC_Placer.tla"), cfg, timeout=7200, mem="12g")
        chk.add_tlc(f"MC_Placer scope={scope} (all placement orders)", r)
        chk.tlc_must_pass("MC_Placer " + scope, r)
        for c in r.cases:
            c["scope"] = scope
        cases += r.cases
    # how the instances reach the placer (`instances` list / general `places` list next to Port placeables / mixed) must not
    # matter: the multi-instance and random programs are also run in the other two forms
    extra = []
    for c in cases:
        if c["scope"] in ("multi", "random"):
            for via in (1, 2):
                d = dict(c); d["via_places"] = via; d["scope"] = f"{c['scope']}/places{via}"
                extra.append(d)
        if c["scope"] == "arrays" and len(c["arrays"]) > 1:
            d = dict(c); d["share_defs"] = False; d["scope"] = "arrays/unshared"
            extra.append(d)
    cases += extra
    for i, c in enumerate(cases):
        c["id"] = i
    chk.require(len(cases) >= 4000 and any(c["cyclic"] for c in cases) and any(c["arrays"] for c in cases), "case set incomplete")
    res = vlib.harness("placer", cases, W, timeout_ms=20000)
    events = []
    for c, q in zip(cases, res):
        chk.cov["evaluations"] += 1
        desc = {"scope": c["scope"], "relation": relkey(c), "insts": [i["name"] for i in c["insts"]]}
        oc = q.get("outcome")
        if oc in ("panic", "abort", "timeout", "not-run"):
            chk.violation(f"placer-{oc}:{'cyclic' if c['cyclic'] else relkey(c)}", "Placer::place", desc, {"msg": q.get("msg"), "loc": q.get("loc")})
            continue
        if c["cyclic"]:
            if oc != "err":
                chk.violation("cyclic-program-accepted", "Placer::place", desc, {"outcome": oc})
        elif oc == "err":
            chk.violation("acyclic-program-rejected:" + relkey(c), "Placer::place", desc, {"msg": q.get("msg")})
        else:
            got = {p["name"]: p for p in q["placed"]}
            if c["arrays"]:
                want = [(tuple(e["xy"]), e["rh"], e["rv"], e["cell"]) for elems in c["array_elems"] for e in elems]
                have = [(tuple(p["xy"]) if isinstance(p["xy"], list) else p["xy"], p["rh"], p["rv"], p["cell"]) for p in q["placed"]]
                if sorted(want) != sorted(have):
                    a = c["arrays"][-1]
                    chk.violation(f"array-expansion-wrong:rh{int(a['rh'])}rv{int(a['rv'])}:{'nested' if a['inner'] else 'flat'}:{len(c['arrays'])}-instances", "Placer::flatten_array_inst",
                                  {"arrays": c["arrays"]}, {"want": want[:6], "got": have[:6], "count_want": len(want), "count_got": len(have)})
                continue
            for e in c["expect"]:
                p = got.get(e["name"])
                if p is None:
                    chk.violation("instance-lost", "Placer::place", desc, {"name": e["name"]})
                elif p["xy"] != e["xy"]:
                    chk.violation("wrong-location:" + relkey(c), "Placer::resolve_instance_place", desc, {"instance": e["name"], "want": e["xy"], "got": p["xy"]})
        if not c["arrays"] and oc in ("ok", "err"):
            events.append({"e": "prog", "id": str(c["id"]), "cells": c["cells"], "insts": c["insts"]})
            for p in q.get("placed", []):
                if isinstance(p["xy"], list):
                    events.append({"e": "placed", "name": p["name"], "xy": p["xy"]})
            events.append({"e": "end", "status": oc})
    # ---- I->S
    tf = os.path.join(W, "placer_trace.ndjson")
    write_ndjson(tf, events)
    tmod, tcfg = os.path.join(D, "Trace_Placer.tla"), os.path.join(D, "Trace_Placer.cfg")
    r = tlc.trace(tmod, tcfg, tf, mem="8g", timeout=7200)
    chk.add_tlc(f"Trace_Placer ({sum(1 for e in events if e['e'] == 'prog')} recorded placements, {len(events)} events)", r)
    chk.tlc_must_pass("Trace_Placer", r)
    chk.cov["traces_validated_against_impl"] = sum(1 for e in events if e["e"] == "prog")
    for kind, body in r.lines:
        if kind == "BAD":
            b = json.loads(json.loads(body))
            c = cases[int(b["id"])]
            if b["reason"].startswith("prop:"):
                chk.violation("trace-" + b["reason"][5:], "Placer::place", {"relation": relkey(c), "insts": [i["name"] for i in c["insts"]]}, b)
            else:
                chk.model_drift(f"placement trace differs from Placer.tla: {b}")
    # self-test (ii)
    k0 = next(i for i, e in enumerate(events) if e["e"] == "placed")
    bad = [dict(e) for e in events[:events.index(next(e for e in events[k0:] if e["e"] == "end")) + 1]]
    for e in bad:
        if e["e"] == "placed":
            e["xy"] = [e["xy"][0] + 1, e["xy"][1]]
    write_ndjson(tf, bad)
    r2 = tlc.trace(tmod, tcfg, tf)
    chk.require(any(k == "BAD" for k, _ in r2.lines), "a moved instance was accepted by Trace_Placer")
    k = 100
    chk.sample({"program": cases[k]["insts"], "expected": cases[k]["expect"], "code": res[k]})
    chk.cov["distinct_nontrivial"] = len(cases)
    return chk.finish(
        "model_checking",
        rule="3072 single-relation programs (4 sides x 2 orthogonal alignments x 3 separation kinds x 4 x 4 reflections x 2 x 2 cell sizes x 2 "
             "listing orders); chains (36 relation pairs x 4 reflection pairs x 6 listing orders) and trees of three; 1-, 2- and 3-cycles incl. a "
             "cycle behind an acyclic prefix; 144 arrays (count 1..4 x 3 pitches x 4 reflections x {flat, nested x 2}), 288 pairs of independently reflected array instances sharing (and not sharing) one definition. TLC explores every "
             "placement interleaving of each program.",
        assumptions=["references are instances located in the same layout (placement relative to an array or group reaches todo!() and is outside the statement)",
                     "alignment is orthogonal to the side; separation is given in the side's axis", "arrays are located absolutely"],
        extra={"exhaustive": True})


def replay(chk, path):
    print(open(path).read())
    return 0
