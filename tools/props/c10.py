"""C10 — the GDSII reader never crashes or hangs on any input bytes.

Specification: MC_GdsFaults.tla (a behaviour of the independent encoder followed by exactly one fault
action: truncation at every byte, length field set to 0/2/odd/too small/too large, zero-length payload,
record or data type replaced, record dropped, duplicated, swapped, spliced) with the model-level fact
HasEndlib; GdsReader.tla (the reader's I/O mechanism and the work bound).
S->I: every faulted stream is parsed through an instrumented source in a watched child process:
outcome must be Ok or Err; not HasEndlib => Err; Ok(lib) => lib can be written and read back equal.
I->S: read logs (sampled for generated streams, all for repository streams and noise) are validated by
TLC against GdsReader (offsets monotone, no empty request, nothing after ENDLIB, delivered <= length).
"""
import os, json, random
import vlib
from vlib import SPECS, write_ndjson
from . import gdscommon as G

D = os.path.join(SPECS, "gds")


def native_faults(data, rng, thorough):
    """the same fault descriptors applied natively to a repository stream (record boundaries by header arithmetic)"""
    recs, p = [], 0
    while p + 4 <= len(data):
        n = (data[p] << 8) | data[p + 1]
        if n < 4:
            break
        recs.append((p, n))
        p += n
    out = []
    idx = list(range(len(recs)))
    if not thorough and len(idx) > 150:
        idx = sorted(rng.sample(idx, 150))
    for i in idx:
        off, n = recs[i]
        for d in (-1, 0, 1):
            if 0 <= off + d < len(data):
                out.append(("truncate", off + d, data[:off + d]))
        for v in (0, 2, 3, 65535, n - 2, n + 2):
            if 0 <= v <= 65535:
                out.append((f"setlen={v}", i, data[:off] + bytes([v >> 8, v & 255]) + data[off + 2:]))
        out.append(("zeropayload", i, data[:off] + bytes([0, 4]) + data[off + 2:off + 4] + data[off + n:]))
        for t in (4, 17, 20, 255):
            out.append((f"setrtype={t}", i, data[:off + 2] + bytes([t]) + data[off + 3:]))
        for dty in (0, 3, 6, 7):
            out.append((f"setdtype={dty}", i, data[:off + 3] + bytes([dty]) + data[off + 4:]))
        out.append(("drop", i, data[:off] + data[off + n:]))
        out.append(("dup", i, data[:off + n] + data[off:off + n] + data[off + n:]))
        if i + 1 < len(recs):
            o2, n2 = recs[i + 1]
            out.append(("swap", i, data[:off] + data[o2:o2 + n2] + data[off:off + n] + data[o2 + n2:]))
    return out


def long_string_streams():
    """well-formed streams (built record by record here) whose every string-carrying record holds a long string of mixed
    character widths: 1-, 2-, 3- and 4-byte characters at varying byte offsets, so that whatever position a reader or an error
    path cuts, measures or pads at falls inside a multi-byte character for some of them"""
    import struct
    from .c15 import py_encode

    def rec(rt, dt, payload=b""):
        return struct.pack(">HBB", 4 + len(payload), rt, dt) + payload

    def s(text):
        b = text.encode("utf-8")
        return b + (b"\0" if len(b) % 2 else b"")

    def real(x):
        return struct.pack(">Q", py_encode(struct.unpack(">Q", struct.pack(">d", x))[0]))
    dates = struct.pack(">12h", 124, 1, 2, 3, 4, 5, 124, 1, 2, 3, 4, 5)
    out = []
    for k in (14, 30, 31, 47, 63, 119, 120, 127, 255, 256, 1023, 4095):
        for ch in ("\u00e9", "\u4e2d", "\U0001F600"):
            for shift in (0, 1):
                t = "a" * (k - shift) + ch * 3 + "tail" + ch
                b = rec(0, 2, struct.pack(">h", 600)) + rec(1, 2, dates) + rec(2, 6, s("L" + t)) + rec(3, 5, real(1e-3) + real(1e-9))
                b += rec(5, 2, dates) + rec(6, 6, s("S" + t))
                b += rec(8, 0) + rec(13, 2, struct.pack(">h", 1)) + rec(14, 2, struct.pack(">h", 0)) + rec(16, 3, struct.pack(">10i", 0, 0, 5, 0, 5, 5, 0, 5, 0, 0))
                b += rec(43, 2, struct.pack(">h", 7)) + rec(44, 6, s("P" + t)) + rec(17, 0)
                b += rec(12, 0) + rec(13, 2, struct.pack(">h", 2)) + rec(22, 2, struct.pack(">h", 0)) + rec(16, 3, struct.pack(">2i", 1, 1)) + rec(25, 6, s("T" + t)) + rec(17, 0)
                b += rec(10, 0) + rec(18, 6, s("R" + t)) + rec(16, 3, struct.pack(">2i", 3, 3)) + rec(17, 0)
                b += rec(7, 0) + rec(4, 0)
                out.append((f"long{k}-{shift}-{len(ch.encode('utf-8'))}", b))
    return out


def py_has_endlib(b):
    p = 0
    while True:
        if p + 4 > len(b):
            return False
        n = (b[p] << 8) | b[p + 1]
        if n < 4 or n % 2 or p + n > len(b):
            return False
        if b[p + 2] == 4:
            return True
        p += n


def run(chk):
    thorough = chk.tier == "thorough"
    W, tlc = chk.workdir, chk.tlc
    rng = random.Random(chk.seed)
    # ---- 1. TLC: every (stream, fault) pair
    cfg = os.path.join(W, "faults.cfg")
    open(cfg, "w").write("SPECIFICATION FSpec\n"
                         f"CONSTANTS MaxStructs = 1  MaxElems = 1  MaxProps = {1 if thorough else 0}  NProf = {2 if thorough else 1}  "
                         f"WithUnsupported = FALSE  TruncStep = {1 if thorough else 3}\n"
                         "INVARIANTS BaseHasEndlib TruncatedNever FEmit\nCHECK_DEADLOCK FALSE\n")
    fin = os.path.join(W, "faults.in.ndjson")
    meta = []
    fh = open(fin, "w")
    logged_every = 400 if thorough else 150

    def on_case(c):
        i = len(meta)
        want_log = (i % logged_every == 0)
        fh.write(json.dumps({"id": i, "bytes": c["bytes"], "want_log": want_log}, separators=(",", ":")) + "\n")
        meta.append((c["fault"], c["i"], c["v"], c["hasEndlib"], len(c["bytes"])))
    r = tlc.check(os.path.join(D, "MC_GdsFaults.tla"), cfg, timeout=14400, mem="16g", on_case=on_case)
    fh.close()
    chk.add_tlc("MC_GdsFaults every (stream, fault) pair", r)
    chk.tlc_must_pass("MC_GdsFaults", r)
    chk.require(len(meta) > 20000, f"only {len(meta)} faulted streams")
    kinds = {}
    for m in meta:
        kinds[m[0]] = kinds.get(m[0], 0) + 1
    chk.require(len(kinds) >= 11, f"fault kinds missing: {kinds}")
    chk.cov["fault_kinds"] = kinds

    # ---- 2. S->I
    logs = []
    outcomes = {}
    for q in vlib.harness_file("gds_fault", fin, W, timeout_ms=5000):
        i = q.get("id")
        chk.cov["evaluations"] += 1
        m = meta[i] if isinstance(i, int) and i < len(meta) else ("?", 0, 0, True, 0)
        desc = {"fault": m[0], "record": m[1], "value": m[2], "stream_len": m[4]}
        judge(chk, q, desc, m[3])
        outcomes[q.get("outcome")] = outcomes.get(q.get("outcome"), 0) + 1
        if "log" in q:
            logs.append((f"gen{i}", q))
    chk.cov["outcomes_generated"] = outcomes
    chk.sample({"fault": meta[1000][0], "record_index": meta[1000][1], "value": meta[1000][2], "hasEndlib": meta[1000][3]})

    # ---- 3. repository streams with native faults, and noise
    extra = []
    for fn in ("invalid_dates.gds", "sample1.gds"):
        path = os.path.join(vlib.REPO, "gds21", "resources", fn)
        if not os.path.exists(path) or os.path.getsize(path) == 0:
            continue
        data = open(path, "rb").read()
        for (name, i, b) in native_faults(data, rng, thorough):
            extra.append({"id": f"{fn}:{name}@{i}", "bytes": list(b), "want_log": False, "_he": py_has_endlib(b)})
    lss = long_string_streams()
    for (nm, data) in (lss if thorough else lss[::3]):
        extra.append({"id": f"valid-{nm}", "bytes": list(data), "want_log": False, "_he": True})
        for (name, i, b) in native_faults(data, rng, True):
            if name.startswith(("truncate", "setlen")) and not thorough and i % 3:
                continue
            extra.append({"id": f"{nm}:{name}@{i}", "bytes": list(b), "want_log": False, "_he": py_has_endlib(b)})
    # well-formed streams of the independent encoder in EVERY value profile (dates, strings, reals, flags), unfaulted: whatever
    # the reader returns for them must be stable under write and re-read (the third clause of the property)
    gen = G.generate(chk, thorough, want_unsupported=False, simulate=False)
    for c in gen[::(2 if thorough else 4)]:
        extra.append({"id": f"valid{c['id']}", "bytes": c["bytes"], "want_log": False, "_he": True})
    nn = 100000 if thorough else 4000
    for k in range(nn):
        extra.append({"id": f"noise{k}", "noise_seed": chk.seed * 1000003 + k, "len": rng.choice([0, 1, 3, 4, 5, 8, 17, 40, 100, 300]), "want_log": k % 20 == 0, "_he": None})
    fin2 = os.path.join(W, "extra.in.ndjson")
    with open(fin2, "w") as f:
        for c in extra:
            f.write(json.dumps({k: v for k, v in c.items() if k != "_he"}, separators=(",", ":")) + "\n")
    oc2 = {}
    for c, q in zip(extra, vlib.harness_file("gds_fault", fin2, W, timeout_ms=5000, tag="extra")):
        chk.cov["evaluations"] += 1
        oc2[q.get("outcome")] = oc2.get(q.get("outcome"), 0) + 1
        he = c["_he"]
        judge(chk, q, {"stream": c["id"]}, True if he is None else he)
        if "log" in q:
            logs.append((c["id"], q))
    chk.cov["outcomes_repo_and_noise"] = oc2

    # ---- 4. I->S: read logs against GdsReader.tla (also decides HasEndlib for noise)
    events = []
    for (i, q) in logs:
        if q.get("outcome") not in ("ok", "err"):
            continue
        events.append({"e": "stream", "id": str(i), "bytes": q["bytes"], "size": q["size"]})
        events.extend(q["log"])
        events.append({"e": "end", "result": q["outcome"]})
    tf = os.path.join(W, "readlog.ndjson")
    write_ndjson(tf, events)
    r = tlc.trace(os.path.join(D, "Trace_GdsReader.tla"), os.path.join(D, "Trace_GdsReader.cfg"), tf, mem="8g", timeout=7200)
    chk.add_tlc(f"Trace_GdsReader ({len(logs)} read logs, {len(events)} events)", r)
    if not r.ok:
        chk.model_drift(f"reader I/O trace not a behaviour of GdsReader.tla: {r.error} {r.lines[:2]}")
    else:
        chk.cov["traces_validated_against_impl"] = len(logs)
        for kind, body in r.lines:
            if kind == "BAD":
                b = json.loads(json.loads(body))
                if b["reason"].startswith("prop:"):
                    chk.violation("reader-io-" + b["reason"][5:], "GdsReader", {"stream": b["id"]}, b)
                else:
                    chk.model_drift(f"read log differs from GdsReader.tla: {b}")
    chk.cov["distinct_nontrivial"] = len(meta) + len(extra)
    return chk.finish(
        "fault_enumeration",
        rule="faulted streams = (stream of the independent encoder: one element, every optional-record subset) x (one fault: "
             "truncate at every [3rd] byte and the last 6, length field in {0,2,3,65534,65535,len-2,len+2}, zero payload, record "
             "type in {4,6,7,16,17,20,60,255}, data type 0..7, drop, duplicate, swap, splice), enumerated by TLC; the same faults "
             "natively on repository streams and on streams whose every string is long and of mixed character widths; random noise. All are distinct byte strings and non-trivial (a fault was applied).",
        assumptions=["time proportional to input length is decided as a work bound on the read log (calls <= length + 4, bytes "
                     "delivered <= length) plus a 5 s watchdog per stream, not by a clock",
                     "read logs are validated by TLC for a sample of generated streams; the scalar bounds are computed for all"])


def judge(chk, q, desc, has_endlib):
    oc = q.get("outcome")
    if oc in ("panic", "abort", "timeout", "not-run"):
        msg = (q.get("msg") or "")[:80]
        chk.violation(f"reader-{oc}", "GdsLibrary::from_bytes", desc, {"msg": q.get("msg"), "loc": q.get("loc")})
        return
    if oc not in ("ok", "err"):
        raise vlib.ToolError(f"unexpected harness outcome {q}")
    if oc == "ok" and not has_endlib:
        chk.violation("stream-without-ENDLIB-accepted", "GdsParser", desc, {"outcome": oc})
    if oc == "ok":
        rt = q.get("rt", {})
        if rt.get("outcome") in ("panic",) or (rt.get("stage") == "reread" and (rt.get("outcome") != "ok" or not rt.get("eq"))) \
                or rt.get("stage") == "second-read":
            chk.violation("returned-library-does-not-round-trip", "gds21", desc, rt)
    if not q.get("monotone", True) or q.get("empty_req") or q.get("delivered", 0) > q.get("size", 0) or q.get("calls", 0) > q.get("size", 0) + 4:
        chk.violation("work-bound-exceeded", "GdsReader", desc, {k: q.get(k) for k in ("size", "calls", "delivered", "monotone", "empty_req")})


def replay(chk, path):
    print(open(path).read())
    return 0
