"""C11 — the LEF reader never crashes or hangs on any input text.

Specifications: LefLexer.tla (the lexer as a state machine over character classes with explicit character
index AND byte offset; invariants: spans on character boundaries, non-empty, increasing, inside the text,
never more tokens than characters), MC_LefLexer (every string up to 5/6 characters over 15 class
representatives incl. 2-, 3- and 4-byte characters), MC_LefFaults (valid token lists of MC_LefGen with
exactly one token fault).
S->I: lexer: token types/spans/lines equal to the model's (difference in types/lines only = MODEL-DRIFT;
a span off a character boundary, a panic or a hang = VIOLATION); parser: every faulted text, every
character-boundary prefix of valid texts: outcome Ok | Err, also while formatting the error; Ok(lib) =>
write and re-read without a crash.  Linear time: token count <= character count (invariant) plus wall-clock
scaling of the three unbounded loops at n, 2n, 4n, 8n with the loose bound T(8n) <= 20 T(n) + 30 ms (n = 6000 / 12000 items, best of three).
"""
import os, json
import vlib
from vlib import SPECS
from . import lefcommon as L

D = os.path.join(SPECS, "lef")


def run(chk):
    thorough = chk.tier == "thorough"
    W, tlc = chk.workdir, chk.tlc
    # ---- 1. lexer model, exhaustive
    cfg = os.path.join(W, "lexer.cfg")
    open(cfg, "w").write(f"SPECIFICATION Spec\nCONSTANT MaxLen = {6 if thorough else 5}\nINVARIANTS Spans PosConsistent Emit\nCHECK_DEADLOCK FALSE\n")
    fin = os.path.join(W, "lex.in.ndjson")
    n = [0]
    fh = open(fin, "w")
    def on_case(c):
        c["id"] = n[0]; n[0] += 1
        fh.write(json.dumps(c, separators=(",", ":")) + "\n")
    r = tlc.check(os.path.join(D, "MC_LefLexer.tla"), cfg, timeout=14400, mem="24g", on_case=on_case)
    fh.close()
    chk.add_tlc(f"MC_LefLexer all strings up to {6 if thorough else 5} characters over 15 class representatives", r)
    chk.tlc_must_pass("MC_LefLexer", r)
    chk.require(n[0] > 300000, f"only {n[0]} lexer cases")
    drift = 0
    with open(fin) as f:
        for c, q in zip((json.loads(l) for l in f), vlib.harness_file("lef_lex", fin, W, timeout_ms=10000)):
            chk.cov["evaluations"] += 1
            if q.get("outcome") != "ok":
                chk.violation("lexer-" + str(q.get("outcome")), "LefLexer", {"chars": c["chars"]}, {"msg": q.get("msg"), "loc": q.get("loc")})
                continue
            if isinstance(q["parse"], dict):
                chk.violation("parser-panic-on-short-text", "LefParser", {"text": q["text"]}, q["parse"])
            lx = q["lex"]
            if lx["outcome"] == "panic":
                chk.violation("lexer-panic", "LefLexer", {"text": q["text"]}, lx)
                continue
            if lx["outcome"] == "ok" and not q["facts"]["spans_ok"]:
                chk.violation("token-span-off-character-boundary", "LefLexer", {"text": q["text"]}, lx)
                continue
            if lx["outcome"] == "ok" and q["facts"]["ntoks"] > q["facts"]["nchars"]:
                chk.violation("more-tokens-than-characters", "LefLexer", {"text": q["text"]}, lx)
            same = (lx["outcome"] == c["status"]) and (lx["outcome"] != "ok" or lx["toks"] == c["toks"])
            if not same:
                drift += 1
                if drift <= 5:
                    chk.model_drift(f"lexer differs from LefLexer.tla on {q['text']!r}: model {c['status']} {c['toks']} code {lx}")
            if chk.cov["evaluations"] == 5000:
                chk.sample({"text": q["text"], "model_tokens": c["toks"], "code": lx})
    chk.cov["lexer_drift_cases"] = drift

    # ---- 2. token faults on valid texts (TLC), prefixes (native)
    cfg = os.path.join(W, "faults.cfg")
    open(cfg, "w").write("SPECIFICATION FSpec\nCONSTANT NCompose = 0\nINVARIANTS FEmit\nCHECK_DEADLOCK FALSE\n")
    fin2 = os.path.join(W, "fault.in.ndjson")
    meta = []
    fh = open(fin2, "w")
    def on_fault(c):
        i = len(meta)
        fh.write(json.dumps({"id": i, "toks": c["toks"], "v": i}, separators=(",", ":")) + "\n")
        meta.append((c["fault"], c["i"]))
    r = tlc.check(os.path.join(D, "MC_LefFaults.tla"), cfg, timeout=7200, mem="12g", on_case=on_fault)
    fh.close()
    chk.add_tlc("MC_LefFaults every (valid text, token fault) pair", r)
    chk.tlc_must_pass("MC_LefFaults", r)
    chk.require(len(meta) > 30000, f"only {len(meta)} faulted texts")
    kinds = {}
    oc = {}
    for q in vlib.harness_file("lef_fault", fin2, W, timeout_ms=10000):
        chk.cov["evaluations"] += 1
        i = q.get("id")
        m = meta[i] if isinstance(i, int) else ("?", 0)
        kinds[m[0]] = kinds.get(m[0], 0) + 1
        judge(chk, q, {"fault": m[0], "token": m[1]})
        oc[q.get("outcome")] = oc.get(q.get("outcome"), 0) + 1
    chk.cov["fault_kinds"] = kinds
    chk.cov["fault_outcomes"] = oc
    chk.require(len(kinds) >= 5, f"fault kinds missing: {kinds}")

    cases = L.generate(chk)
    base = [c for c in cases if not c["rev"] and c["endlib"]]
    if not thorough:
        # every short text (header statements, units, single statements) and every third of the longer ones
        base = [c for c in base if len(c["toks"]) <= 40] + [c for c in base if len(c["toks"]) > 40][::3]
    # (the work of the prefix family is quadratic in the length of a text: of the texts of several thousand characters — long
    # quoted strings, long BEGINEXT bodies — two are enough here; all of them are in the fault family above)
    nchars = lambda c: sum(len(str(t.get("v", ""))) + 1 for t in c["toks"])
    longs = [c for c in base if nchars(c) > 1500]
    base = [c for c in base if nchars(c) <= 1500] + longs[:2]
    pc = [{"id": c["id"], "toks": c["toks"], "sep": s} for c in base for s in ((0, 4) if not thorough else (0, 1, 3, 4))]
    npre = 0
    for q in vlib.harness("lef_prefixes", pc, W, timeout_ms=60000):
        if q.get("outcome") != "ok":
            chk.violation("reader-" + str(q.get("outcome")), "lef21::parse", {"prefix-of-case": q.get("id")}, q)
            continue
        npre += q["prefixes"]
        for b in q["bad"]:
            judge(chk, b["o"], {"prefix_bytes": b["prefix_bytes"], "case": q["id"]})
    chk.cov["evaluations"] += npre
    chk.cov["prefixes"] = npre

    # ---- 3. scaling
    q = vlib.harness("lef_scaling", [{"id": 0, "n": 12000 if thorough else 6000}], W, timeout_ms=120000)[0]
    if q.get("outcome") != "ok":
        chk.violation("reader-" + str(q.get("outcome")) + "-on-long-input", "lef21::parse", {"scaling": True}, q)
    elif q.get("error"):
        raise vlib.ToolError(q["error"])
    else:
        for row in q["rows"]:
            t = row["times"]
            chk.stage("scaling " + row["kind"], n=row["n"], times_ms=[round(x * 1000, 2) for x in t])
            # linear time gives T(8n) = 8 T(n); a quadratic term dominating at these sizes gives 40..64.  The bound 20 T(n) + 30 ms
            # leaves a factor 2.5 for noise on the best of three runs
            if t[3] > 20 * t[0] + 0.03:
                chk.violation("super-linear-time", "LefParser", {"construct": row["kind"], "n": row["n"]}, {"times_s": t})
    chk.cov["distinct_nontrivial"] = n[0] + len(meta) + npre
    return chk.finish(
        "fault_enumeration",
        rule="(a) every string of <= 5 (6) characters over 15 class representatives (newline, blank, non-ASCII blank of 2 and 3 bytes, ';', '\"', '#', digit, '.', '-', "
             "1/2/3-byte alphabetic, 1/4-byte other); (b) every valid text of the C04 generator x one token fault (drop, duplicate, swap, "
             "replace by END/MACRO/LAYER/number/';'/unterminated string/unknown word, non-ASCII insertion into names, literals, comments); "
             "(c) every character-boundary prefix of valid texts with ASCII and non-ASCII comments. All are distinct texts.",
        assumptions=["token types and line numbers are compared with LefLexer.tla as conformance (drift), spans and totality as the property",
                     "time proportional to length: token count <= character count plus wall-clock scaling with a deliberately loose bound"])


def judge(chk, q, desc):
    oc = q.get("outcome")
    if oc in ("panic", "abort", "timeout", "not-run"):
        chk.violation(f"reader-{oc}", "lef21::parse", desc, {"msg": q.get("msg"), "loc": q.get("loc"), "text": q.get("text")})
        return
    f = q.get("facts", {})
    if f.get("lex_panic"):
        chk.violation("lexer-panic", "LefLexer", desc, f)
    if f.get("spans_ok") is False:
        chk.violation("token-span-off-character-boundary", "LefLexer", desc, f)
    if "ntoks" in f and f["ntoks"] > f["nchars"]:
        chk.violation("more-tokens-than-characters", "LefLexer", desc, f)
    rt = q.get("rt")
    if rt and rt.get("outcome") == "panic":
        chk.violation("returned-library-crashes-" + rt["stage"], "lef21", desc, rt)


def replay(chk, path):
    print(open(path).read())
    return 0
