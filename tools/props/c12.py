"""C12 — instance transforms compose like the geometric operations they name.

Specification: specs/geom/D4.tla (placement algebra), MC_D4.tla (flattening as a state machine: one
Descend action per hierarchy level, acc' = Cascade(acc, FromInstance(pl)); group laws, mirror parity and
"composed = sequential" as invariants), MC_D4Pyth.tla (rational rotations).
S->I: every chain emitted by TLC is evaluated in the real code three ways (from_instance cascade,
elementary translate/rotate/reflect cascade, Layout::flatten of a nested library) on the grid -3..3^2.
"""
import os, json
import vlib
from vlib import SPECS

D = os.path.join(SPECS, "geom")


def klass(case, m):
    refl = [p["r"] for p in case["chain"]] if "chain" in case else [case.get("r")]
    angs = [p["a"] for p in case["chain"]] if "chain" in case else []
    if any(r and a in (90, 270) for r, a in zip(refl, angs)):
        return "reflect-plus-quarter-turn"
    return "wrong-image"


def run(chk):
    thorough = chk.tier == "thorough"
    W, tlc = chk.workdir, chk.tlc
    # unbounded argument (Apalache): composition, closure and isometry of two placements for ALL integer offsets and points
    apa = os.path.join(vlib.SPECS, "apalache", "D4Ind.tla")
    oc, secs = vlib.apalache(apa, ["--init=AnyInit", "--inv=Laws", "--length=0"])
    chk.cov["apalache_placement_algebra_laws"] = {"outcome": oc, "seconds": secs,
                                                  "scope": "two placements over the eight orientations, all integer offsets and points"}
    vlib.log(f"[apalache] D4Ind: {oc} ({secs:.1f}s)")
    chk.require(oc != "Error", "Apalache: the placement algebra violates its composition laws (specification defect)")
    cfg = os.path.join(W, "mc_d4.cfg")
    open(cfg, "w").write(f"SPECIFICATION Spec\nCONSTANTS Depth = 4  SampleMod = {1 if thorough else 23}\n"
                         "INVARIANTS AccIsPathMap ComposedIsSequential Closure MirrorParity InverseIsTranspose GroupLaws Emit\n"
                         "CHECK_DEADLOCK FALSE\n")
    r = tlc.check(os.path.join(D, "MC_D4.tla"), cfg, timeout=7200, mem="12g")
    chk.add_tlc("MC_D4 chains of depth <= 4 (24 placements per level)", r)
    chk.tlc_must_pass("MC_D4", r)
    cases = r.cases
    for i, c in enumerate(cases):
        c["id"] = i
    chk.require(len(cases) >= 14424, "depth<=3 chains missing")
    res = vlib.harness("transform_chain", cases, W)
    distinct = 0
    for c, q in zip(cases, res):
        if q.get("outcome") != "ok":
            chk.violation("transform-crash", "Transform", {"chain": c["chain"]}, q)
            continue
        chk.cov["evaluations"] += q["evals"]
        distinct += 1
        for m in q["mismatch"][:2]:
            chk.violation(klass(c, m), "Transform::" + m["via"] if m["via"] != "flatten" else "Layout::flatten",
                          {"chain": c["chain"]}, m)
    k = len(cases) // 3
    chk.sample({"chain": cases[k]["chain"], "spec_map": {"m": cases[k]["m"], "t": cases[k]["t"]}, "code": res[k]})
    # self-test (iii)
    st = json.loads(json.dumps(cases[5])); st["t"][0] += 1
    q = vlib.harness("transform_chain", [st], W, tag="selftest")[0]
    chk.require(q["nmismatch"] > 0, "replayer did not notice a wrong expected map")

    cfg = os.path.join(W, "mc_pyth.cfg")
    open(cfg, "w").write("SPECIFICATION Spec\nINVARIANTS LengthPreserved Emit\nCHECK_DEADLOCK FALSE\n")
    r = tlc.check(os.path.join(D, "MC_D4Pyth.tla"), cfg, timeout=3600)
    chk.add_tlc("MC_D4Pyth rational rotations", r)
    chk.tlc_must_pass("MC_D4Pyth", r)
    pc = [dict(c, id=i) for i, c in enumerate(r.cases)]
    chk.require(len(pc) == 128 and any(c["d"] > 10000 for c in pc), "pythagorean cases missing")
    for c, q in zip(pc, vlib.harness("transform_pyth", pc, W)):
        if q.get("outcome") != "ok":
            chk.violation("transform-crash", "Transform", {k: c[k] for k in ("c", "s", "d", "r", "loc")}, q)
            continue
        chk.cov["evaluations"] += q["evals"]
        distinct += 1
        for m in q["mismatch"][:2]:
            chk.violation("general-angle-off-by-more-than-half", "Transform::" + m["via"],
                          {k: c[k] for k in ("c", "s", "d", "r", "loc")}, m)
    chk.sample({"pythagorean": {k: pc[0][k] for k in ("c", "s", "d", "r", "loc")}, "points_with_numerators": pc[0]["pts"][:4]})
    # general angles at two levels of a hierarchy whose middle cell is instantiated three times (a DAG): every flattened copy
    cfg = os.path.join(W, "mc_pyth2.cfg")
    open(cfg, "w").write("SPECIFICATION Spec\nINVARIANTS LengthPreserved SumOfAngles Emit\nCHECK_DEADLOCK FALSE\n")
    r = tlc.check(os.path.join(D, "MC_D4Pyth2.tla"), cfg, timeout=3600)
    chk.add_tlc("MC_D4Pyth2 rational rotations at two levels", r)
    chk.tlc_must_pass("MC_D4Pyth2", r)
    # (where the second rotation undoes the first, all points share one fractional part: 64 pairs keep no point at all)
    pc2 = [dict(c, id=i) for i, c in enumerate(r.cases) if len(c["pts"]) >= 20]
    chk.require(len(r.cases) == 2304 and len(pc2) >= 2200, "two-level pythagorean cases missing")
    keys2 = ("c1", "s1", "d1", "r1", "loc1", "c2", "s2", "d2", "r2", "loc2")
    for c, q in zip(pc2, vlib.harness("transform_pyth2", pc2, W)):
        if q.get("outcome") != "ok":
            chk.violation("transform-crash", "Layout::flatten", {k: c[k] for k in keys2}, q)
            continue
        chk.cov["evaluations"] += q["evals"]
        distinct += 1
        for m in q["mismatch"][:2]:
            chk.violation("nested-general-angles-off-by-more-than-half" + (":repeated-cell" if m.get("copy", 0) > 0 else ""), "Layout::flatten",
                          {k: c[k] for k in keys2}, m)
    st = json.loads(json.dumps(pc2[7])); st["pts"][0][2] += 3 * st["den"]
    q = vlib.harness("transform_pyth2", [st], W, tag="selftest2")[0]
    chk.require(q["nmismatch"] > 0, "two-level replayer did not notice a wrong expected image")
    chk.cov["distinct_nontrivial"] = distinct
    return chk.finish(
        "model_checking",
        rule="every placement chain of depth 1..3 over 8 orientations x 3 offsets (14 424), depth 4 sampled 1/23 (quick) or "
             "exhaustive 331 776 (thorough), each compared on 49 grid points x 2 angle encodings x 2 compositions plus a flattened "
             "3-shape leaf; 128 Pythagorean single placements; 2 304 pairs of Pythagorean placements at two levels of a hierarchy whose middle cell is instantiated three times (every flattened copy). distinct = distinct chains.",
        assumptions=["general angles restricted to rational sine/cosine (3-4-5, 5-12-13, 8-15-17 families)",
                     "angle 0 is given both as None and Some(0.0)"],
        extra={"exhaustive": thorough})


def replay(chk, path):
    d = json.load(open(path))
    for v in d["cases"]:
        print(json.dumps(v))
    return 0
