"""C13 — point-in-shape answers agree with exact geometry.

Specification: specs/geom/Contains.tla.
  1. MC_Contains: every simple polygon (as vertex sequence) on a small lattice, built vertex by vertex;
     model-level checks (three rays agree; vertex insertion and translation change nothing); inside
     bitmaps emitted and replayed into Polygon::contains incl. translated / vertex-inserted variants.
  2. MC_ContainsShapes: all rectangles and Manhattan paths (three-valued oracle) likewise.
  2b. MC_WideCases: every simple lattice triangle / quadrilateral under seven invertible integer affine maps to
     coordinates of 10^5 .. 2*10^9, plus near-miss triangles (cross product 1 against products of 10^18);
     expectations from WideContains (64-bit signs by limbs), tied to Inside by AffineAgree; replayed
     into Polygon::contains from every starting vertex in both orientations.
  3. Trace_Contains: random larger rectilinear / 45-degree / star polygons with query points on, next
     to and far from the boundary; every recorded answer validated against Inside.
"""
import os, json
import vlib
from vlib import SPECS, write_ndjson

D = os.path.join(SPECS, "geom")


def classify(m):
    """Diagnosis class of a mismatch (for known findings): where is the query relative to the polygon?"""
    pts = m["points"]; q = m["query"]
    n = len(pts)
    on_vertex_row = any(p[1] == q[1] for p in pts)
    if m["got"] and not m["expected"]:
        return "outside-reported-inside" + ("-ray-through-vertex" if on_vertex_row else "")
    return "inside-reported-outside" + ("-ray-through-vertex" if on_vertex_row else "")


def run(chk):
    thorough = chk.tier == "thorough"
    W, tlc = chk.workdir, chk.tlc
    mc = os.path.join(D, "MC_Contains.tla")
    insts = [(2, 6, True), (3, 4, True)] + ([(3, 5, False), (4, 4, False), (2, 7, True)] if thorough else [])
    distinct = 0
    for (G, MaxV, full) in insts:
        cfg = os.path.join(W, f"mc_contains_{G}_{MaxV}.cfg")
        inv = "RaysAgree AreaNonZero " + ("InsertInvariant TranslateInvariant " if full else "") + "Emit"
        open(cfg, "w").write(f"SPECIFICATION Spec\nCONSTANTS G = {G}  MaxV = {MaxV}  Paths = FALSE\nINVARIANTS {inv}\nCHECK_DEADLOCK FALSE\n")
        r = tlc.check(mc, cfg, timeout=7200, mem="16g")
        chk.add_tlc(f"MC_Contains lattice 0..{G}, <= {MaxV} vertices", r)
        chk.tlc_must_pass("MC_Contains", r)
        cases = r.cases
        for i, c in enumerate(cases):
            c["id"] = f"{G}-{MaxV}-{i}"
        chk.require(len(cases) > 100, "too few polygons")
        res = vlib.harness("contains_poly", cases, W, tag=f"poly_{G}_{MaxV}")
        distinct += len(cases)
        for c, q in zip(cases, res):
            if q.get("outcome") != "ok":
                chk.violation("contains-crash", "Polygon::contains", {"poly": c["poly"]}, q)
                continue
            chk.cov["evaluations"] += q["evals"]
            for m in q["mismatch"]:
                chk.violation(classify(m), "Polygon::contains", {"poly": m["points"], "query": m["query"]},
                              {"got": m["got"], "expected": m["expected"], "variant": m["variant"]})
        chk.sample({"polygon": cases[len(cases) // 2]["poly"], "expected_bitmap_rows_from_y=-1": cases[len(cases) // 2]["inside"],
                    "code": res[len(cases) // 2]})
    # self-test (iii): a flipped expected bit must be reported by the replayer
    st = dict(cases[0]); st["inside"] = list(st["inside"]); st["inside"][0] ^= 1
    q = vlib.harness("contains_poly", [st], W, tag="selftest")[0]
    chk.require(q["nmismatch"] >= 1, "replayer did not notice a flipped expected bit")

    # ---- rectangles and paths
    cfg = os.path.join(W, "mc_shapes.cfg")
    open(cfg, "w").write(f"SPECIFICATION Spec\nCONSTANTS G = 3  MaxP = {4 if thorough else 3}  MaxW = 4\n"
                         "INVARIANTS PathConsistent RectIsPolygon Emit\nCHECK_DEADLOCK FALSE\n")
    r = tlc.check(os.path.join(D, "MC_ContainsShapes.tla"), cfg, timeout=3600)
    chk.add_tlc("MC_ContainsShapes rectangles + Manhattan paths", r)
    chk.tlc_must_pass("MC_ContainsShapes", r)
    rects = [dict(c, id=i) for i, c in enumerate(r.cases) if c["kind"] == "rect"]
    paths = [dict(c, id=i) for i, c in enumerate(r.cases) if c["kind"] == "path"]
    chk.require(len(rects) == 256 and len(paths) > 1000, "shape enumeration incomplete")
    distinct += len(rects) + len(paths)
    for cmd, cs, where in (("contains_rect", rects, "Rect::contains"), ("contains_path", paths, "Path::contains")):
        for c, q in zip(cs, vlib.harness(cmd, cs, W)):
            if q.get("outcome") != "ok":
                chk.violation("contains-crash", where, {k: c[k] for k in c if k in ("c0", "c1", "pts", "w")}, q)
                continue
            chk.cov["evaluations"] += q["evals"]
            for m in q["mismatch"][:3]:
                chk.violation("wrong-answer", where, {k: c[k] for k in c if k in ("c0", "c1", "pts", "w")}, m)
    chk.sample({"path": paths[-1]["pts"], "width": paths[-1]["w"], "must": paths[-1]["must"]})

    # ---- chip-scale coordinates, S->I (specs/geom/MC_WideCases.tla over WideContains / WideInt)
    cfg = os.path.join(W, "mc_widecases.cfg")
    gw, gq = (3, 2) if thorough else (2, 2)
    open(cfg, "w").write(f"SPECIFICATION Spec\nCONSTANTS GW = {gw}  GQ = {gq}\n"
                         "INVARIANTS AffineAgree HypNearMiss AllWide Emit\nCHECK_DEADLOCK FALSE\n")
    r = tlc.check(os.path.join(D, "MC_WideCases.tla"), cfg, timeout=7200, mem="16g")
    chk.add_tlc(f"MC_WideCases (triangles on 0..{gw}, quadrilaterals on 0..{gq}, 7 affine maps to 10^5..2*10^9, near-miss triangles)", r)
    chk.tlc_must_pass("MC_WideCases", r)
    wide = [dict(c, id=i) for i, c in enumerate(r.cases)]
    chk.require(len(wide) > 10000 and sum(1 for c in wide if c["kind"] == "hyp") == 112, "wide case family incomplete")
    distinct += len(wide)
    nwide = 0
    for c, q in zip(wide, vlib.harness("contains_at", wide, W)):
        if q.get("outcome") != "ok":
            chk.violation("wide-contains-crash", "Polygon::contains", {"poly": c["poly"]}, q)
            continue
        chk.cov["evaluations"] += q["evals"]
        nwide += q["evals"]
        for m in q["mismatch"][:2]:
            chk.violation("wide-" + classify(m), "Polygon::contains", {"poly": m["points"], "query": m["query"]},
                          {"got": m["got"], "expected": m["expected"], "variant": c["kind"] + "-" + m["variant"]})
    chk.cov["wide_evaluations"] = nwide
    chk.sample({"wide_polygon": wide[len(wide) // 2]["poly"], "queries": wide[len(wide) // 2]["qs"][:5],
                "expected": wide[len(wide) // 2]["expect"][:5]})
    # self-test: a flipped expectation must be reported
    st = json.loads(json.dumps(wide[-1])); st["expect"][0] ^= 1
    q = vlib.harness("contains_at", [st], W, tag="selftest_wide")[0]
    chk.require(q["nmismatch"] >= 1, "replayer did not notice a flipped wide expectation")

    # ---- random larger polygons, I->S
    nb = 40 if thorough else 6
    batches = [{"id": b, "seed": chk.seed * 100 + b, "shapes": 50, "queries": 200 if thorough else 120} for b in range(nb)]
    events = []
    for q in vlib.harness("contains_random", batches, W, timeout_ms=60000):
        if q.get("outcome") != "ok":
            chk.violation("contains-crash", "Polygon::contains", {"batch": q.get("id")}, q)
            continue
        events.extend(q["events"])
    tf = os.path.join(W, "contains_trace.ndjson")
    write_ndjson(tf, events)
    r = tlc.trace(os.path.join(D, "Trace_Contains.tla"), os.path.join(D, "Trace_Contains.cfg"), tf, mem="8g", timeout=7200)
    chk.add_tlc(f"Trace_Contains ({len(events)} random polygons, {sum(len(e['qs']) for e in events)} recorded answers)", r)
    chk.tlc_must_pass("Trace_Contains", r)
    chk.cov["traces_validated_against_impl"] += len(events)
    chk.cov["evaluations"] += sum(len(e["qs"]) for e in events)
    distinct += len(events)
    for kind, body in r.lines:
        if kind != "BAD":
            continue
        b = json.loads(json.loads(body))
        e = events[b["i"] - 1]
        if b["verdict"].startswith("machinery"):
            raise vlib.ToolError("generator produced a non-simple polygon: " + json.dumps(e["poly"]))
        for i in b["which"][:3]:
            m = {"points": e["poly"], "query": e["qs"][i - 1], "got": e["ans"][i - 1] == 1, "expected": e["ans"][i - 1] != 1}
            chk.violation(classify(m), "Polygon::contains", {"poly": e["poly"], "query": e["qs"][i - 1]},
                          {"got": m["got"], "expected": m["expected"], "variant": "random-" + e["kind"]})
    if events:
        chk.sample({"random_polygon": events[0]["poly"], "queries": events[0]["qs"][:6], "answers": events[0]["ans"][:6]})
    # self-test (ii): a flipped recorded answer must be rejected
    bad = json.loads(json.dumps(events[0])); bad["ans"][0] ^= 1
    write_ndjson(tf, [bad])
    r = tlc.trace(os.path.join(D, "Trace_Contains.tla"), os.path.join(D, "Trace_Contains.cfg"), tf)
    chk.require(any(k == "BAD" for k, _ in r.lines), "flipped answer accepted by Trace_Contains")
    chk.cov["distinct_nontrivial"] = distinct
    # ---- bounding boxes (the fast rejection of Polygon::contains): specs/geom/BBox.tla
    from . import bboxstage
    chk.cov["bbox_pairs"] = bboxstage.stage(chk)
    return chk.finish(
        "model_checking",
        rule="every simple polygon as vertex sequence on lattices 0..2 (<=6 vertices) and 0..3 (<=4; thorough <=5, 0..4 <=4), each "
             "with 2 translates and every single-vertex insertion on an edge, queried on the whole window; all 256 rectangles; all "
             "Manhattan paths with <=3 (4) points and widths 0..4; every simple lattice triangle (0..2; thorough 0..3) and "
             "quadrilateral (0..2) under 7 invertible affine maps to coordinates of 10^5..2*10^9 queried at the images of the lattice "
             "and their unit neighbours, from every starting vertex in both orientations, plus near-miss triangles; random rectilinear/45-degree/star polygons with up to ~56 vertices. "
             "distinct = distinct shapes; evaluations = individual contains() calls compared.",
        assumptions=["polygons are simple (self-intersecting outlines are outside the property)",
                     "path end caps and outer corners are unconstrained (weakest reading of the statement)",
                     "exhaustive and random families: coordinates below 10^4 (plain 32-bit cross products in TLC); wide family: coordinates within "
                     "+-2^31 with differences below 2^31 (signs by 11-bit limbs, WideInt.tla), where the code's 64-bit products are exact"],
        extra={"exhaustive": True})


def replay(chk, path):
    from fractions import Fraction
    d = json.load(open(path))
    for v in d["cases"]:
        print(json.dumps(v))
    return 0
