"""C14 — raw layout survives the trip through the protobuf schema.

Specification: specs/raw/RawProto.tla (the field relation raw <-> vlsir.raw as a function on abstract values:
shapes grouped per (layer, purpose) in first-seen order, rectangle = lower-left + width + height, instance
rotation, annotations, abstract ports/blockages; ordering obligation ExportOrderOK = DepOrderProps!ValidOrder)
and MC_RawProto.tla.  S->I: (a) to_proto(lib) must be the message the relation assigns (cells in ANY
dependencies-first order, validated by TLC with Trace_DepOrderAbs); (b) from_proto(to_proto(lib)) ~ lib;
(c) the specification's message converted to raw and back must be the same message.
"""
import os, json
import vlib
from vlib import SPECS, write_ndjson
from . import canon

D = os.path.join(SPECS, "raw")


def norm_ls(lss):
    return sorted((json.dumps(x, sort_keys=True) for x in lss))


def norm_cell_msg(c):
    """message cell with the map-ordered parts (abstract port shapes, blockages) sorted"""
    c = json.loads(json.dumps(c))
    for a in c["abs"]:
        a["blockages"] = norm_ls(a["blockages"])
        for p in a["ports"]:
            p["shapes"] = norm_ls(p["shapes"])
    return c


def inst_key(i):
    a = i.get("angle")
    return (i["name"], i["cell"], tuple(i["loc"]), bool(i["refl"]), 0 if a in (None, -1) else int(round(a)) % 360)


def raw_cell_key(c):
    d = {"has_layout": c["has_layout"]}
    if c["has_layout"]:
        d["insts"] = sorted(map(inst_key, c.get("insts", [])))
        d["own"] = sorted(repr((canon.canon_elem(e), e.get("net") or "")) for e in c.get("own", []))
        d["annots"] = sorted((a["str"], tuple(a["at"])) for a in c.get("annots", []))
    if c.get("abs"):
        a = c["abs"]
        d["abs"] = {"outline": canon.canon_poly(a["outline"]),
                    "ports": [(p["net"], sorted((l, sorted(repr(canon.canon_shape(s["k"], s["pts"], s["width"])) for s in ss)) for l, ss in p["shapes"].items())) for p in a["ports"]],
                    "blockages": sorted((l, sorted(repr(canon.canon_shape(s["k"], s["pts"], s["width"])) for s in ss)) for l, ss in a["blockages"].items())}
    return d


def feats(lib):
    f = set()
    for c in lib["cells"]:
        if any(i["angle"] not in (-1, 0) for i in c["insts"]):
            f.add("rotation")
        if any(i["refl"] for i in c["insts"]):
            f.add("reflection")
        if c["abs"]:
            f.add("abstract")
        if c["annots"]:
            f.add("annotations")
        for e in c["elems"]:
            f.add(e["k"])
    return "+".join(sorted(f))


def run(chk):
    W, tlc = chk.workdir, chk.tlc
    cfg = os.path.join(W, "rawproto.cfg")
    nrand = 2000 if chk.tier == "thorough" else 40
    open(cfg, "w").write(f"SPECIFICATION Spec\nCONSTANT NRand = {nrand}\nINVARIANTS OrderIsValid Emit\nCHECK_DEADLOCK FALSE\n")
    r = tlc.check(os.path.join(D, "MC_RawProto.tla"), cfg, timeout=3600)
    chk.add_tlc("MC_RawProto DAGs, shapes, instances, abstracts, units", r)
    chk.tlc_must_pass("MC_RawProto", r)
    cases = r.cases
    for i, c in enumerate(cases):
        c["id"] = i
    chk.require(len(cases) >= 40, "case set incomplete")
    res = vlib.harness("raw_proto", cases, W, timeout_ms=20000)
    order_events = []
    for c, q in zip(cases, res):
        chk.cov["evaluations"] += 1
        lib = c["lib"]
        desc = {"features": feats(lib), "units": lib["units"], "cells": [x["name"] for x in lib["cells"]]}
        if q.get("outcome") != "ok":
            chk.violation("conversion-" + str(q.get("outcome")), "raw::proto", desc, {"msg": q.get("msg"), "loc": q.get("loc")})
            continue
        ex = q["export"]
        if not c["in_schema"]:
            if ex["outcome"] == "panic":
                chk.violation("export-panic:unit-outside-schema", "ProtoExporter::export_units", desc, ex)
            elif ex["outcome"] == "ok":
                chk.violation("unit-outside-schema-exported", "ProtoExporter::export_units", desc, {"units": ex["proto"]["units"]})
            continue
        if ex["outcome"] != "ok":
            chk.violation(f"export-{ex['outcome']}:{feats(lib)}", "ProtoExporter", desc, ex)
            continue
        got, want = ex["proto"], c["proto"]
        # (a) the message
        if got["domain"] != want["domain"] or got["units"] != want["units"]:
            chk.violation("library-fields-differ", "ProtoExporter", desc, {"got": [got["domain"], got["units"]], "want": [want["domain"], want["units"]]})
        gn = [x["name"] for x in got["cells"]]
        names = [x["name"] for x in lib["cells"]]
        if sorted(gn) != sorted(names):
            chk.violation("cells-missing-or-duplicated", "ProtoExporter", desc, {"got": gn})
            continue
        order_events.append({"id": str(c["id"]), "deps": c["deps"], "items": list(range(1, len(names) + 1)), "status": "ok",
                             "order": [names.index(n) + 1 for n in gn], "wit": {"k": "search"}})
        wc = {x["name"]: norm_cell_msg(x) for x in want["cells"]}
        for x in got["cells"]:
            d = first_diff(wc[x["name"]], norm_cell_msg(x))
            if d:
                key = "rotation" if "rot" in d[0] else ("reflection" if "refl" in d[0] else d[0].split("/")[1] if "/" in d[0] else d[0])
                chk.violation(f"message-differs:{key}", "ProtoExporter", desc, {"cell": x["name"], "path": d[0], "want": d[1], "got": d[2]})
        # (b) raw -> proto -> raw
        b = q.get("back", {})
        if b.get("outcome") != "ok":
            chk.violation(f"reimport-{b.get('outcome')}", "ProtoImporter", desc, b)
        else:
            bl = b["lib"]
            if bl["name"] != q["before"]["name"] or bl["units"] != q["before"]["units"]:
                chk.violation("name-or-units-changed", "raw<->proto", desc, {"before": [q["before"]["name"], q["before"]["units"]], "after": [bl["name"], bl["units"]]})
            bc = {x["name"]: raw_cell_key(x) for x in q["before"]["cells"]}
            ac = {x["name"]: raw_cell_key(x) for x in bl["cells"]}
            for n in bc:
                if n not in ac:
                    chk.violation("cell-lost", "raw<->proto", desc, {"cell": n})
                elif bc[n] != ac[n]:
                    for k in bc[n]:
                        if bc[n][k] != ac[n].get(k):
                            sub = "rotation" if k == "insts" and [i[:4] for i in bc[n][k]] == [i[:4] for i in ac[n][k]] else k
                            chk.violation(f"round-trip-differs:{sub}", "raw<->proto", desc, {"cell": n, "before": bc[n][k], "after": ac[n].get(k)})
                            break
        # (c) the specification's message -> raw -> message
        cn = q.get("canon", {})
        if cn.get("outcome") != "ok":
            chk.violation(f"canonical-message-{cn.get('outcome')}", "ProtoImporter/Exporter", desc, cn)
        else:
            g2 = cn["proto"]
            if [x["name"] for x in g2["cells"]] != [x["name"] for x in want["cells"]]:
                chk.violation("canonical-message-cell-order-changed", "raw<->proto", desc, {"got": [x["name"] for x in g2["cells"]]})
            else:
                for x, y in zip(want["cells"], g2["cells"]):
                    d = first_diff(norm_cell_msg(x), norm_cell_msg(y))
                    if d:
                        key = "rotation" if "rot" in d[0] else d[0]
                        chk.violation(f"canonical-message-changed:{key}", "raw<->proto", desc, {"cell": x["name"], "path": d[0], "want": d[1], "got": d[2]})
    # ordering obligation by TLC
    tf = os.path.join(W, "order.ndjson")
    write_ndjson(tf, order_events)
    od = os.path.join(SPECS, "order")
    r2 = tlc.trace(os.path.join(od, "Trace_DepOrderAbs.tla"), os.path.join(od, "Trace_DepOrderAbs.cfg"), tf)
    chk.add_tlc(f"Trace_DepOrderAbs on {len(order_events)} exported cell orders", r2)
    chk.tlc_must_pass("Trace_DepOrderAbs", r2)
    chk.cov["traces_validated_against_impl"] = len(order_events)
    for kind, body in r2.lines:
        if kind == "BAD":
            b = json.loads(json.loads(body))
            chk.violation("cells-not-dependencies-first", "ProtoExporter", {"case": b["id"]}, b)
    k = 3
    chk.sample({"raw_library": {"cells": [x["name"] for x in cases[k]["lib"]["cells"]], "features": feats(cases[k]["lib"])},
                "spec_message_cell0": cases[k]["proto"]["cells"][0], "export": res[k]["export"]["outcome"]})
    # ---- the layer registry behind "layer/purpose numbers" (specs/raw/Layers.tla)
    from . import layersreg
    nreg = layersreg.stage(chk, 3)
    chk.cov["distinct_nontrivial"] = len(cases) + nreg
    return chk.finish(
        "model_checking",
        rule="instances: reflection x {None, 0, 90, 180, 270}; DAGs of 3-4 cells in all listing orders incl. reverse chains; shape sets on "
             "(layer, purpose) pairs in interleaved first-seen order with/without nets; annotations; abstracts with 0-2 ports x 0-3 blockage "
             "layers, a cell with both views; units Micro/Nano/Angstrom, Pico (outside the schema: error required, not a panic).",
        assumptions=["abstract port shapes and blockages are maps by layer: compared as sets", "right-angle integral rotations",
                     "rectangles compare in canonical form (the schema stores lower-left + size)"],
        extra={"exhaustive": True})


def first_diff(a, b, path=""):
    if isinstance(a, dict) and isinstance(b, dict):
        for k in a:
            if k not in b:
                return (path + "/" + k, a[k], None)
            d = first_diff(a[k], b[k], path + "/" + k)
            if d:
                return d
        for k in b:
            if k not in a:
                return (path + "/" + k, None, b[k])
        return None
    if isinstance(a, list) and isinstance(b, list):
        for i, (x, y) in enumerate(zip(a, b)):
            d = first_diff(x, y, f"{path}/{i}")
            if d:
                return d
        if len(a) != len(b):
            return (path + "/len", len(a), len(b))
        return None
    return None if a == b else (path, a, b)


def replay(chk, path):
    print(open(path).read())
    return 0
