"""C15 — the GDSII real-number codec is exact over the format's range.

Specification: specs/common/Hex.tla, specs/gds/GdsReal.tla (64-bit quantities as hex-digit sequences).
  1. TLC evaluates the model-level theorems (Decode∘Encode = id, Encode normalised and exact,
     Encode∘Decode = id for <= 53 significant bits) on every boundary class and emits the expected
     sixteen digits of every conversion.
  2. S->I: each case is run through gds21::GdsFloat64; bit equality with the specification.
  3. I->S: random in-range doubles and normalised reals recorded from the code are validated by
     Trace_GdsReal.
  Self-test of the specification itself: an exact-rational reference (python fractions) produces
  events that Trace_GdsReal must accept, and a corrupted one it must reject.
"""
import os, random, json, struct
from fractions import Fraction
import vlib
from vlib import SPECS, write_ndjson

D = os.path.join(SPECS, "gds")


def dig(v):
    return [(v >> (60 - 4 * i)) & 0xF for i in range(16)]


def undig(d):
    r = 0
    for x in d:
        r = (r << 4) | x
    return r


def py_encode(bits):
    x = struct.unpack(">d", struct.pack(">Q", bits))[0]
    if x == 0:
        return 0
    s = 1 if x < 0 else 0
    v = Fraction(abs(x))
    e = 64
    while v >= 1:
        v /= 16; e += 1
    while v < Fraction(1, 16):
        v *= 16; e -= 1
    m = v * (1 << 56)
    assert m.denominator == 1 and 0 <= e <= 127
    return (s << 63) | (e << 56) | int(m)


def py_decode(g):
    s = g >> 63
    e = (g >> 56) & 0x7F
    m = g & ((1 << 56) - 1)
    v = Fraction(m, 1 << 56) * Fraction(16) ** (e - 64)
    f = float(v)     # correctly rounded (round-half-even)
    if s:
        f = -f
    return struct.unpack(">Q", struct.pack(">d", f))[0]


def run(chk):
    thorough = chk.tier == "thorough"
    W, tlc = chk.workdir, chk.tlc
    rng = random.Random(chk.seed)
    tmod = os.path.join(D, "Trace_GdsReal.tla")
    tcfg = os.path.join(D, "Trace_GdsReal.cfg")

    # ---- self-test of the specification against exact rational arithmetic
    ev = []
    for i in range(1500 if thorough else 400):
        if i % 2 == 0:
            e2 = rng.randint(-256, 251)
            f = rng.getrandbits(52) if i % 8 else rng.choice([0, 1, (1 << 52) - 1, (1 << 52) - 2])
            x = (rng.getrandbits(1) << 63) | ((e2 + 1023) << 52) | f
            g = py_encode(x)
            ev.append({"kind": "d", "x": dig(x), "g": dig(g), "back": dig(py_decode(g))})
        else:
            m = rng.getrandbits(56) | (rng.randint(1, 15) << 52)
            m &= (1 << 56) - 1
            if i % 3 == 0:
                m = (m & ((1 << 52) - 1)) | (1 << 52) | (rng.choice([0, 4, 12, 5, 3]))  # first digit 1: 3 bits rounded away
            g = (rng.getrandbits(1) << 63) | (rng.randint(1, 126) << 56) | m
            x = py_decode(g)
            ev.append({"kind": "g", "g": dig(g), "x": dig(x), "re": dig(py_encode(x))})
    tf = os.path.join(W, "selftest_ref.ndjson")
    write_ndjson(tf, ev)
    r = tlc.trace(tmod, tcfg, tf)
    chk.add_tlc("Trace_GdsReal on exact-rational reference events (spec self-test)", r)
    chk.tlc_must_pass("selftest_ref", r)
    chk.require(not [l for l in r.lines if l[0] == "BAD"], f"GdsReal disagrees with exact rational arithmetic: {r.lines[:3]}")
    bad = dict(ev[0]); bad["g"] = list(bad["g"]); bad["g"][15] ^= 1
    write_ndjson(tf, [bad])
    r = tlc.trace(tmod, tcfg, tf)
    chk.require(any(l[0] == "BAD" for l in r.lines), "corrupted encode event accepted")

    # ---- 1. theorems + emission
    cfg = os.path.join(W, "mc_gdsreal.cfg")
    with open(cfg, "w") as f:
        f.write(f'SPECIFICATION Spec\nCONSTANTS Tier = "{chk.tier}"\n'
                "INVARIANTS EncNormalised DecEncId EncExact DecWellFormed EncDecId DecNear Emit\nCHECK_DEADLOCK FALSE\n")
    r = tlc.check(os.path.join(D, "MC_GdsReal.tla"), cfg, timeout=3600)
    chk.add_tlc("MC_GdsReal boundary classes", r)
    chk.tlc_must_pass("MC_GdsReal", r)
    cases = r.cases
    for i, c in enumerate(cases):
        c["id"] = i
    nd = sum(1 for c in cases if c["kind"] == "d")
    chk.require(nd > 1000 and len(cases) - nd > 1000, "too few emitted cases")

    # ---- 2. S->I
    res = vlib.harness("gdsreal", [{"id": c["id"], "kind": c["kind"], "x": c.get("x"), "g": c.get("g")} for c in cases], W)
    chk.cov["evaluations"] += len(cases)
    distinct = set()
    for c, q in zip(cases, res):
        if q.get("outcome") != "ok":
            chk.violation("codec-crash", "GdsFloat64", {"kind": c["kind"], "in": c.get("x") if c["kind"] == "d" else c["g"]}, q)
            continue
        if c["kind"] == "d":
            distinct.add(("d", tuple(c["x"])))
            if q["g"] != c["g"]:
                norm = q["g"][2] != 0
                chk.violation("enc-wrong" if norm else "enc-unnormalised", "GdsFloat64::encode",
                              {"x": "%016x" % undig(c["x"])}, {"expected": "%016x" % undig(c["g"]), "got": "%016x" % undig(q["g"])})
            elif q["back"] != c["x"]:
                chk.violation("roundtrip-lost", "GdsFloat64::decode", {"x": "%016x" % undig(c["x"])}, {"back": "%016x" % undig(q["back"])})
        else:
            distinct.add(("g", tuple(c["g"])))
            if q["x"] != c["x"]:
                chk.violation("dec-wrong", "GdsFloat64::decode", {"g": "%016x" % undig(c["g"])},
                              {"expected": "%016x" % undig(c["x"]), "got": "%016x" % undig(q["x"])})
            elif c["sig"] <= 53 and undig(c["g"][:2]) % 128 >= 1 and q["re"] != c["g"]:
                chk.violation("reencode-differs", "GdsFloat64::encode", {"g": "%016x" % undig(c["g"])}, {"re": "%016x" % undig(q["re"])})
    chk.sample({"double": "%016x" % undig(cases[0].get("x")), "gds_expected": "%016x" % undig(cases[0]["g"]), "code": res[0]})
    # self-test (iii): a wrong expected value must be noticed by the comparison above
    chk.require(res[0].get("g") is not None, "harness result lacks fields")

    # ---- 3. I->S random
    n = 300000 if thorough else 12000
    batches = [{"id": b, "kind": "rand", "seed": chk.seed * 1000 + b, "n": 2000} for b in range(n // 2000)]
    rr = vlib.harness("gdsreal", batches, W, tag="gdsreal_rand", timeout_ms=60000)
    events = []
    for q in rr:
        if q.get("outcome") != "ok":
            chk.violation("codec-crash", "GdsFloat64", {"batch": q.get("id")}, q)
            continue
        events.extend(q["events"])
    # decimal neighbourhoods: the values real files carry (user and database units) are m * 10^k; every real and every double
    # within 4 units in the last place of the nearest representation of 10^k, 2*10^k, 5*10^k over the whole range goes through
    # the code and is judged by Trace_GdsReal like the random events
    dec = []
    for k in range(-76, 75):
        for m in (1, 2, 5):
            v = Fraction(10) ** k * m
            if not (Fraction(16) ** -65 <= v < Fraction(16) ** 62):
                continue
            xb = struct.unpack(">Q", struct.pack(">d", float(v)))[0]
            g0 = py_encode(xb)
            for d in range(-4, 5):
                dec.append({"id": len(dec), "kind": "d", "x": dig(xb + d)})
                g = g0 + d
                if (g >> 52) & 0xF:          # still normalised
                    dec.append({"id": len(dec), "kind": "g", "g": dig(g)})
    for c, q in zip(dec, vlib.harness("gdsreal", dec, W, tag="gdsreal_dec")):
        if q.get("outcome") != "ok":
            chk.violation("codec-crash", "GdsFloat64", {"kind": c["kind"], "in": "%016x" % undig(c.get("x") or c.get("g"))}, q)
        elif c["kind"] == "d":
            events.append({"kind": "d", "x": c["x"], "g": q["g"], "back": q["back"]})
        else:
            events.append({"kind": "g", "g": c["g"], "x": q["x"], "re": q["re"]})
    chk.cov["decimal_neighbourhood_values"] = len(dec)
    # validate in chunks (bounded memory per TLC run)
    CH = 50000
    nbad = 0
    for k in range(0, len(events), CH):
        chunk = events[k:k + CH]
        tf = os.path.join(W, f"rand_{k}.ndjson")
        write_ndjson(tf, chunk)
        r = tlc.trace(tmod, tcfg, tf, mem="6g")
        chk.add_tlc(f"Trace_GdsReal random events {k}..{k+len(chunk)}", r)
        chk.tlc_must_pass("Trace_GdsReal", r)
        for kind, body in r.lines:
            if kind != "BAD":
                continue
            b = json.loads(json.loads(body))
            e = chunk[b["i"] - 1]
            v = b["verdict"]
            if v.startswith("machinery"):
                raise vlib.ToolError("random generator left the domain: " + json.dumps(e))
            nbad += 1
            where = "GdsFloat64::decode" if v in ("dec-wrong", "roundtrip-lost") else "GdsFloat64::encode"
            chk.violation(v, where, {"in": "%016x" % undig(e["x"] if e["kind"] == "d" else e["g"])},
                          {k2: "%016x" % undig(v2) for k2, v2 in e.items() if isinstance(v2, list)})
        os.remove(tf)
    chk.cov["evaluations"] += len(events)
    chk.cov["traces_validated_against_impl"] += len(events)
    for e in events:
        distinct.add((e["kind"], tuple(e["x"] if e["kind"] == "d" else e["g"])))
    chk.cov["distinct_nontrivial"] = len(distinct)
    chk.sample({"recorded_event": {k: "%016x" % undig(v) if isinstance(v, list) else v for k, v in events[1].items()}})
    return chk.finish(
        "model_checking",
        rule="doubles within 8 ulp of every power of two 2^-256..2^251 (contains every power of sixteen), all 0/1/2-bit fraction "
             "patterns at 5 (quick) / 16 (thorough) binades, extremes, zero; normalised reals at rounding boundaries and single "
             "nibbles; plus uniform random in-range doubles and normalised reals recorded from the code, plus every double and real within 4 ulp of 10^k, 2*10^k, 5*10^k over the range. distinct = distinct input "
             "bit pattern; every one is non-trivial (a real conversion).",
        assumptions=["-0.0 is outside the domain (GDSII has a single zero)", "only normalised reals are decoded",
                     "the exact-rational self-test (python fractions) vouches for GdsReal.tla on the sampled values"])


def replay(chk, path):
    d = json.load(open(path))
    cases = []
    for i, v in enumerate(d["cases"]):
        c = v["case"]
        h = c.get("x") or c.get("in") or c.get("g")
        kind = "g" if "g" in c else "d"
        cases.append({"id": i, "kind": kind, ("g" if kind == "g" else "x"): dig(int(h, 16))})
    for c, r in zip(cases, vlib.harness("gdsreal", cases, chk.workdir)):
        print(json.dumps({"case": c, "result": r}))
    return 0
