"""C16 — importing LEF into the raw model keeps every coordinate in place.

Specification: specs/raw/LefRaw.tla (decimal scaling to 1/10000 micron with exactness test; outline from
SIZE; pin shapes grouped by layer name over all ports; obstructions grouped by layer name) over the LEF
structures of LefSyntax.tla; MC_LefRaw.tla enumerates sizes, shapes and structures over decimal classes
(0..7 fractional digits, negatives, x # y everywhere) and emits the expected abstract or "must be an error".
S->I: each case is rendered to LEF text (4 decimal spellings), parsed, imported, projected and compared.
"""
import os, json
import vlib
from vlib import SPECS
from . import lefcommon as L

D = os.path.join(SPECS, "raw")


def run(chk):
    cfg = os.path.join(chk.workdir, "lefraw.cfg")
    nrand = 4000 if chk.tier == "thorough" else 60
    open(cfg, "w").write(f"SPECIFICATION Spec\nCONSTANT NRand = {nrand}\nINVARIANTS ScaleSound BadAreBad Emit\nCHECK_DEADLOCK FALSE\n")
    r = chk.tlc.check(os.path.join(D, "MC_LefRaw.tla"), cfg, timeout=3600)
    chk.add_tlc("MC_LefRaw sizes, shapes, structures over decimal classes", r)
    chk.tlc_must_pass("MC_LefRaw", r)
    cases = r.cases
    for i, c in enumerate(cases):
        c["id"] = i
    chk.require(len(cases) >= 300 and any(c["must_err"] for c in cases), "case set incomplete")
    res = vlib.harness("lef_to_raw", [{k: c[k] for k in ("id", "toks", "must_err", "expect")} for c in cases], chk.workdir)
    for c, q in zip(cases, res):
        chk.cov["evaluations"] += 4
        if q.get("outcome") != "ok":
            chk.violation("importer-" + str(q.get("outcome")), "LefImporter", {"lib": L.describe(c["lib"])}, q)
            continue
        for p in q["problems"]:
            if p["stage"] == "parse":
                raise vlib.ToolError(f"generated LEF text rejected by the reader (C04's concern): {p}")
            path = L.norm_path(p.get("path"))
            klass = f"import-{p['outcome']}:{path}"
            if p["outcome"] == "differs" and path.endswith("/#") and "pts" in path:
                klass = "import-differs:coordinate"
            chk.violation(klass, "LefImporter", {"lib": L.describe(c["lib"]), "macro_size": c["lib"]["macros"][0]["size"]},
                          {k: p.get(k) for k in ("outcome", "path", "want", "got", "msg", "text") if p.get(k) is not None})
    k = len(cases) - 1
    chk.sample({"lef_tokens": cases[k]["toks"][:20], "expected_abstract": cases[k]["expect"], "must_err": cases[k]["must_err"]})
    st = json.loads(json.dumps(cases[0]))
    if st["expect"]["cells"]:
        st["expect"]["cells"][0]["outline"][1][0] += 1
    q = vlib.harness("lef_to_raw", [st], chk.workdir, tag="selftest")[0]
    chk.require(q["nproblems"] > 0, "replayer did not notice an altered expectation")
    chk.cov["distinct_nontrivial"] = len(cases)
    return chk.finish(
        "model_checking",
        rule="every pair of 15 size decimals; rectangles at 16 coordinate offsets, polygons with 3/4/6 points, paths with 2/3 points x 5 "
             "widths, obstructions, a multi-pin/multi-port/repeated-layer macro and a two-macro library; every non-integral decimal class "
             "in every coordinate position (expected: error). Each under 4 decimal spellings.",
        assumptions=["scaled values stay below 2^31 (TLC integers)", "layers are compared by NAME; shape order within a layer is statement order",
                     "unsupported LEF features (EXCEPTPGNET, SPACING, ITERATE) are outside the statement and not generated"],
        extra={"exhaustive": True})


def replay(chk, path):
    print(open(path).read())
    return 0
