"""C17 — dependency orderings are complete, duplicate-free and dependencies-first.

Specification: specs/order/{DepOrderProps,DepOrderAbs,DepOrderDFS}.tla
  1. TLC, exhaustive: DepOrderDFS (the mechanism of layout21utils::DepOrderer) satisfies the
     property predicates and refines DepOrderAbs on every graph in scope.
  2. S->I: every graph of the emitting instances is replayed into the real generic orderer; the
     result must equal the model's (conformance) and satisfy the predicates (property).
  3. I->S: the Enter/Skip/Cycle/Exit/Done events recorded from the real orderer are validated
     against DepOrderDFS; the results of the generic AND the five embedded orderers (raw export
     order, raw->proto cell order, GDS import order, tetris dep_order, tetris->proto cell order)
     on exhaustive small graphs and random large DAGs / cyclic graphs are validated against the
     predicates of DepOrderProps by Trace_DepOrderAbs.
"""
import os, random, json
import vlib
from vlib import SPECS, write_ndjson

D = os.path.join(SPECS, "order")
EMBEDDED = ["raw", "rawproto", "gds", "tetris", "tproto"]


def mc_cfg(path, N, K, mode, loops, emit, refine):
    inv = "Bounded SeenIsOut PrefixOK OkProp ErrProp" + (" Emit" if emit else "")
    with open(path, "w") as f:
        f.write(f'SPECIFICATION MCSpec\nCONSTANTS N = {N}  K = {K}  Mode = "{mode}"  Loops = {"TRUE" if loops else "FALSE"}\n'
                f'INVARIANTS {inv}\n' + ("PROPERTY Refines\n" if refine else "") + "CHECK_DEADLOCK FALSE\n")


def py_witness(deps, items):
    """rank witness if no cycle is reachable... computed over ALL nodes; else a path witness."""
    n = len(deps)
    color = [0] * (n + 1)
    stack_path = []
    # iterative DFS from items looking for a back edge
    for it in items:
        if color[it]:
            continue
        st = [(it, 0)]
        color[it] = 1
        stack_path = [it]
        while st:
            node, i = st[-1]
            if i < len(deps[node - 1]):
                st[-1] = (node, i + 1)
                d = deps[node - 1][i]
                if color[d] == 1:
                    return {"k": "cycle", "path": list(stack_path)}
                if color[d] == 0:
                    color[d] = 1
                    st.append((d, 0))
                    stack_path.append(d)
            else:
                color[node] = 2
                st.pop()
                stack_path.pop()
    return None


def path_from_item(deps, items, cyc_path):
    return cyc_path  # DFS path already starts at an item


def random_graph(rng, n, cyclic):
    perm = list(range(1, n + 1))
    rng.shuffle(perm)
    rank = {v: i + 1 for i, v in enumerate(perm)}
    deps = [[] for _ in range(n)]
    for v in range(1, n + 1):
        lower = [u for u in range(1, n + 1) if rank[u] < rank[v]]
        k = rng.choice([0, 1, 1, 2, 3, 5]) if lower else 0
        ds = [rng.choice(lower) for _ in range(k)]
        if ds and rng.random() < 0.3:
            ds.append(ds[0])          # the same dependency twice
        deps[v - 1] = ds
    items = list(range(1, n + 1))
    rng.shuffle(items)
    if cyclic:
        # add one back edge (possibly a self-loop)
        a = rng.randint(1, n)
        if rng.random() < 0.25:
            deps[a - 1].insert(rng.randint(0, len(deps[a - 1])), a)
        else:
            # edge from a low-rank node up to something that reaches it, if any; else self-loop
            cands = [v for v in range(1, n + 1) if a in deps[v - 1]]
            if cands:
                deps[a - 1].append(rng.choice(cands))
            else:
                deps[a - 1].append(a)
        wit = py_witness(deps, items)
        assert wit is not None
        return deps, items, wit
    return deps, items, {"k": "rank", "rank": [rank[v] for v in range(1, n + 1)]}


def abs_rows(cases, results, tag):
    rows = []
    for c, r in zip(cases, results):
        status = r["outcome"]
        rows.append({"id": f"{tag}:{c['id']}", "deps": c["deps"], "items": c["items"], "status": status,
                     "order": r.get("order", []) or [], "wit": c.get("wit", {"k": "search"})})
    return rows


def run(chk):
    thorough = chk.tier == "thorough"
    rng = random.Random(chk.seed)
    W = chk.workdir
    tlc = chk.tlc
    mcmod = os.path.join(D, "MC_DepOrderDFS.tla")

    # ---- 1. exhaustive model checking of the mechanism against the property
    instances = [("seq N=3 K=2 loops", 3, 2, "seq", True, True, True),
                 ("part N=3 loops (all 512 digraphs x 16 partial listings)", 3, 0, "part", True, True, True),
                 ("set N=4 loops (all 65536 digraphs)", 4, 0, "set", True, True, True),
                 ("set N=5 loop-free (all 1048576 digraphs)", 5, 0, "set", False, False, False)]
    if thorough:
        instances += [("seq N=3 K=3 loops", 3, 3, "seq", True, True, True),
                      ("seq N=4 K=2 loops", 4, 2, "seq", True, True, False),
                      ("set N=5 loops (all 33554432 digraphs)", 5, 0, "set", True, False, False)]
    emitted = []
    for (name, N, K, mode, loops, emit, refine) in instances:
        cfg = os.path.join(W, f"mc_{N}_{K}_{mode}_{int(loops)}.cfg")
        mc_cfg(cfg, N, K, mode, loops, emit, refine)
        r = tlc.check(mcmod, cfg, coverage=(N <= 3), timeout=7200, mem="24g" if N == 5 and loops else "8g")
        chk.add_tlc("MC_DepOrderDFS " + name, r)
        chk.tlc_must_pass(name, r)
        if N <= 3 and r.coverage:
            for act in ["TopSkip", "TopEnter", "DepSkip", "DepCycle", "DepEnter", "Exit", "Finish"]:
                chk.require(r.coverage.get(act, 0) > 0, f"action {act} never taken in {name}")
        if emit:
            for i, c in enumerate(r.cases):
                c["id"] = f"{N}{mode}{K}-{i}"
            emitted.append((name, N, r.cases))

    # ---- 2. S->I replay into the generic orderer, with event recording
    all_abs = []
    n_traces = 0
    drift_seen = 0
    for (name, N, cases) in emitted:
        want_events = (N <= 3) or thorough
        sample_idx = set(range(len(cases))) if want_events else set(rng.sample(range(len(cases)), min(4000, len(cases))))
        for i, c in enumerate(cases):
            c["events"] = i in sample_idx
        res = vlib.harness("deporder_generic", cases, W, tag=f"gen_{N}_{len(cases)}")
        chk.cov["evaluations"] += len(cases)
        events = []
        for c, r in zip(cases, res):
            st = r["outcome"]
            if (st == "ok") != (c["status"] == "ok") or (st == "ok" and r["order"] != c["out"]) or st not in ("ok", "err"):
                drift_seen += 1
                if drift_seen <= 5:
                    chk.model_drift(f"generic orderer result differs from DepOrderDFS on {c['deps']}: model {c['status']} {c['out']} code {st} {r.get('order')}")
            if c["events"]:
                events.append({"e": "Graph", "deps": c["deps"], "items": c["items"]})
                events.extend(r.get("events", []))
                events.append({"e": "Done", "status": "ok" if st == "ok" else "err", "out": r.get("order", []) or []})
                n_traces += 1
        all_abs += abs_rows(cases, res, "generic")
        # I->S mechanism level
        tf = os.path.join(W, f"dfs_trace_{N}_{len(cases)}.ndjson")
        write_ndjson(tf, events)
        tr = tlc.trace(os.path.join(D, "Trace_DepOrderDFS.tla"), os.path.join(D, "Trace_DepOrderDFS.cfg"), tf)
        chk.add_tlc(f"Trace_DepOrderDFS on {name} ({len(events)} events)", tr)
        if not tr.ok:
            chk.model_drift(f"recorded Enter/Skip/Cycle/Exit trace not a behaviour of DepOrderDFS ({name}): {tr.error} {[l for l in tr.lines][:2]}")
            n_traces = 0
        if cases:
            chk.sample({"graph": {"deps": cases[0]["deps"], "items": cases[0]["items"]}, "model": [cases[0]["status"], cases[0]["out"]],
                        "code": [res[0]["outcome"], res[0].get("order")], "events": res[0].get("events")})
    chk.cov["traces_validated_against_impl"] += n_traces

    # ---- self-test: a corrupted trace must be rejected, a wrong order must be BAD
    good = [{"e": "Graph", "deps": [[2, 3], [3], []], "items": [1, 2, 3]}, {"e": "Enter", "n": 1}, {"e": "Enter", "n": 2},
            {"e": "Enter", "n": 3}, {"e": "Exit", "n": 3}, {"e": "Exit", "n": 2}, {"e": "Skip", "n": 3}, {"e": "Exit", "n": 1},
            {"e": "Done", "status": "ok", "out": [3, 2, 1]}]
    bad = [dict(e) for e in good]
    bad[4], bad[5] = bad[5], bad[4]      # Exit(2) before Exit(3)
    tf = os.path.join(W, "selftest_bad.ndjson")
    write_ndjson(tf, bad)
    tr = tlc.trace(os.path.join(D, "Trace_DepOrderDFS.tla"), os.path.join(D, "Trace_DepOrderDFS.cfg"), tf)
    chk.require(not tr.ok, "corrupted DFS trace was accepted")

    # ---- 3. embedded orderers on exhaustive small graphs and random large graphs
    small = [dict(c) for (name, N, cases) in emitted if N == 3 and "part" not in name for c in cases][:2197]
    partial = [dict(c) for (name, N, cases) in emitted if "part" in name for c in cases if len(c["items"]) < 3][::3]
    big = []
    nbig = 300 if thorough else 60
    for i in range(nbig):
        n = rng.choice([5, 8, 13, 30, 60, 120, 300]) if thorough else rng.choice([5, 8, 13, 30, 60, 150])
        deps, items, wit = random_graph(rng, n, cyclic=(i % 3 == 2))
        big.append({"id": f"rnd{i}", "deps": deps, "items": items, "wit": wit})
    # deep chain: recursion depth = n (no unbounded recursion, but depth n is legitimate)
    for n in ([2000] if thorough else [500]):
        deps = [[i] for i in range(2, n + 1)] + [[]]
        big.append({"id": f"chain{n}", "deps": deps, "items": list(range(1, n + 1)), "wit": {"k": "rank", "rank": list(range(n, 0, -1))}})
    res = vlib.harness("deporder_generic", big, W, tag="gen_big")
    all_abs += abs_rows(big, res, "generic")
    chk.cov["evaluations"] += len(big)
    # `form` varies how a dependency is expressed (GDS: SREF / AREF / both and repeated; raw, tetris: leaves with an
    # abstract view only / repeated instances / a library that was already ordered once before its instances were added):
    # what counts as "a depends on b" must not depend on the form, and the answer is about the library as it is at the call
    FORMS = {"gds": (0, 1, 2), "tetris": (0, 1, 2, 3, 4), "raw": (0, 1, 2, 3), "tproto": (0, 1, 2, 4), "rawproto": (0, 1, 2, 3)}
    for which, form in [(w, f) for w in EMBEDDED for f in FORMS.get(w, (0,))]:
        cases = []
        label = which if form == 0 else f"{which}+form{form}"
        # partial listings (a cell instantiated but not listed): not for GDSII, where an unlisted structure is undefined
        for c in small + big + (partial if which != "gds" and form == 0 else []):
            cc = {"id": c["id"], "deps": c["deps"], "items": c["items"], "which": which, "form": form}
            if "wit" in c:
                cc["wit"] = c["wit"]
            cases.append(cc)
        res = vlib.harness("deporder_embedded", cases, W, tag=f"emb_{which}_{form}", timeout_ms=20000)
        chk.cov["evaluations"] += len(cases)
        all_abs += abs_rows(cases, res, label)
        chk.sample({"orderer": which, "graph": {"deps": cases[5]["deps"], "items": cases[5]["items"]}, "code": [res[5]["outcome"], res[5].get("order")]})

    # ---- placement order of relative placements (the orderer embedded in the placer): the multi-instance programs of
    #      MC_Placer (chains, trees, cycles in every listing order), instances handed over through `instances`, through the
    #      general `places` list next to Port placeables, and mixed; the order in which the placer placed them is the ordering
    pdir = os.path.join(vlib.SPECS, "tetris")
    pcfg = os.path.join(W, "placer_multi.cfg")
    open(pcfg, "w").write('SPECIFICATION Spec\nCONSTANTS Scope = "multi"  NRand = 0\nINVARIANTS Emit\nCHECK_DEADLOCK FALSE\n')
    pr = tlc.check(os.path.join(pdir, "MC_Placer.tla"), pcfg, timeout=3600, mem="8g")
    chk.add_tlc("MC_Placer scope=multi (programs for the placement orderer)", pr)
    chk.tlc_must_pass("MC_Placer multi", pr)
    pcases = []
    for c in pr.cases:
        for via in (0, 1, 2):
            d = dict(c); d["via_places"] = via; d["id"] = len(pcases)
            pcases.append(d)
    pres = vlib.harness("placer", pcases, W, tag="placeorder", timeout_ms=20000)
    for c, q in zip(pcases, pres):
        chk.cov["evaluations"] += 1
        names = [i["name"] for i in c["insts"]]
        num = {n: k + 1 for k, n in enumerate(names)}
        deps = [[num[i["place"]["to"]]] if i["place"]["k"] == "rel" else [] for i in c["insts"]]
        oc = q.get("outcome")
        order = [num[p["name"]] for p in q.get("placed", []) if p["name"] in num] if oc == "ok" else []
        all_abs.append({"id": f"placer+places{c['via_places']}:{c['id']}", "deps": deps, "items": list(range(1, len(names) + 1)),
                        "status": oc if oc in ("ok", "err") else oc, "order": order, "wit": {"k": "search"}})

    # ---- property verdicts by TLC (Trace_DepOrderAbs)
    tf = os.path.join(W, "abs_trace.ndjson")
    write_ndjson(tf, all_abs)
    tr = tlc.trace(os.path.join(D, "Trace_DepOrderAbs.tla"), os.path.join(D, "Trace_DepOrderAbs.cfg"), tf, mem="8g")
    chk.add_tlc(f"Trace_DepOrderAbs ({len(all_abs)} recorded orderings)", tr)
    chk.tlc_must_pass("Trace_DepOrderAbs", tr)
    chk.cov["traces_validated_against_impl"] += len(all_abs)
    byid = {r["id"]: r for r in all_abs}
    nontrivial = set()
    for r in all_abs:
        if any(r["deps"]):
            nontrivial.add(json.dumps([r["id"].split(":")[0], r["deps"], r["items"]]))
    chk.cov["distinct_nontrivial"] = len(nontrivial)
    for kind, body in tr.lines:
        if kind != "BAD":
            continue
        b = json.loads(json.loads(body))
        row = byid[b["id"]]
        which = b["id"].split(":")[0]
        v = b["verdict"]
        if v.startswith("machinery"):
            raise vlib.ToolError(f"witness did not check for {b['id']}")
        cyc = py_witness(row["deps"], row["items"]) is not None
        if v == "bad-crash":
            klass = f"{'cycle' if cyc else 'acyclic'}-{row['status']}:{which}"
        elif v == "bad-order":
            klass = f"{'order-returned-on-cycle' if cyc else 'wrong-order'}:{which}"
        else:
            klass = f"err-on-acyclic:{which}"
        chk.violation(klass, which, {"deps": row["deps"] if len(row["deps"]) <= 12 else f"{len(row['deps'])} nodes", "items": row["items"][:12]},
                      {"verdict": v, "status": row["status"], "order": row["order"][:20]})
    # self-test (iii): a deliberately wrong expected value must be flagged
    tf2 = os.path.join(W, "selftest_abs.ndjson")
    write_ndjson(tf2, [{"id": "st", "deps": [[2], []], "items": [1, 2], "status": "ok", "order": [1, 2], "wit": {"k": "search"}}])
    tr2 = tlc.trace(os.path.join(D, "Trace_DepOrderAbs.tla"), os.path.join(D, "Trace_DepOrderAbs.cfg"), tf2)
    chk.require(any(k == "BAD" for k, _ in tr2.lines), "wrong order not flagged by Trace_DepOrderAbs")

    return chk.finish(
        "model_checking",
        rule="graphs: every deps-sequence assignment (N=3, K<=2[3]) and every labelled digraph (N=4 with loops, N=5) "
             "exhaustively in TLC; replayed into the generic orderer; exhaustive N=3 graphs + random DAG/cyclic graphs up to "
             "300 nodes into each of 5 embedded orderers. non-trivial = at least one dependency edge; distinct = (orderer, deps, items).",
        assumptions=["listing order of the exhaustive instances is 1..N (all labelled graphs are enumerated)",
                     "embedded orderers are observed through their public results (cell order of the produced library / message)",
                     "release build of the harness has overflow-checks and debug-assertions on (as the test profile)"],
        extra={"exhaustive": True})


def replay(chk, path):
    d = json.load(open(path))
    which, _, form = d["where"].partition("+form")
    form = int(form) if form else 0
    cases = []
    for i, v in enumerate(d["cases"]):
        c = v["case"]
        if isinstance(c["deps"], str):
            continue
        cases.append({"id": i, "deps": c["deps"], "items": c["items"], "which": which, "form": form, "events": True})
    res = vlib.harness("deporder_generic" if which == "generic" else "deporder_embedded", cases, chk.workdir)
    for c, r in zip(cases, res):
        print(json.dumps({"case": c, "result": r}))
    return 0
