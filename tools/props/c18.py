"""C18 — JSON and YAML copies of GDSII and LEF libraries are lossless.

Specification: specs/meta/SerdeModel.tla - the serde attribute semantics (skip_serializing[_if], default,
Option) over the field table EXTRACTED from gds21/src/data.rs and lef21/src/data.rs by
tools/extract_serde.py; TLC evaluates Lossless(field, value class) for every field and value class and names
the fields whose attributes cannot be lossless.  The value space comes from the other specifications: the
GDSII libraries of MC_GdsGen (every optional field, string and real class) and the LEF libraries of
MC_LefGen.  S->I: every library goes through SerializationFormat::{to_string/from_str, save/open} in JSON and
YAML: equal by ==, by field-wise projection (doubles as bit patterns) and, for GDSII, equal written bytes.
Plus 70 strings special in JSON/YAML in every string field and random in-range doubles in every real field.
The third-party text formats themselves are black boxes here.
"""
import os, json, subprocess, sys
import vlib
from vlib import SPECS
from . import gdscommon as G
from . import lefcommon as L

D = os.path.join(SPECS, "meta")


def run(chk):
    thorough = chk.tier == "thorough"
    W, tlc = chk.workdir, chk.tlc
    tmp = os.path.join(W, "tmp")
    os.makedirs(tmp, exist_ok=True)
    # ---- 1. attribute model over the extracted field table
    table = os.path.join(W, "serde_table.json")
    p = subprocess.run([sys.executable, os.path.join(vlib.VERIF, "tools", "extract_serde.py")], capture_output=True, text=True,
                       env=dict(os.environ, VERIF_REPO=vlib.REPO))
    if p.returncode != 0:
        raise vlib.ToolError("extract_serde failed: " + p.stderr[-500:])
    open(table, "w").write(p.stdout)
    rows = json.loads(p.stdout)
    chk.require(len(rows) > 150 and any(r["struct"] == "GdsLibrary" for r in rows) and any(r["struct"] == "LefMacro" for r in rows), "field table incomplete")
    cfg = os.path.join(W, "serde.cfg")
    open(cfg, "w").write("SPECIFICATION Spec\nINVARIANTS Emit\nCHECK_DEADLOCK FALSE\n")
    r = tlc.check(os.path.join(D, "SerdeModel.tla"), cfg, workers=4, timeout=600, env={"SERDE_TABLE": table})
    chk.add_tlc(f"SerdeModel over {len(rows)} extracted fields", r)
    chk.tlc_must_pass("SerdeModel", r)
    unknown = sorted({f"{c['struct']}.{c['field']} ({c['pred']})" for c in r.cases if c["unknown_pred"]})
    chk.cov["fields_with_unmodelled_skip_predicate"] = unknown
    if unknown:
        # the model cannot say which values such a predicate drops: those fields are decided by the value replay below
        chk.note("skip predicates the attribute model does not know (decided by value replay only): " + ", ".join(unknown[:8]))
    lossy_model = {(c["struct"], c["field"]): c for c in r.cases if not c["lossless"]}
    chk.cov["model_lossy_fields"] = [f"{k[0]}.{k[1]} ({v['class']} -> {v['back']})" for k, v in lossy_model.items()]
    for (st, fld), c in lossy_model.items():
        chk.violation(f"attribute-loses-value:{st}.{fld}", f"{c['crate']}/src/data.rs", {"struct": st, "field": fld, "value_class": c["class"]},
                      {"comes_back_as": c["back"], "source": "serde attributes (model level)"})
    # ---- 2. value space: GDS libraries
    gcases = G.generate(chk, thorough, want_unsupported=False, simulate=True)
    if not thorough:
        gcases = gcases[::3]
    res = vlib.harness("serde_gds", [{"id": c["id"], "lib": c["lib"], "tmp": tmp} for c in gcases], W, timeout_ms=30000)
    for c, q in zip(gcases, res):
        if q.get("outcome") != "ok":
            chk.violation("serde-crash:gds21", "SerializationFormat", G.short(c["lib"]), q)
            continue
        for rr in q["results"]:
            chk.cov["evaluations"] += 1
            judge(chk, "gds21", rr, G.short(c["lib"]))
    # ---- LEF libraries
    lcases = [c for c in L.generate(chk) if not c["rev"] and c["endlib"] and not c["expect_err"]]
    res = vlib.harness("serde_lef", [{"id": c["id"], "toks": c["toks"], "tmp": tmp} for c in lcases], W, timeout_ms=30000)
    for c, q in zip(lcases, res):
        if q.get("outcome") != "ok":
            chk.violation("serde-crash:lef21", "SerializationFormat", {"lib": L.describe(c["lib"])}, q)
            continue
        for rr in q.get("results", []):
            chk.cov["evaluations"] += 1
            judge(chk, "lef21", rr, {"lib": L.describe(c["lib"])})
    # ---- 3. special strings and random doubles
    nb = 40 if thorough else 4
    vres = vlib.harness("serde_values", [{"id": b, "seed": chk.seed * 1000 + b, "n": 2500 if thorough else 600, "tmp": tmp} for b in range(nb)], W, timeout_ms=300000)
    nd = ns = 0
    for q in vres:
        if q.get("outcome") != "ok":
            chk.violation("serde-crash:values", "SerializationFormat", {"batch": q.get("id")}, q)
            continue
        nd += q["doubles_checked"]; ns += q["strings_checked"]
        chk.cov["evaluations"] += q["doubles_checked"] + q["strings_checked"]
        for pr in q["problems"]:
            if pr["kind"] == "neutral":
                path = (pr["r"].get("diff") or ["?"])[0]
                chk.violation(f"neutral-value-lost:{pr['fmt']}:{L.norm_path(path)}", "SerializationFormat::" + pr["fmt"], {"format": pr["fmt"], "values": pr["value"]}, pr["r"])
            elif pr["kind"] == "double":
                path = (pr["r"].get("diff") or ["?"])[0]
                chk.violation(f"double-not-bit-exact:{pr['fmt']}", "SerializationFormat::" + pr["fmt"], {"format": pr["fmt"], "field": L.norm_path(path)}, pr["r"])
            else:
                chk.violation(f"string-changed:{pr['crate']}:{pr['fmt']}", "SerializationFormat::" + pr["fmt"], {"value": pr["value"], "format": pr["fmt"], "via": pr["via"]}, pr["r"])
    chk.cov["doubles_checked"] = nd
    chk.cov["strings_checked"] = ns
    chk.cov["distinct_nontrivial"] = len(gcases) + len(lcases) + nd
    chk.sample({"field_table_rows": rows[:3], "model_lossy": chk.cov["model_lossy_fields"], "gds_case": G.short(gcases[len(gcases) // 2]["lib"])})
    return chk.finish(
        "model_checking",
        rule="attribute model: every (field, value class) of the extracted table; values: the GDSII libraries of MC_GdsGen (every optional "
             "field subset, string/real/int classes; 1/3 of them in the quick tier) and the LEF libraries of MC_LefGen x {JSON, YAML} x "
             "{string, file}; 70 special strings in every string field; random in-range doubles in units/mag/angle.",
        assumptions=["serde_json and serde_yaml are black boxes: the specification covers the attribute semantics and the enumeration of values",
                     "Unsupported placeholder fields are outside the value space", "doubles are patched as bit patterns and compared as bit patterns"])


def judge(chk, crate, rr, desc):
    r = rr["r"]
    where = f"SerializationFormat::{rr['fmt']}"
    if r["outcome"] == "panic":
        chk.violation(f"serde-panic:{crate}:{rr['fmt']}", where, desc, r)
    elif r["outcome"] == "err":
        chk.violation(f"serde-error:{crate}:{rr['fmt']}", where, desc, r)
    elif not (r["eq"] and r["proj_eq"]) or r.get("bytes_eq") is False:
        path = L.norm_path((r.get("diff") or ["?"])[0])
        kind = "double-not-bit-exact" if any(k in path for k in ("units", "mag", "angle")) and crate == "gds21" else "value-changed"
        chk.violation(f"{kind}:{crate}:{rr['fmt']}:{path}", where, desc, r)


def replay(chk, path):
    print(open(path).read())
    return 0
