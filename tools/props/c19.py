"""C19 — gridded-layout libraries survive the trip through their protobuf schema.

Specification: specs/tetris/TetrisProto.tla (field relation tetris <-> vlsir.tetris as a function; ordering
obligation ExportOrderOK = DepOrderProps!ValidOrder; Breakages: every way to remove or corrupt one mandatory
part of a message) and MC_TetrisProto.tla.  S->I: export must be the relation's message (cells in any
dependencies-first order, validated by TLC), import(export(lib)) ~ lib, the specification's message survives
import->export, and every broken message is rejected with an error, never a crash.
"""
import os, json
import vlib
from vlib import SPECS, write_ndjson
from .c14 import first_diff

D = os.path.join(SPECS, "tetris")


def run(chk):
    W, tlc = chk.workdir, chk.tlc
    cfg = os.path.join(W, "tproto.cfg")
    nrand = 1500 if chk.tier == "thorough" else 40
    open(cfg, "w").write(f"SPECIFICATION Spec\nCONSTANT NRand = {nrand}\nINVARIANTS OrderIsValid OutlinesValid Emit\nCHECK_DEADLOCK FALSE\n")
    r = tlc.check(os.path.join(D, "MC_TetrisProto.tla"), cfg, timeout=3600)
    chk.add_tlc("MC_TetrisProto libraries + message breakages", r)
    chk.tlc_must_pass("MC_TetrisProto", r)
    cases = r.cases
    for i, c in enumerate(cases):
        c["id"] = i
    chk.require(len(cases) >= 12 and sum(len(c["breakages"]) for c in cases) > 100, "case set incomplete")
    res = vlib.harness("tetris_proto", cases, W, timeout_ms=20000)
    order_events, nb = [], 0
    for c, q in zip(cases, res):
        chk.cov["evaluations"] += 1
        lib = c["lib"]
        desc = {"cells": [x["name"] for x in lib["cells"]]}
        if q.get("outcome") != "ok":
            chk.violation("conversion-" + str(q.get("outcome")), "tetris::conv::proto", desc, {"msg": q.get("msg"), "loc": q.get("loc")})
            continue
        ex = q["export"]
        if ex["outcome"] != "ok":
            chk.violation(f"export-{ex['outcome']}", "ProtoExporter", desc, ex)
            continue
        got, want = ex["proto"], c["proto"]
        names = [x["name"] for x in lib["cells"]]
        gn = [x["name"] for x in got["cells"]]
        if got["domain"] != want["domain"] or sorted(gn) != sorted(names):
            chk.violation("library-fields-or-cells-differ", "ProtoExporter", desc, {"domain": got["domain"], "cells": gn})
            continue
        order_events.append({"id": str(c["id"]), "deps": c["deps"], "items": list(range(1, len(names) + 1)), "status": "ok",
                             "order": [names.index(n) + 1 for n in gn], "wit": {"k": "search"}})
        wc = {x["name"]: x for x in want["cells"]}
        for x in got["cells"]:
            d = first_diff(wc[x["name"]], x)
            if d:
                chk.violation("message-differs:" + d[0].split("/")[-1 if not d[0].split("/")[-1].isdigit() else -2], "ProtoExporter", desc,
                              {"cell": x["name"], "path": d[0], "want": d[1], "got": d[2]})
        b = q.get("back", {})
        if b.get("outcome") != "ok":
            chk.violation(f"reimport-{b.get('outcome')}", "ProtoLibImporter", desc, b)
        else:
            bb = {x["name"]: x for x in q["before"]["cells"]}
            aa = {x["name"]: x for x in b["lib"]["cells"]}
            if b["lib"]["name"] != q["before"]["name"] or set(bb) != set(aa):
                chk.violation("name-or-cells-changed", "tetris<->proto", desc, {"after": sorted(aa)})
            else:
                for n in bb:
                    d = first_diff(bb[n], aa[n])
                    if d:
                        chk.violation("round-trip-differs:" + d[0].split("/")[1], "tetris<->proto", desc, {"cell": n, "path": d[0], "before": d[1], "after": d[2]})
        cn = q["canon"]
        if cn["outcome"] != "ok":
            chk.violation(f"canonical-message-{cn['outcome']}", "ProtoLibImporter/Exporter", desc, cn)
        elif first_diff(want, cn["proto"]):
            d = first_diff(want, cn["proto"])
            chk.violation("canonical-message-changed", "tetris<->proto", desc, {"path": d[0], "want": d[1], "got": d[2]})
        for br in q["broken"]:
            nb += 1
            chk.cov["evaluations"] += 1
            oc = br["r"]["outcome"]
            if oc == "panic":
                chk.violation("malformed-message-panic:" + br["b"]["what"], "ProtoLibImporter", {"breakage": br["b"]}, br["r"])
            elif oc == "ok":
                chk.violation("malformed-message-accepted:" + br["b"]["what"], "ProtoLibImporter", {"breakage": br["b"]}, br["r"])
    tf = os.path.join(W, "order.ndjson")
    write_ndjson(tf, order_events)
    od = os.path.join(SPECS, "order")
    r2 = tlc.trace(os.path.join(od, "Trace_DepOrderAbs.tla"), os.path.join(od, "Trace_DepOrderAbs.cfg"), tf)
    chk.add_tlc(f"Trace_DepOrderAbs on {len(order_events)} exported cell orders", r2)
    chk.tlc_must_pass("Trace_DepOrderAbs", r2)
    chk.cov["traces_validated_against_impl"] = len(order_events)
    for kind, body in r2.lines:
        if kind == "BAD":
            chk.violation("cells-not-dependencies-first", "ProtoExporter", {"case": body}, {})
    chk.sample({"library": cases[0]["lib"], "spec_message": cases[0]["proto"], "breakages": cases[0]["breakages"][:4]})
    chk.cov["distinct_nontrivial"] = len(cases) + nb
    chk.cov["broken_messages"] = nb
    return chk.finish(
        "model_checking",
        rule="libraries: one instance in each of 4 reflection combinations; a 3-cell DAG with stepped outlines, 3 instances, 3 assignments, "
             "2 cuts in all 6 listing orders; a 5-deep chain listed users-first; empty library/cell; and for each exported message every "
             "single breakage (6 outline faults per cell, 7 per instance, 3 per assignment, 2 per cut).",
        assumptions=["abstract ports are outside the claim (the importer's port path is todo!())", "instances are placed absolutely"],
        extra={"exhaustive": True})


def replay(chk, path):
    print(open(path).read())
    return 0
