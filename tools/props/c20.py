"""C20 — conversions are deterministic: same input, same output, in any process.

Specification: specs/meta/Determinism.tla (design level: a HashMap visited in iteration order is an
environment choice `\\E perm`; TLC shows that an exporter visiting a map in "hash" order has two different
outputs for one input while "sorted" order is deterministic and complete) and Trace_Determinism.tla (the
functional-dependency invariant over recorded runs: digest of the full ordered output is a function of
(conversion, input), across runs and across processes).
I->S: inputs of C06, C07, C14, C16 (and C08) plus abstracts with 3-4 keys in every unordered map; each
conversion runs 5x in each of 4 (quick) / 32 (thorough) fresh processes; TLC validates all recorded runs.
"""
import os, json, random
import vlib
from vlib import SPECS, write_ndjson

D = os.path.join(SPECS, "meta")


def rect(i):
    return {"k": "rect", "pts": [[i, i + 1], [i + 5, i + 9]], "width": 0, "net": ""}


def poly(i):
    return {"k": "polygon", "pts": [[i, 0], [i + 4, 0], [i + 4, 1], [i + 1, 1], [i + 1, 3], [i, 3]], "width": 0, "net": ""}


def abs_lib(nl, with_path=False, layers=None):
    layers = layers or list(range(1, nl + 1))
    ports = [{"net": n, "shapes": [{"layer": l, "shapes": [rect(l + k), poly(10 * l + k)]} for l in layers]} for k, n in enumerate(["A", "B", "clk"])]
    blk = [{"layer": l, "shapes": [rect(100 + l)]} for l in layers]
    cell = {"name": "abx", "has_layout": False, "insts": [], "elems": [], "annots": [],
            "abs": [{"outline": [[0, 0], [50, 0], [50, 40], [0, 40]], "ports": ports, "blockages": blk}]}
    return {"name": "detlib", "units": "Nano", "cells": [cell]}


def run(chk):
    thorough = chk.tier == "thorough"
    W, tlc = chk.workdir, chk.tlc
    rng = random.Random(chk.seed)
    # ---- design level
    for mode, expect_ok in (("sorted", True), ("hash", False)):
        cfg = os.path.join(W, f"det_{mode}.cfg")
        open(cfg, "w").write(f'SPECIFICATION DSpec\nCONSTANTS Keys = {{1, 2, 3, 4}}  Mode = "{mode}"\nINVARIANTS Deterministic Complete\nCHECK_DEADLOCK FALSE\n')
        r = tlc.check(os.path.join(D, "Determinism.tla"), cfg, workers=2, timeout=600)
        chk.add_tlc(f"Determinism.tla map visited in {mode} order", r)
        if expect_ok:
            chk.tlc_must_pass("Determinism sorted", r)
        else:
            chk.require((not r.ok) and "Deterministic" in r.raw, "negative control: hash-order iteration was not found nondeterministic by TLC")
    # ---- inputs
    def gen(moddir, mod, inv, key="lib", extra_lib=None, consts=""):
        cfg = os.path.join(W, mod + ".cfg")
        open(cfg, "w").write(f"SPECIFICATION Spec\n{consts}INVARIANTS {inv}\nCHECK_DEADLOCK FALSE\n")
        r = tlc.check(os.path.join(SPECS, moddir, mod + ".tla"), cfg, timeout=3600)
        chk.add_tlc(mod + " (inputs)", r)
        chk.tlc_must_pass(mod, r)
        return r.cases
    inputs = []     # (conv, input name, input)
    rp = gen("raw", "MC_RawProto", "Emit", consts="CONSTANT NRand = 10\n")
    for i, c in enumerate(rp):
        if c["in_schema"]:
            inputs.append(("raw2proto", f"rawproto{i}", c["lib"]))
            if not any(x["abs"] for x in c["lib"]["cells"]) or True:
                inputs.append(("raw2gds", f"rawproto{i}", c["lib"]))
    for nl in (2, 3, 4):
        lib = abs_lib(nl)
        inputs += [("raw2proto", f"abs{nl}", lib), ("raw2gds", f"abs{nl}", lib), ("raw2lef", f"abs{nl}", lib)]
    # layers that share one GDSII number (ids 101..103 = li / mcon / licon, all number 68): a sort key must still be total
    same = abs_lib(3, layers=[101, 102, 103]); same["name"] = "samenum"
    mixed = abs_lib(4, layers=[2, 103, 101, 1]); mixed["name"] = "mixednum"
    for nm, lib in (("samenum", same), ("mixednum", mixed)):
        inputs += [("raw2gds", nm, lib), ("raw2proto", nm, lib), ("raw2lef", nm, lib)]
    # a layer on which one purpose is registered under two datatype numbers (abstract layer id 104)
    dup = {"name": "duppurpose", "units": "Nano", "cells": [{"name": "c", "has_layout": True, "insts": [], "annots": [], "abs": [],
           "elems": [{"layer": 104, "purpose": "Drawing", "k": "rect", "pts": [[0, 0], [4, 2]], "width": 0, "net": "n"},
                     {"layer": 104, "purpose": "Pin", "k": "rect", "pts": [[10, 0], [14, 2]], "width": 0, "net": ""}]}]}
    inputs += [("raw2gds", "duppurpose", dup), ("raw2proto", "duppurpose", dup)]
    gs = [c for c in gen("raw", "MC_GdsSemantics", "Emit", consts="CONSTANT NDeep = 10\n") if not c["must_err"]]
    fan = [c for c in gs if any(st["name"] == "fan_top" for st in c["lib"])]
    chk.require(len(fan) >= 3, "fan-out GDS inputs missing")
    for i, c in enumerate(fan + rng.sample(gs, min(len(gs), 60 if thorough else 25))):
        inputs.append(("gds2raw", f"gdssem{i}", c["lib"]))
    rg = gen("raw", "MC_RawGds", "Emit", consts="CONSTANT NDeep = 10\n")
    fanr = [c for c in rg if any(cl["name"] == "fan_top" for cl in c["lib"]["cells"])]
    chk.require(len(fanr) >= 2, "fan-out raw inputs missing")
    for i, c in enumerate(fanr + rng.sample(rg, min(len(rg), 80 if thorough else 25))):
        inputs.append(("raw2gds", f"rawgds{i}", add_defaults(c["lib"])))
        if i < len(fanr):
            inputs.append(("raw2proto", f"rawgds{i}", add_defaults(c["lib"])))
    lr = [c for c in gen("raw", "MC_LefRaw", "Emit", consts="CONSTANT NRand = 10\n") if not c["must_err"]]
    multi = [c for c in lr if len(c["toks"]) > 60] + rng.sample(lr, 10)
    for i, c in enumerate(multi):
        inputs.append(("lef2raw", f"lefraw{i}", {"toks": c["toks"]}))
        if not any(t.get("v") == "PATH" for t in c["toks"]):
            inputs.append(("lef2raw2lef", f"lefraw{i}", {"toks": c["toks"]}))
    # the same raw libraries with LONG cell names (45 to 80 characters, common prefixes longer than any format's traditional
    # limit, multi-byte characters): whatever an exporter does to names, it does the same in every process
    def long_names(lib):
        import copy
        lib = copy.deepcopy(lib)
        ren = {c["name"]: "cell_with_a_long_hierarchical_name_" + "x" * (7 * k % 30) + "_é中_" + c["name"] for k, c in enumerate(lib["cells"])}
        for c in lib["cells"]:
            c["name"] = ren[c["name"]]
            for i in c.get("insts", []):
                i["cell"] = ren.get(i["cell"], i["cell"])
        return lib
    for (cv, name, inp) in list(inputs):
        if cv in ("raw2gds", "raw2proto", "raw2lef") and (name.startswith("abs") or name.startswith("rawgds")) and isinstance(inp, dict) and "cells" in inp:
            inputs.append((cv, name + "+longnames", long_names(inp)))
    inputs += tetris_inputs(chk)
    chk.require(len(inputs) >= 100, "too few determinism inputs")
    cases = [{"id": k, "conv": cv, "input": inp, "n": 5} for k, (cv, name, inp) in enumerate(inputs)]
    nproc = 32 if thorough else 4
    events = []
    errs = {}
    for p in range(nproc):
        res = vlib.harness("determinism", cases, W, tag=f"det_p{p}", timeout_ms=30000)   # a fresh child process per call
        for (cv, name, inp), q in zip(inputs, res):
            chk.cov["evaluations"] += 1
            if q.get("outcome") != "ok":
                chk.violation(f"conversion-{q.get('outcome')}:{cv}", cv, {"input": name}, {"msg": q.get("msg"), "loc": q.get("loc")})
                continue
            if q["first"].startswith("ERR:"):
                errs[(cv, name)] = q["first"]
            for k, dg in enumerate(q["digests"]):
                events.append({"conv": cv, "input": name, "process": q["pid"], "run": k, "digest": dg})
    for (cv, name), e in list(errs.items())[:5]:
        chk.note(f"conversion {cv} on {name} returns an error (still required to be the same error every time): {e[:120]}")
    tf = os.path.join(W, "runs.ndjson")
    write_ndjson(tf, events)
    r = tlc.trace(os.path.join(D, "Trace_Determinism.tla"), os.path.join(D, "Trace_Determinism.cfg"), tf, mem="8g")
    chk.add_tlc(f"Trace_Determinism ({len(events)} recorded runs of {len(inputs)} (conversion, input) pairs in {nproc} processes)", r)
    chk.tlc_must_pass("Trace_Determinism", r)
    chk.cov["traces_validated_against_impl"] = len(events)
    for kind, body in r.lines:
        if kind == "BAD":
            b = json.loads(json.loads(body))
            inp = next(i for (cv, name, i) in inputs if cv == b["conv"] and name == b["input"])
            nkeys = ""
            chk.violation(f"output-differs-between-runs:{b['conv']}", b["conv"], {"input": b["input"]},
                          {"first_differing_run": b["run"], "process": b["process"]})
    # self-test (ii): a flipped digest must be reported
    bad = [dict(events[0]), dict(events[0], run=99, digest="0000000000000000:1")]
    write_ndjson(tf, bad)
    r2 = tlc.trace(os.path.join(D, "Trace_Determinism.tla"), os.path.join(D, "Trace_Determinism.cfg"), tf)
    chk.require(any(k == "BAD" for k, _ in r2.lines), "differing digest accepted by Trace_Determinism")
    chk.sample({"conversion": inputs[0][0], "input": inputs[0][1], "runs": events[:3]})
    chk.cov["distinct_nontrivial"] = len(inputs)
    return chk.finish(
        "model_checking",
        rule="(conversion, input) pairs: raw->proto and raw->gds on every C14 library, on abstracts with 2/3/4 layers in every port and in the "
             "blockages; raw->lef on those abstracts; gds->raw on C06 libraries; raw->gds on C07 libraries; lef->raw and lef->raw->lef on C16 "
             "macros; tetris->raw on C08 cells; 5 runs x 4 (32) fresh processes each. distinct = pairs.",
        assumptions=["GDSII creation timestamps are normalised with set_all_dates before hashing (documented exception)",
                     "results that ARE maps (raw abstract blockages / port shapes) are hashed with sorted keys; ordered outputs are hashed as they are",
                     "a conversion that fails must fail identically"])


def add_defaults(lib):
    lib = json.loads(json.dumps(lib))
    for c in lib["cells"]:
        c.setdefault("annots", []); c.setdefault("abs", []); c.setdefault("has_layout", True)
    return lib


def tetris_inputs(chk):
    from . import c08
    return c08.determinism_inputs(chk)


def replay(chk, path):
    print(open(path).read())
    return 0
