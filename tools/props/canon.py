"""Canonical forms for comparing geometry (DESIGN.md §4): rectangles = axis-aligned 4-gons = (min, max) corners;
polygons as cyclic vertex sequences up to rotation and reversal; paths verbatim with their width."""


def canon_poly(pts):
    pts = [tuple(p) for p in pts]
    # drop a closing repeat
    if len(pts) > 1 and pts[0] == pts[-1]:
        pts = pts[:-1]
    n = len(pts)
    if n == 0:
        return ("polygon", ())
    best = None
    for seq in (pts, pts[::-1]):
        for k in range(n):
            r = tuple(seq[k:] + seq[:k])
            if best is None or r < best:
                best = r
    return ("polygon", best)


def is_rect4(pts):
    pts = [tuple(p) for p in pts]
    if len(pts) > 1 and pts[0] == pts[-1]:
        pts = pts[:-1]
    if len(pts) != 4:
        return False
    xs = sorted(set(p[0] for p in pts)); ys = sorted(set(p[1] for p in pts))
    if len(xs) != 2 or len(ys) != 2:
        return False
    corners = {(xs[0], ys[0]), (xs[1], ys[0]), (xs[1], ys[1]), (xs[0], ys[1])}
    if set(pts) != corners:
        return False
    # consecutive vertices must share a coordinate (no bow-tie)
    return all(pts[i][0] == pts[(i + 1) % 4][0] or pts[i][1] == pts[(i + 1) % 4][1] for i in range(4))


def canon_shape(k, pts, width=0):
    """k in rect|polygon|path"""
    if k == "path":
        return ("path", tuple(tuple(p) for p in pts), int(width))
    if k == "rect":
        (x0, y0), (x1, y1) = pts[0], pts[1]
        return ("rect", min(x0, x1), min(y0, y1), max(x0, x1), max(y0, y1))
    if is_rect4(pts):
        xs = [p[0] for p in pts]; ys = [p[1] for p in pts]
        return ("rect", min(xs), min(ys), max(xs), max(ys))
    return canon_poly(pts)


def canon_elem(e):
    return (e.get("layer"), e.get("dt"), canon_shape(e["k"], e["pts"], e.get("width", 0)))


def bag(elems):
    return sorted((repr(canon_elem(e)) for e in elems))
