"""Shared by C01, C02, C03, C10: running the independent GDSII encoder (MC_GdsGen) in TLC."""
import os, json
import vlib
from vlib import SPECS

D = os.path.join(SPECS, "gds")


def gen_cfg(path, structs, elems, props, nprof, unsup, invariants="WellFramed LastRoundTrips Emit"):
    open(path, "w").write(
        "SPECIFICATION Spec\n"
        f"CONSTANTS MaxStructs = {structs}  MaxElems = {elems}  MaxProps = {props}  NProf = {nprof}  "
        f"WithUnsupported = {'TRUE' if unsup else 'FALSE'}\nINVARIANTS {invariants}\nCHECK_DEADLOCK FALSE\n")


def generate(chk, thorough, want_unsupported=True, simulate=True):
    """Returns list of cases {id, lib, bytes, pad, prof, src}."""
    W, tlc = chk.workdir, chk.tlc
    mod = os.path.join(D, "MC_GdsGen.tla")
    cases = []
    cfg = os.path.join(W, "gen_single.cfg")
    gen_cfg(cfg, 1, 1, 2, 7 if thorough else 6, False)
    r = tlc.check(mod, cfg, coverage=False, timeout=7200, mem="12g")
    chk.add_tlc("MC_GdsGen one element per stream, every optional-record subset", r)
    chk.tlc_must_pass("MC_GdsGen single", r)
    for c in r.cases:
        c["src"] = "single"
    cases += r.cases
    if want_unsupported:
        cfg = os.path.join(W, "gen_unsup.cfg")
        gen_cfg(cfg, 1, 0, 0, 5, True)      # 5 profiles: every 16-bit class (incl. 0) in every library-level record
        r = tlc.check(mod, cfg, timeout=3600)
        chk.add_tlc("MC_GdsGen library-level optional records", r)
        chk.tlc_must_pass("MC_GdsGen unsupported", r)
        for c in r.cases:
            c["src"] = "libhdr"
        cases += r.cases
    if thorough:
        cfg = os.path.join(W, "gen_pairs.cfg")
        gen_cfg(cfg, 1, 2, 1, 2, False)
        r = tlc.check(mod, cfg, timeout=14400, mem="24g")
        chk.add_tlc("MC_GdsGen two elements per stream", r)
        chk.tlc_must_pass("MC_GdsGen pairs", r)
        for c in r.cases:
            c["src"] = "pairs"
        cases += r.cases
    if simulate:
        cfg = os.path.join(W, "gen_sim.cfg")
        gen_cfg(cfg, 3, 4, 2, 40, False, invariants="Emit")
        r = tlc.check(mod, cfg, simulate=(3000 if thorough else 300), depth=400, seed=chk.seed, workers=4, timeout=3600)
        chk.add_tlc("MC_GdsGen simulated multi-structure libraries", r)
        if not r.ok and r.error != "timeout":
            # -simulate ends with exit code 0 when num traces are done
            chk.tlc_must_pass("MC_GdsGen simulate", r)
        for c in r.cases:
            c["src"] = "sim"
        cases += r.cases
    for i, c in enumerate(cases):
        c["id"] = i
    chk.require(len(cases) > 1000, f"only {len(cases)} generated streams")
    return cases


def has_empty_string(lib):
    def e(x):
        return isinstance(x, list) and len(x) == 0
    if e(lib["name"]):
        return True
    for s in lib["structs"]:
        if e(s["name"]):
            return True
        for el in s["elems"]:
            if ("name" in el and e(el["name"])) or ("string" in el and e(el["string"])):
                return True
            if any(e(p["value"]) for p in el["props"]):
                return True
    return False


def short(lib):
    """compact description of a library for reports"""
    return {"name": bytes(lib["name"]).decode("utf8", "replace"), "structs": [
        {"name": bytes(s["name"]).decode("utf8", "replace"), "elems": [el["kind"] for el in s["elems"]]} for s in lib["structs"]]}
