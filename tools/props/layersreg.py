"""The layer registry (specs/raw/Layers.tla, MC_Layers.tla): every sequence of MaxOps operations, replayed into
layout21raw::Layers with the complete observable state compared after every operation.  Used as a stage of C14 (the protobuf
and GDSII importers resolve (layer number, purpose number) pairs through Layers::get_or_insert)."""
import os, json
import vlib
from vlib import SPECS

D = os.path.join(SPECS, "raw")


def stage(chk, maxops):
    W = chk.workdir
    cfg = os.path.join(W, "layers.cfg")
    open(cfg, "w").write(f"SPECIFICATION Spec\nCONSTANT MaxOps = {maxops}\n"
                         "INVARIANTS KeysValid LatestWins PurposeMapsAgree NumberedPurposesMatch GoiIdempotent Emit\nCHECK_DEADLOCK FALSE\n")
    r = chk.tlc.check(os.path.join(D, "MC_Layers.tla"), cfg, timeout=3600, mem="8g")
    chk.add_tlc(f"MC_Layers every sequence of {maxops} registry operations", r)
    chk.tlc_must_pass("MC_Layers", r)
    cases = [dict(c, id=i) for i, c in enumerate(r.cases)]
    chk.require(len(cases) > 2000, f"only {len(cases)} registry sequences")
    res = vlib.harness("layers_ops", cases, W, timeout_ms=20000)
    nbad = 0
    for c, q in zip(cases, res):
        chk.cov["evaluations"] += 1
        if q.get("outcome") != "ok":
            chk.violation(f"layer-registry-{q.get('outcome')}", "raw::Layers", {"ops": [brief(h) for h in c["hist"]]}, {"msg": q.get("msg"), "loc": q.get("loc")})
            continue
        for k, (h, st) in enumerate(zip(c["hist"], q["steps"])):
            want = {"ok": h["ok"], "key": h["key"]} if h["op"] == "add" else {"key": h["key"], "p": h["p"]}
            got = st["res"]
            if h["op"] == "add" and not h["ok"]:
                want = {"ok": False}
            diff = None
            if any(got.get(f) != v for f, v in want.items()):
                diff = ("result", want, got)
            else:
                a, b = norm(h["ans"]), norm(st["ans"])
                if a != b:
                    f = next(f for f in a if a[f] != b.get(f))
                    diff = (f, a[f], b.get(f))
            if diff:
                nbad += 1
                chk.violation(f"layer-registry:{h['op']}:{diff[0]}", "raw::Layers", {"ops": [brief(x) for x in c["hist"][:k + 1]]},
                              {"model": diff[1], "code": diff[2]})
                break
    # self-test (iii): an altered expectation must be noticed
    st = json.loads(json.dumps(cases[len(cases) // 2])); st["hist"][-1]["ans"]["nextnum"] += 1
    q = vlib.harness("layers_ops", [st], W, tag="layers_selftest")[0]
    chk.require(norm(st["hist"][-1]["ans"]) != norm(q["steps"][-1]["ans"]), "registry comparison did not notice an altered expectation")
    # unbounded argument (Apalache): KeysValid and LatestWins are inductive for ANY layer numbers
    apa = os.path.join(SPECS, "apalache", "LayersInd.tla")
    base, t1 = vlib.apalache(apa, ["--init=BaseInit", "--inv=IndInv", "--length=0"])
    step, t2 = vlib.apalache(apa, ["--init=IndInit", "--inv=IndInv", "--length=1"])
    chk.cov["apalache_layer_keys_inductive"] = {"base_case": base, "inductive_step": step, "seconds": t1 + t2,
                                                "scope": "any integer layer numbers, four names, registries of up to 4 layers before the step"}
    vlib.log(f"[apalache] LayersInd: base {base}, step {step} ({t1 + t2:.1f}s)")
    chk.require(base != "Error" and step != "Error", "Apalache: the key invariants of the layer registry are not inductive (specification defect)")
    return len(cases)


def brief(h):
    return {k: v for k, v in h.items() if k not in ("ans",)}


def norm(a):
    """model and code answers in one shape: keynum list, keyname dict, nextnum, nslots, purposes (per slot: sorted [pn, purpose])"""
    kn = a["keynum"]
    if isinstance(kn, dict):
        kn = [kn[str(n)] if str(n) in kn else kn.get(n) for n in (1, 2, 3)]
    pur = a["purposes"]
    if isinstance(pur, dict):
        pur = [pur[k] for k in sorted(pur, key=int)]
    return {"keynum": [list(x) for x in kn], "keyname": {k: list(v) for k, v in a["keyname"].items()}, "nextnum": a["nextnum"], "nslots": a["nslots"],
            "purposes": [[[p[0], list(p[1])] for p in sl] for sl in pur]}
