"""Shared by C04, C05, C11, C16: the LEF case generator (MC_LefGen) and result classification."""
import os, re, json
import vlib
from vlib import SPECS

D = os.path.join(SPECS, "lef")


def generate(chk):
    cfg = os.path.join(chk.workdir, "lefgen.cfg")
    ncompose = 6000 if chk.tier == "thorough" else 60
    open(cfg, "w").write(f"SPECIFICATION Spec\nCONSTANT NCompose = {ncompose}\nINVARIANTS Balanced Emit\nCHECK_DEADLOCK FALSE\n")
    r = chk.tlc.check(os.path.join(D, "MC_LefGen.tla"), cfg, timeout=3600)
    chk.add_tlc("MC_LefGen per-construct LEF libraries rendered by LefSyntax", r)
    chk.tlc_must_pass("MC_LefGen", r)
    cases = r.cases
    for i, c in enumerate(cases):
        c["id"] = i
    chk.require(len(cases) >= 1000, f"only {len(cases)} LEF cases")
    return cases


def norm_path(p):
    return re.sub(r"/\d+", "/#", p or "")


def describe(lib):
    """short description of what the library contains"""
    out = []
    for k in ("version", "names_case_sensitive", "no_wire_extension_at_pin", "bus_bit_chars", "divider_char", "units", "manufacturing_grid",
              "use_min_spacing", "clearance_measure", "property_definitions", "extensions", "sites", "vias"):
        if lib.get(k):
            out.append(k)
    if lib.get("fixed_mask"):
        out.append("fixed_mask")
    for m in lib.get("macros", []):
        out.append("macro(" + ",".join(k for k, v in m.items() if v and k != "name") + ")")
    return " ".join(out)[:300]


def klass(p):
    stage, oc = p["stage"], p["outcome"]
    tag = ""
    if oc in ("err", "panic"):
        tag = ":nonascii-comment" if p.get("var", {}).get("sep") == 4 else ":" + re.sub(r"[^A-Za-z]+", "-", (p.get("msg") or ""))[:60]
    return f"{stage}-{oc}:{norm_path(p.get('path'))}{tag}"
