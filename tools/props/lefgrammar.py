"""The LEF grammar acceptor (specs/lef/LefGrammar.tla, Trace_LefGrammar.tla) as a stage of C05.
 (a) self-consistency of the two reference models: every text rendered from LefSyntax must be accepted;
 (b) I->S: the text the crate's WRITER produces for every library it has read must be accepted;
 (c) negative control: damaged token lists (a dropped END, a dropped ';', a misplaced statement) must be rejected.
A rejection under (b) is reported as MODEL-DRIFT, not as a violation: C05 is about write-then-read identity, and says nothing
about the written text beyond that; (a) and (c) are self-tests of the machinery (tool error if they fail)."""
import os, json
import vlib
from vlib import SPECS, write_ndjson

D = os.path.join(SPECS, "lef")


def stage(chk, cases):
    W = chk.workdir
    sel = [c for c in cases if not c["expect_err"]]
    reqs = [{"id": c["id"], "toks": c["toks"], "kw": c["id"] % 3, "sep": c["id"] % 6, "sp": c["id"] % 4} for c in sel]
    res = vlib.harness("lef_tokens", reqs, W, timeout_ms=20000)
    texts, written_text = [], {}
    for c, q in zip(sel, res):
        if q.get("outcome") != "ok":
            continue
        texts.append({"id": f"r{c['id']}", "expect": "accept", "toks": q["rendered"]})
        if "written" in q:
            texts.append({"id": f"w{c['id']}", "expect": "accept", "toks": q["written"]})
            written_text[f"w{c['id']}"] = q.get("written_text")
    # (c) damaged texts: drop the last END, drop a ';', move the first statement of a block to library level
    ndam = 0
    for t in [t for t in texts if t["id"].startswith("r")][::7]:
        tk = t["toks"]
        ends = [i for i, x in enumerate(tk) if x.get("u") == "END"]
        semis = [i for i, x in enumerate(tk) if x["c"] == ";"]
        if len(ends) >= 2:
            texts.append({"id": "d-end-" + t["id"], "expect": "reject", "toks": tk[:ends[-2]] + tk[ends[-2] + 1:]}); ndam += 1
        if semis and not any(x.get("u") == "BEGINEXT" for x in tk):
            k = semis[len(semis) // 2]
            nxt = tk[k + 1] if k + 1 < len(tk) else None
            if nxt is not None and nxt["c"] == "w" and nxt["u"] not in ("END",):
                texts.append({"id": "d-semi-" + t["id"], "expect": "reject", "toks": tk[:k] + tk[k + 1:]}); ndam += 1
    tf = os.path.join(W, "lefgrammar.ndjson")
    write_ndjson(tf, texts)
    r = chk.tlc.trace(os.path.join(D, "Trace_LefGrammar.tla"), os.path.join(D, "Trace_LefGrammar.cfg"), tf, mem="8g", timeout=3600)
    chk.add_tlc(f"Trace_LefGrammar on {len(texts)} token lists ({ndam} damaged)", r)
    chk.tlc_must_pass("Trace_LefGrammar", r)
    chk.require(any(k == "INFO" for k, _ in r.lines), "the grammar acceptor did not consume every text")
    bad = [json.loads(json.loads(b)) for k, b in r.lines if k == "BAD"]
    for b in bad:
        if b["id"].startswith("r"):
            raise vlib.ToolError(f"LefGrammar rejects a text rendered by LefSyntax: {b}")
    nacc = [b for b in bad if b["what"] == "accepted-damaged-text"]
    # a dropped ';' can leave a legal text (the next statement's tokens may continue the argument list): tolerated up to a third
    chk.require(len(nacc) * 3 <= max(ndam, 1), f"the grammar acceptor accepts too many damaged texts: {len(nacc)} of {ndam}")
    chk.require(ndam > 20, "no damaged texts generated")
    wbad = [b for b in bad if b["id"].startswith("w")]
    seen = set()
    for b in wbad:
        key = (tuple(b["open"]), tuple(b["next"][:2]))
        if key in seen:
            continue
        seen.add(key)
        if len(seen) <= 5:
            chk.model_drift(f"the writer's text is not accepted by the LEF grammar model at token {b['pos']} inside {b['open']}: next {b['next']}",
                            {"written": written_text.get(b["id"])})
    chk.cov["writer_texts_accepted_by_grammar"] = sum(1 for t in texts if t["id"].startswith("w")) - len(wbad)
    chk.cov["writer_texts_rejected_by_grammar"] = len(wbad)
    chk.cov["damaged_texts_rejected"] = ndam - len(nacc)
    return len(texts)
