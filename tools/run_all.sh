#!/bin/bash
# run_all.sh [quick|thorough] [ids...]: run the registered checks one after another, print one line each
tier=${1:-quick}; shift
ids=${@:-C01 C02 C03 C04 C05 C06 C07 C08 C09 C10 C11 C12 C13 C14 C15 C16 C17 C18 C19 C20}
cd /verif
rc=0
for p in $ids; do
  out=$(python3 tools/check.py $p --tier $tier 2>&1); e=$?
  echo "$p exit=$e $(echo "$out" | grep -E '^\[done\]|^TOOL-ERROR|^VIOLATION' | head -3 | tr '\n' ' ')"
  [ $e -ne 0 ] && rc=1
done
exit $rc
