#!/bin/bash
# collect.sh <ID> [offset]: copy a sub-agent's patches/demos from /tmp/mut/<ID> into /verif/seeded/<ID>/m<k+offset>/
# and remove the scratch worktree
set -e
id=$1; off=${2:-0}
for k in 1 2 3 4 5; do
  if [ -f /tmp/mut/$id/patch$k.diff ]; then
    d=/verif/seeded/$id/m$((k+off))
    mkdir -p $d
    cp /tmp/mut/$id/patch$k.diff $d/patch.diff
    cp /tmp/mut/$id/demo$k.md $d/demo.md 2>/dev/null || true
  fi
done
git -C /repo worktree remove --force /tmp/mut/$id
rm -f /tmp/mut/$id.prompt
