#!/bin/bash
# collect.sh <ID>: copy a sub-agent's patches/demos from /tmp/mut/<ID> into /verif/seeded/<ID>/m<k>/ and remove the worktree
set -e
id=$1
for k in 1 2 3; do
  if [ -f /tmp/mut/$id/patch$k.diff ]; then
    mkdir -p /verif/seeded/$id/m$k
    cp /tmp/mut/$id/patch$k.diff /verif/seeded/$id/m$k/patch.diff
    cp /tmp/mut/$id/demo$k.md /verif/seeded/$id/m$k/demo.md 2>/dev/null || true
  fi
done
git -C /repo worktree remove --force /tmp/mut/$id
rm -f /tmp/mut/$id.prompt
