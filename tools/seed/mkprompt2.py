#!/usr/bin/env python3
"""Second-round prompt: three changes, spread over the anchored files, aimed at the less obvious clauses of the statement."""
import json, sys
pid = sys.argv[1]
wt = f"/tmp/mut/{pid}"
for l in open('/verif/properties.jsonl'):
    p = json.loads(l)
    if p['id'] == pid:
        break
files = ", ".join(p.get('anchors', {}).get('files', []))
print(f"""You are working on the open-source Rust workspace dan-fritchman/Layout21 (IC layout: GDSII and LEF parsers/writers, raw layout model and converters, gridded "tetris" placer). Your own scratch git worktree of it is at {wt}. Work ONLY inside {wt}; do not read or touch /repo or /verif. There is no network: always pass --offline to cargo, and set CARGO_TARGET_DIR={wt}/target for every cargo command. Build only the crates you need (e.g. `cargo test -p gds21 --offline`), not more.

Here is a semantic property the library is supposed to satisfy:

TITLE: {p['title']}
STATEMENT: {p['statement']}
FOR ALL: {p['quantifier']['text']}
Main source files involved: {files}

Your job is to play the role of a regression: produce THREE independent, realistic source changes (each relative to the clean HEAD of the worktree), each of which BREAKS this property for some inputs, while
 - the workspace still compiles without errors,
 - the existing test suite of the affected crates still passes (`cargo test -p <crate> --offline`; the test gds21::tests::it_has_gds_properties already fails on the unchanged tree, ignore it),
 - only library source files (src/*.rs) are changed - no tests, no Cargo files,
 - the change looks like something a maintainer could plausibly commit (a refactoring slip, an off-by-one, a wrong field, a dropped or reordered branch, a missed case, a 'simplification', an 'optimisation'), and
 - the breakage needs something specific to manifest. Go for the LESS OBVIOUS corners: read the statement and the FOR ALL clause carefully and aim each change at a different clause, feature, element kind, optional field, boundary value or error path that a hurried tester would not think of first (avoid the most obvious candidates such as swapping two adjacent fields of the most common record). The three changes must be of different kinds, in three different functions, and if more than one source file is listed, not all in the same file. At least two must be subtle: wrong only for a narrow class of inputs (a boundary value, a rarely used optional field, a particular combination of two features, a particular order of items, a particular size).

For each change k in 1, 2, 3:
 1. make the edit, build, run the tests of the affected crates and make sure they pass;
 2. demonstrate the breakage with a small throw-away Rust test or example you write and run (do NOT leave it in the patch): show the concrete input, the expected and the observed result;
 3. save `git diff` of the source edit only as {wt}/patch{{k}}.diff, and a short {wt}/demo{{k}}.md with: what was changed and why it is plausible, the concrete failing input, expected vs observed, and the demonstration code and its output;
 4. `git checkout -- . && git clean -fdq -e target -e 'patch*.diff' -e 'demo*.md'` to return to the clean tree before the next change.
At the end, remove {wt}/target (rm -rf) to free disk, leave the patch and demo files in place, and reply with a brief summary of the three changes (files/functions touched, what input triggers each, and confirmation that tests pass with each).""")
