#!/usr/bin/env python3
"""Third-round prompt: two changes OUTSIDE the anchored files, in shared helpers the anchored code depends on."""
import json, sys
pid = sys.argv[1]
wt = f"/tmp/mut/{pid}"
for l in open('/verif/properties.jsonl'):
    p = json.loads(l)
    if p['id'] == pid:
        break
files = ", ".join(p.get('anchors', {}).get('files', []))
print(f"""You are working on the open-source Rust workspace dan-fritchman/Layout21 (IC layout: GDSII and LEF parsers/writers, raw layout model and converters, gridded "tetris" placer). Your own scratch git worktree of it is at {wt}. Work ONLY inside {wt}; do not read or touch /repo or /verif. There is no network: always pass --offline to cargo, and set CARGO_TARGET_DIR={wt}/target for every cargo command. Build only the crates you need (e.g. `cargo test -p gds21 --offline`), not more.

Here is a semantic property the library is supposed to satisfy:

TITLE: {p['title']}
STATEMENT: {p['statement']}
FOR ALL: {p['quantifier']['text']}
The behaviour is mainly implemented in: {files}

Your job is to play the role of a regression that comes from somewhere else: produce TWO independent, realistic source changes (each relative to the clean HEAD of the worktree), each of which BREAKS this property for some inputs, but each located OUTSIDE the functions that obviously implement it. Read the code to find what the main implementation depends on and change THAT: shared helpers and utilities in other modules or other crates of the workspace (e.g. numeric/unit/coordinate types and their operator impls, conversion and From/TryFrom impls, Default impls and derives, builder defaults, error helpers, string/byte helpers, bounding-box / point / shape helpers, container wrappers, iteration helpers, trait implementations such as PartialEq / Ord / Hash that comparisons or orderings rely on, constructors, getters, constants and lookup tables). If the property's main file is the only place you can find, change a small helper function, a constant, a table entry, a trait impl or a derive in it rather than the main routine. Requirements for each change:
 - the workspace still compiles without errors,
 - the existing test suites of ALL crates you touched and of the crates that depend on them still pass (`cargo test -p <crate> --offline`; gds21::tests::it_has_gds_properties already fails on the unchanged tree, ignore it),
 - only library source files (src/*.rs) are changed - no tests, no Cargo files,
 - it looks like something a maintainer could plausibly commit (a clean-up, a 'more idiomatic' rewrite, a derive instead of a hand-written impl or the reverse, a changed default, an 'optimisation'),
 - the breakage of THIS property needs something specific to manifest (a boundary value, a particular combination, a particular order or size), and is silent where possible (a wrong value or a missing item rather than an obvious crash).
The two changes must be of different kinds and in different files.

For each change k in 1, 2:
 1. make the edit, build, run the tests of the affected crates and make sure they pass;
 2. demonstrate the breakage OF THE PROPERTY ABOVE with a small throw-away Rust test or example you write and run (do NOT leave it in the patch): show the concrete input, the expected and the observed result;
 3. save `git diff` of the source edit only as {wt}/patch{{k}}.diff, and a short {wt}/demo{{k}}.md with: what was changed and why it is plausible, the concrete failing input, expected vs observed, and the demonstration code and its output;
 4. `git checkout -- . && git clean -fdq -e target -e 'patch*.diff' -e 'demo*.md'` to return to the clean tree before the next change.
At the end, remove {wt}/target (rm -rf) to free disk, leave the patch and demo files in place, and reply with a brief summary of the two changes (files/functions touched, what input triggers each, and confirmation that tests pass with each).""")
