#!/usr/bin/env python3
"""Fourth-round prompt: two changes in the guise of performance / robustness PRs, aimed at interactions of two features."""
import json, sys
pid = sys.argv[1]
wt = f"/tmp/mut/{pid}"
for l in open('/verif/properties.jsonl'):
    p = json.loads(l)
    if p['id'] == pid:
        break
files = ", ".join(p.get('anchors', {}).get('files', []))
print(f"""You are working on the open-source Rust workspace dan-fritchman/Layout21 (IC layout: GDSII and LEF parsers/writers, raw layout model and converters, gridded "tetris" placer). Your own scratch git worktree of it is at {wt}. Work ONLY inside {wt}; do not read or touch /repo or /verif. There is no network: always pass --offline to cargo, and set CARGO_TARGET_DIR={wt}/target for every cargo command. Build only the crates you need (e.g. `cargo test -p gds21 --offline`), not more.

Here is a semantic property the library is supposed to satisfy:

TITLE: {p['title']}
STATEMENT: {p['statement']}
FOR ALL: {p['quantifier']['text']}
Main source files involved: {files}

Play the role of a contributor sending two pull requests, each of which unintentionally BREAKS this property:
 PR 1 - a PERFORMANCE change: caching / memoisation, an early exit or fast path, skipping work that 'cannot matter', pre-sizing or re-using buffers, replacing a general routine by a specialised one, batching, avoiding a clone or a sort. The fast path must be wrong only when TWO conditions meet (a combination of two features / field values / orderings that each work on their own), so that single-feature tests stay green.
 PR 2 - a ROBUSTNESS or API-HYGIENE change: input validation or normalisation that is slightly too strict or too lenient, saturating / clamping / wrapping arithmetic instead of an error (or the reverse), a changed default, a unified error path that swallows one case, canonicalising data 'harmlessly' on the way in or out. It must change the outcome only for boundary values or rarely used options that the statement above still covers.
Requirements for each: the workspace compiles; the existing test suites of the crates you touch and of the crates depending on them still pass (`cargo test -p <crate> --offline`; gds21::tests::it_has_gds_properties already fails on the unchanged tree, ignore it); only library source files (src/*.rs) change - no tests, no Cargo files; the PR looks plausible and well-intentioned (write the commit message you would give it at the top of the demo file); the property is broken silently where possible (wrong value, dropped item, wrong order) rather than by an obvious crash. The two PRs must touch different functions.

For each change k in 1, 2:
 1. make the edit, build, run the tests of the affected crates and make sure they pass;
 2. demonstrate the breakage with a small throw-away Rust test or example you write and run (do NOT leave it in the patch): show the concrete input, the expected and the observed result, and show that each of the two conditions alone (for PR 1) still works;
 3. save `git diff` of the source edit only as {wt}/patch{{k}}.diff, and a short {wt}/demo{{k}}.md with: the commit message, what was changed, the concrete failing input, expected vs observed, and the demonstration code and its output;
 4. `git checkout -- . && git clean -fdq -e target -e 'patch*.diff' -e 'demo*.md'` to return to the clean tree before the next change.
At the end, remove {wt}/target (rm -rf) to free disk, leave the patch and demo files in place, and reply with a brief summary of the two changes (files/functions touched, what input triggers each, and confirmation that tests pass with each).""")
