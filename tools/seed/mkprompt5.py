#!/usr/bin/env python3
"""Fifth-round prompt: ONE change per property, free choice, with the explicit goal of evading an input-space-based checker."""
import json, sys
pid = sys.argv[1]
wt = f"/tmp/mut/{pid}"
for l in open('/verif/properties.jsonl'):
    p = json.loads(l)
    if p['id'] == pid:
        break
files = ", ".join(p.get('anchors', {}).get('files', []))
print(f"""You are working on the open-source Rust workspace dan-fritchman/Layout21 (IC layout: GDSII and LEF parsers/writers, raw layout model and converters, gridded "tetris" placer). Your own scratch git worktree of it is at {wt}. Work ONLY inside {wt}; do not read or touch /repo or /verif. There is no network: always pass --offline to cargo, and set CARGO_TARGET_DIR={wt}/target for every cargo command. Build only the crates you need (e.g. `cargo test -p gds21 --offline`), not more.

Here is a semantic property the library is supposed to satisfy:

TITLE: {p['title']}
STATEMENT: {p['statement']}
FOR ALL: {p['quantifier']['text']}
Main source files involved: {files}

Somebody has built an automatic checker for this property. It generates inputs systematically - every construct on its own, all optional-field subsets, boundary values (0, 1, -1, minimum, maximum, empty, one element), every listing order of small structures, small exhaustive grids and a few thousand seeded random combinations - runs the library on them and compares the results with an independent model. You do not know more about it. Your job: produce ONE realistic source change (relative to the clean HEAD of the worktree) that BREAKS the property for some inputs that lie clearly inside the FOR ALL clause above, and that you believe such a checker is LEAST likely to notice. Think about what systematic generators tend not to produce: particular NON-boundary magic values (a specific number in the middle of a range, a specific string, a specific count like 7 or 13 items), long-range interactions (the 3rd item of one list depending on the 2nd of another), state carried from one top-level object to the next (the second library / second cell / second macro processed by the same object), size thresholds (more than 16 / 64 / 255 / 1000 items), repetition (the same item three times), alignment or parity effects, and effects that depend on the ORDER of two independent optional fields. Requirements: the workspace compiles; the existing test suites of the crates you touch and of the crates depending on them still pass (`cargo test -p <crate> --offline`; gds21::tests::it_has_gds_properties already fails on the unchanged tree, ignore it); only library source files (src/*.rs) change - no tests, no Cargo files; the change looks like something a maintainer could plausibly commit (give the commit message); the property is broken silently where possible.

Steps: make the edit, build, run the tests of the affected crates; demonstrate the breakage with a small throw-away Rust test or example you write and run (do NOT leave it in the patch): show the concrete input, the expected and the observed result; save `git diff` of the source edit only as {wt}/patch1.diff, and a short {wt}/demo1.md with the commit message, what was changed, why you think a systematic checker would miss it, the concrete failing input, expected vs observed, and the demonstration code and its output; then `git checkout -- . && git clean -fdq -e target -e 'patch*.diff' -e 'demo*.md'`; remove {wt}/target (rm -rf); reply with a brief summary.""")
