#!/usr/bin/env python3
"""Prompt for BENIGN changes: behaviour-preserving edits a maintainer might make; no check may raise an alarm on them."""
import sys
crate = sys.argv[1]
wt = f"/tmp/mut/benign_{crate}"
print(f"""You are working on the open-source Rust workspace dan-fritchman/Layout21 (IC layout: GDSII and LEF parsers/writers, raw layout model and converters, gridded "tetris" placer). Your own scratch git worktree of it is at {wt}. Work ONLY inside {wt}; do not read or touch /repo or /verif. There is no network: always pass --offline to cargo, and set CARGO_TARGET_DIR={wt}/target for every cargo command. Build only the crates you need.

Your job: produce FOUR independent BENIGN changes to the crate `{crate}` (each relative to the clean HEAD of the worktree). A benign change is one a maintainer could plausibly commit that alters the source noticeably but PRESERVES the externally observable behaviour of the public API for every input: same return values, same success-versus-error outcome for every input, same bytes / text written, same ordering of outputs. Examples of the kind wanted (pick different kinds for the four changes, and make them substantial - tens of lines, not a renamed variable):
 - restructure a parser / writer / converter routine (split into helpers, merge helpers, turn a loop into iterator chains or the reverse, early returns instead of nested ifs, match instead of if-chains) without changing what it computes;
 - replace one data structure by an equivalent one where the order of results cannot change (e.g. a Vec lookup by a map used only for lookup; a HashSet by a BTreeSet);
 - change the wording of error MESSAGES or the contents of error context / Debug / Display output, add logging or comments, rename private items, reorder private functions or struct-private fields;
 - change internal arithmetic to an equivalent exact form (e.g. checked ops that cannot fail, i64 intermediates instead of isize, precomputed constants);
 - add a fast path that returns exactly what the slow path would.
Do NOT change: public signatures, which inputs are accepted or rejected, any produced value, the order of produced items, serde attributes or field names. Do not touch tests or Cargo files. Each change must compile and keep the crate's tests and the tests of crates depending on it green (`cargo test -p <crate> --offline`; gds21::tests::it_has_gds_properties already fails on the unchanged tree, ignore it). Convince yourself of behaviour preservation by reasoning and by running a quick differential check of your own (old vs new on a few inputs) where practical.

For each change k in 1..4: make the edit, build, run the tests; save `git diff` as {wt}/patch{{k}}.diff and a short {wt}/demo{{k}}.md saying what was changed and why behaviour is preserved; then `git checkout -- . && git clean -fdq -e target -e 'patch*.diff' -e 'demo*.md'`. At the end remove {wt}/target (rm -rf), leave the patch and demo files, and reply with a brief summary.""")
