#!/usr/bin/env python3
"""mktable.py [m10 ...] — rows of the per-seed table of DESIGN.md 10.5 from seeded/<ID>/<m>/meta.json"""
import json, glob, os, sys, re
want = set(sys.argv[1:])
rows = []
for mp in sorted(glob.glob("/verif/seeded/C*/m*/meta.json"), key=lambda p: (p.split("/")[3], int(re.sub(r"\D", "", p.split("/")[4])))):
    pid, m = mp.split("/")[3], mp.split("/")[4]
    if want and m not in want:
        continue
    d = json.load(open(mp))
    classes, by = [], []
    for chk, r in d.get("results", {}).items():
        if r.get("detected"):
            by.append(chk.split(":")[0])
            classes += [v.replace(".json", "") for v in r.get("violations", [])]
    if d.get("out_of_domain"):
        before, now = "out of domain", "—"
    elif d.get("out_of_reach"):
        before, now = "no", "not caught: " + d["out_of_reach"]
    else:
        first = d.get("detected_by_first_version_of_check")
        before = "yes" if first else ("extended before the first run" if first is None else "no → extended")
        now = ", ".join(sorted(set(classes))[:3]) + ("" if by == [pid] or not by else f" ({', '.join(sorted(set(by)))})")
    rows.append(f"| {pid}/{m} | {d.get('change','')} | {d.get('trigger','')} | {before} | {now} |")
print("\n".join(rows))
