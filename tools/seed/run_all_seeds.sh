#!/bin/bash
# re-run every seeded change against the check of its own property (quick tier); one line per seed
cd /verif
for d in seeded/C*/m*; do
  s=${d#seeded/}; p=${s%%/*}
  python3 tools/seed/run_seed.py $s $p 2>&1 | tail -1
done
