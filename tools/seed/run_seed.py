#!/usr/bin/env python3
"""run_seed.py <ID>/<m> <check> [<check> ...] [--tier quick]
Applies /verif/seeded/<ID>/<m>/patch.diff to /repo's working tree, runs the named checks, undoes the patch
(always), and records exit codes and VIOLATION lines in /verif/seeded/<ID>/<m>/meta.json."""
import sys, os, json, subprocess, time
args = [a for a in sys.argv[1:] if not a.startswith("--")]
tier = "quick"
if "--tier" in sys.argv:
    tier = sys.argv[sys.argv.index("--tier") + 1]; args.remove(tier)
seed, checks = args[0], args[1:]
d = os.path.join("/verif/seeded", seed)
patch = os.path.join(d, "patch.diff")
st = subprocess.run(["git", "-C", "/repo", "status", "--porcelain", "--untracked-files=no"], capture_output=True, text=True).stdout.strip()
if st:
    sys.exit("refusing: /repo working tree is not clean:\n" + st)
subprocess.run(["git", "-C", "/repo", "apply", "--check", patch], check=True)
subprocess.run(["git", "-C", "/repo", "apply", patch], check=True)
mp = os.path.join(d, "meta.json")
meta = json.load(open(mp)) if os.path.exists(mp) else {}
meta.setdefault("property", seed.split("/")[0])
meta.setdefault("results", {})
try:
    for c in checks:
        t = time.time()
        r = subprocess.run(["python3", "/verif/tools/check.py", c, "--tier", tier], capture_output=True, text=True, cwd="/verif")
        vio = [l for l in r.stdout.splitlines() if l.startswith("VIOLATION")]
        tail = r.stdout.strip().splitlines()[-1:] + [l for l in r.stdout.splitlines() if l.startswith("TOOL-ERROR")]
        meta["results"][f"{c}:{tier}"] = {"exit": r.returncode, "violations": [v.split("replay=")[1].split("/")[-1] for v in vio][:12],
                                          "detected": r.returncode == 1 and bool(vio), "seconds": round(time.time() - t, 1), "last": tail}
        print(seed, c, "exit", r.returncode, "violations", len(vio), tail)
finally:
    subprocess.run(["git", "-C", "/repo", "checkout", "--", "."], check=True)
    json.dump(meta, open(mp, "w"), indent=1)
# evidence files were rewritten by runs on a modified tree: restore the committed ones
subprocess.run(["git", "-C", "/verif", "checkout", "--", "evidence"], check=False)
