"""Shared machinery of the Layout21 verification checks.

  build_harness()             cargo build of /verif/harness against /repo's working tree (hooks on)
  Tlc.check / Tlc.trace       run TLC: exhaustive / simulation / trace validation; parse statistics,
                              coverage and the JSON cases printed by `PrintT(<<"CASE", ToJson(..)>>)`
  harness(cmd, cases)         run cases through the Rust harness in an isolated child process
  Check                       verdict bookkeeping: violations, known findings, drift notes, evidence

Exit codes of a check: 0 property held on everything explored (possibly with KNOWN-FINDING lines),
1 at least one VIOLATION line, 2 tool error (never says anything about the code).
"""
import json, os, re, subprocess, sys, time, shutil, hashlib

VERIF = os.path.dirname(os.path.dirname(os.path.abspath(__file__)))
REPO = os.environ.get("VERIF_REPO", "/repo")
SPECS = os.path.join(VERIF, "specs")
HARNESS_DIR = os.path.join(VERIF, "harness")
HARNESS_BIN = os.path.join(HARNESS_DIR, "target", "release", "verif-harness")
WORK = os.path.join(VERIF, "work")
JAR = "/opt/veriftools/tla/tla2tools.jar:/opt/veriftools/tla/CommunityModules-deps.jar"
NCPU = os.cpu_count() or 4


class ToolError(Exception):
    pass


def log(*a):
    print(*a, flush=True)


def spec_dirs():
    return [os.path.join(SPECS, d) for d in sorted(os.listdir(SPECS)) if os.path.isdir(os.path.join(SPECS, d))]


_built = False


def build_harness():
    """Rebuild the harness (and through path dependencies everything changed under /repo)."""
    global _built
    if _built:
        return
    lock_src = os.path.join(REPO, "Cargo.lock")
    lock_dst = os.path.join(HARNESS_DIR, "Cargo.lock")
    if not os.path.exists(lock_dst) and os.path.exists(lock_src):
        shutil.copy(lock_src, lock_dst)
    env = dict(os.environ, CARGO_NET_OFFLINE="true")
    t0 = time.time()
    p = subprocess.run(["cargo", "build", "--release", "--offline", "-q"], cwd=HARNESS_DIR, env=env,
                       stdout=subprocess.PIPE, stderr=subprocess.STDOUT, text=True)
    if p.returncode != 0:
        errs = [l for l in p.stdout.splitlines() if l.startswith("error") or "-->" in l][:30]
        log("TOOL-ERROR harness build failed:\n" + "\n".join(errs or p.stdout.splitlines()[-30:]))
        raise ToolError("harness build failed")
    log(f"[build] harness built in {time.time()-t0:.1f}s")
    # run a private copy of the binary: a later rebuild (another check, a changed /repo) cannot swap it under a running check
    global HARNESS_BIN
    bindir = os.path.join(VERIF, "work", "bin")
    os.makedirs(bindir, exist_ok=True)
    private = os.path.join(bindir, f"verif-harness.{os.getpid()}")
    shutil.copy2(HARNESS_BIN, private)
    HARNESS_BIN = private
    import atexit
    atexit.register(lambda: os.path.exists(private) and os.remove(private))
    _built = True


def harness(cmd, cases, workdir, timeout_ms=10000, tag=None):
    """Run `cases` (list of dicts) through harness command `cmd`; returns list of result dicts (same length)."""
    build_harness()
    os.makedirs(workdir, exist_ok=True)
    tag = tag or cmd
    fin = os.path.join(workdir, f"{tag}.in.ndjson")
    fout = os.path.join(workdir, f"{tag}.out.ndjson")
    with open(fin, "w") as f:
        for c in cases:
            f.write(json.dumps(c, separators=(",", ":")) + "\n")
    p = subprocess.run([HARNESS_BIN, "run", cmd, fin, fout, "--timeout-ms", str(timeout_ms)],
                       stdout=subprocess.PIPE, stderr=subprocess.PIPE, text=True)
    if p.returncode != 0:
        raise ToolError(f"harness run {cmd} failed: {p.stderr[-2000:]}")
    res = [json.loads(l) for l in open(fout) if l.strip()]
    if len(res) != len(cases):
        raise ToolError(f"harness run {cmd}: {len(res)} results for {len(cases)} cases")
    return res


def harness_file(cmd, fin, workdir, timeout_ms=10000, tag=None):
    """Like harness() but the cases are already in ndjson file `fin`; yields result dicts (streaming)."""
    build_harness()
    tag = tag or cmd
    fout = os.path.join(workdir, f"{tag}.out.ndjson")
    p = subprocess.run([HARNESS_BIN, "run", cmd, fin, fout, "--timeout-ms", str(timeout_ms)],
                       stdout=subprocess.PIPE, stderr=subprocess.PIPE, text=True)
    if p.returncode != 0:
        raise ToolError(f"harness run {cmd} failed: {p.stderr[-2000:]}")
    with open(fout) as f:
        for l in f:
            if l.strip():
                yield json.loads(l)


class TlcResult:
    def __init__(self):
        self.ok = False            # TLC finished without reporting an error
        self.states = 0            # states generated (= transitions evaluated + initial states)
        self.distinct = 0
        self.depth = 0
        self.cases = []            # decoded JSON cases printed by the spec
        self.lines = []            # other printed tuples (decoded best-effort)
        self.error = None          # first error text
        self.coverage = {}         # action name -> count (with -coverage)
        self.raw = ""
        self.wall = 0.0
        self.postcondition_failed = False


_case_re = re.compile(r'^<<"(CASE|BAD|INFO|TRACE)", (.*)>>$')


def _decode_tla_string(s):
    # TLC prints strings with \" and \\ escapes; JSON string decoding handles both.
    return json.loads(s)


class Tlc:
    def __init__(self, workdir, seed=None):
        self.workdir = workdir
        self.seed = seed          # default -seed of every run: RandomElement / -simulate are reproducible per VERIF_SEED
        os.makedirs(workdir, exist_ok=True)

    def _run(self, module_path, cfg_path, args, env_extra=None, jvm=None, timeout=3600, keep_raw=False,
             on_case=None):
        meta = os.path.join(self.workdir, "tlc_" + hashlib.md5((module_path + cfg_path + str(time.time())).encode()).hexdigest()[:8])
        lib = os.pathsep.join(spec_dirs())
        cmd = ["java", "-XX:+UseParallelGC", "-Xss1g"] + (jvm or []) + [f"-DTLA-Library={lib}", "-cp", JAR, "tlc2.TLC",
               "-metadir", meta, "-cleanup", "-noGenerateSpecTE", "-config", cfg_path] + args + [module_path]
        env = dict(os.environ)
        env.pop("JAVA_TOOL_OPTIONS", None)
        if env_extra:
            env.update(env_extra)
        r = TlcResult()
        t0 = time.time()
        p = subprocess.Popen(cmd, cwd=os.path.dirname(module_path), env=env, stdout=subprocess.PIPE,
                             stderr=subprocess.STDOUT, text=True, bufsize=1 << 20)
        raw = []
        cur_cov_action = None
        try:
            for line in p.stdout:
                line = line.rstrip("\n")
                m = _case_re.match(line)
                if m:
                    kind, body = m.group(1), m.group(2)
                    try:
                        if kind == "CASE":
                            c = json.loads(_decode_tla_string(body))
                            if on_case:
                                on_case(c)
                            else:
                                r.cases.append(c)
                        else:
                            r.lines.append((kind, body))
                    except Exception as e:
                        r.lines.append(("UNPARSED", line[:500]))
                    continue
                raw.append(line)
                if time.time() - t0 > timeout:
                    p.kill()
                    r.error = "timeout"
                    break
                m = re.match(r"^(\d+) states generated, (\d+) distinct states found", line)
                if m:
                    r.states, r.distinct = int(m.group(1)), int(m.group(2))
                m = re.match(r"^The depth of the complete state graph search is (\d+)", line)
                if m:
                    r.depth = int(m.group(1))
                m = re.match(r"^<(\w+) line \d+, col \d+ to line \d+, col \d+ of module (\w+)>: (\d+):(\d+)", line)
                if m:
                    r.coverage[m.group(1)] = r.coverage.get(m.group(1), 0) + int(m.group(4))
                if line.startswith("Error:") and r.error is None:
                    r.error = line
                if "Postcondition" in line or "POSTCONDITION" in line:
                    if "violated" in line or "false" in line.lower():
                        r.postcondition_failed = True
            p.wait()
        finally:
            if p.poll() is None:
                p.kill()
            shutil.rmtree(meta, ignore_errors=True)
        r.wall = time.time() - t0
        r.raw = "\n".join(raw[-400:]) if not keep_raw else "\n".join(raw)
        r.ok = (p.returncode == 0 and r.error is None)
        r.returncode = p.returncode
        return r

    def check(self, module_path, cfg_path, workers=None, coverage=False, simulate=None, seed=None,
              depth=None, timeout=3600, mem="8g", on_case=None, env=None):
        args = ["-workers", str(workers or min(NCPU, 12)), "-maxSetSize", "100000000"]
        if coverage:
            args += ["-coverage", "1"]
        if simulate:
            args += ["-simulate", f"num={simulate}"]
            if depth:
                args += ["-depth", str(depth)]
        seed = self.seed if seed is None else seed
        if seed is not None:
            args += ["-seed", str(seed)]
        return self._run(module_path, cfg_path, args, jvm=[f"-Xmx{mem}"], timeout=timeout, on_case=on_case,
                         env_extra=env)

    def trace(self, module_path, cfg_path, trace_file, timeout=3600, mem="4g", env=None):
        """Trace validation: single worker, depth-first queue, trace handed over in env TRACE."""
        e = {"TRACE": trace_file}
        if env:
            e.update(env)
        return self._run(module_path, cfg_path, ["-workers", "1"],
                         jvm=[f"-Xmx{mem}", "-Dtlc2.tool.queue.IStateQueue=StateDeque"],
                         env_extra=e, timeout=timeout)


def apalache(module_path, args, timeout=900):
    """Run apalache-mc check on a typed module; returns (outcome, seconds) with outcome in NoError / Error / timeout / unavailable."""
    import tempfile
    out = tempfile.mkdtemp(prefix="apa_", dir=os.path.join(VERIF, "work"))
    t0 = time.time()
    try:
        p = subprocess.run(["apalache-mc", "check"] + args + [f"--out-dir={out}", os.path.basename(module_path)], cwd=os.path.dirname(module_path),
                           stdout=subprocess.PIPE, stderr=subprocess.STDOUT, text=True, timeout=timeout)
        m = re.search(r"The outcome is: (\w+)", p.stdout)
        outcome = m.group(1) if m else ("unavailable" if p.returncode != 0 else "unknown")
    except subprocess.TimeoutExpired:
        outcome = "timeout"
    except FileNotFoundError:
        outcome = "unavailable"
    finally:
        shutil.rmtree(out, ignore_errors=True)
    return outcome, round(time.time() - t0, 1)


def load_known():
    p = os.path.join(VERIF, "known_findings.json")
    if not os.path.exists(p):
        return []
    return json.load(open(p)).get("findings", [])


class Check:
    """Verdict bookkeeping for one property run."""

    def __init__(self, prop, tier, seed):
        self.prop, self.tier, self.seed = prop, tier, seed
        self.t0 = time.time()
        self.workdir = os.path.join(WORK, prop)
        shutil.rmtree(self.workdir, ignore_errors=True)
        os.makedirs(self.workdir, exist_ok=True)
        self.replaydir = os.path.join(VERIF, "replays", prop)
        self.tlc = Tlc(self.workdir, seed)
        self.known = [k for k in load_known() if k.get("property") == prop and k.get("status") == "open"]
        self.violations = []       # unknown violations
        self.known_hits = {}       # finding id -> count
        self.drift = []
        self.notes = []
        self.cov = {"evaluations": 0, "distinct_nontrivial": 0, "states": 0, "transitions": 0,
                    "traces_validated_against_impl": 0, "samples": [], "stages": []}
        self.assumptions = []
        self._viol_files = 0

    # ---- counting
    def add_tlc(self, name, r: TlcResult):
        self.cov["states"] += r.distinct
        self.cov["transitions"] += r.states
        st = {"stage": name, "distinct_states": r.distinct, "states_generated": r.states, "depth": r.depth,
              "cases_emitted": len(r.cases), "wall_s": round(r.wall, 1)}
        if r.coverage:
            st["action_coverage"] = r.coverage
        self.cov["stages"].append(st)
        log(f"[tlc] {name}: {r.distinct} distinct / {r.states} generated states, depth {r.depth}, "
            f"{len(r.cases)} cases, {r.wall:.1f}s")

    def stage(self, name, **kw):
        d = {"stage": name}
        d.update(kw)
        self.cov["stages"].append(d)
        log(f"[stage] {name}: " + ", ".join(f"{k}={v}" for k, v in kw.items()))

    def sample(self, x, limit=6):
        if len(self.cov["samples"]) < limit:
            self.cov["samples"].append(x)

    def require(self, cond, msg):
        """Machinery self-test: failure is a tool error (exit 2), never a verdict about the code."""
        if not cond:
            raise ToolError("self-test failed: " + msg)

    def tlc_must_pass(self, name, r: TlcResult):
        if not r.ok:
            raise ToolError(f"TLC stage {name} failed: {r.error}\n{r.raw[-3000:]}")

    # ---- verdicts
    def violation(self, klass, where, case, detail):
        """A property-level disagreement.  `klass` is the diagnosis class used to match known findings."""
        if "not-run" in klass:
            # the harness stops running a batch after 12 timeouts (isolate.rs): those cases carry no verdict
            self.cov["not_run_after_timeouts"] = self.cov.get("not_run_after_timeouts", 0) + 1
            return "not-run"
        for k in self.known:
            if k.get("class") == klass and (not k.get("where") or k.get("where") == where):
                kid = k["id"]
                self.known_hits[kid] = self.known_hits.get(kid, 0) + 1
                if self.known_hits[kid] == 1:
                    k["_first"] = {"case": case, "detail": detail}
                return "known"
        self.violations.append({"class": klass, "where": where, "case": case, "detail": detail})
        return "new"

    def model_drift(self, what, detail=None):
        self.drift.append({"what": what, "detail": detail})

    def note(self, s):
        self.notes.append(s)
        log("NOTE " + s)

    # ---- finish
    def finish(self, level, rule, assumptions=None, extra=None):
        os.makedirs(os.path.join(VERIF, "evidence"), exist_ok=True)
        for k in self.known:
            n = self.known_hits.get(k["id"], 0)
            if n:
                log(f"KNOWN-FINDING: property={self.prop} {k['id']} {k.get('what','')} ({n} cases this run; "
                    f"e.g. {json.dumps(k['_first']['case'])[:300]})")
        # group unknown violations by class; one replay file per class (first 5 cases each)
        by = {}
        for v in self.violations:
            by.setdefault((v["class"], v["where"]), []).append(v)
        if by:
            os.makedirs(self.replaydir, exist_ok=True)
        for (klass, where), vs in by.items():
            path = os.path.join(self.replaydir, re.sub(r"[^A-Za-z0-9_.=-]+", "_", klass)[:150] + ".json")
            with open(path, "w") as f:
                json.dump({"property": self.prop, "class": klass, "where": where, "count": len(vs),
                           "cases": vs[:5]}, f, indent=1)
            log(f"VIOLATION property={self.prop} replay={path}")
            log(f"  class={klass} where={where} count={len(vs)} first: {json.dumps(vs[0]['detail'])[:600]}")
        for d in self.drift[:10]:
            log(f"MODEL-DRIFT property={self.prop} {d['what']}")
        cov = self.cov
        cov["rule"] = rule
        cov["model_drift"] = len(self.drift)
        cov["known_finding_hits"] = self.known_hits
        cov["notes"] = self.notes[:50]
        if extra:
            cov.update(extra)
        if not cov["samples"]:
            cov["samples"] = ["(none recorded)"]
        ev = {"property_id": self.prop, "tier": self.tier, "seed": self.seed, "level": level,
              "coverage": cov, "assumptions": (assumptions or []) + self.assumptions,
              "wall_s": round(time.time() - self.t0, 1), "violations": len(self.violations)}
        with open(os.path.join(VERIF, "evidence", f"{self.prop}.json"), "w") as f:
            json.dump(ev, f, indent=1)
        log(f"[done] {self.prop} tier={self.tier} evaluations={cov['evaluations']} "
            f"violations={len(self.violations)} known={sum(self.known_hits.values())} "
            f"drift={len(self.drift)} wall={ev['wall_s']}s")
        return 1 if self.violations else 0


def write_ndjson(path, rows):
    with open(path, "w") as f:
        for r in rows:
            f.write(json.dumps(r, separators=(",", ":")) + "\n")
